use serde_json::{json, Value as J};
pub fn op_threads(_case: &J) -> J {
  json!({"harness_error": "not implemented"})
}
