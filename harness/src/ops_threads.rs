//! C20: one `Arc<ModelEvaluator>` per model shared by N threads; every result compared with the
//! sequential result of the same (invocable, input); a logical clock orders the recorded call events;
//! the model-evaluator verification hook is used to (a) inject seeded yields / spins between lock
//! acquisitions, (b) hold K evaluations inside the evaluator at once (rendezvous) and (c) detect
//! cross-talk: every call carries a unique tag entry in its input context and the hook payload of a
//! call must never show another call's tag.

use crate::vj;
use dmntk_feel::context::FeelContext;
use dmntk_model_evaluator::ModelEvaluator;
use serde_json::{json, Value as J};
use std::cell::{Cell, RefCell};
use std::sync::atomic::{AtomicU64, AtomicUsize, Ordering};
use std::sync::{Arc, Barrier, Mutex, OnceLock};
use std::time::{Duration, Instant};

const MODE_OFF: usize = 0;
const MODE_YIELD: usize = 1;
const MODE_RENDEZVOUS: usize = 2;

struct HookState {
  mode: AtomicUsize,
  inside: AtomicUsize,
  max_inside: AtomicUsize,
  want: AtomicUsize,
  seed: AtomicU64,
  counter: AtomicU64,
  hook_events: AtomicU64,
  gate_timeouts: AtomicUsize,
  gate_timeout_ms: AtomicU64,
  crosstalk: Mutex<Vec<String>>,
}

static STATE: OnceLock<HookState> = OnceLock::new();

thread_local! {
  static GATED: Cell<bool> = Cell::new(false);
  static MY_TAG: RefCell<String> = RefCell::new(String::new());
}

const TAG_NAME: &str = "verif call tag";

fn state() -> &'static HookState {
  STATE.get_or_init(|| HookState {
    mode: AtomicUsize::new(MODE_OFF),
    inside: AtomicUsize::new(0),
    max_inside: AtomicUsize::new(0),
    want: AtomicUsize::new(0),
    seed: AtomicU64::new(1),
    counter: AtomicU64::new(0),
    hook_events: AtomicU64::new(0),
    gate_timeouts: AtomicUsize::new(0),
    gate_timeout_ms: AtomicU64::new(20_000),
    crosstalk: Mutex::new(vec![]),
  })
}

fn mix(mut x: u64) -> u64 {
  x ^= x >> 33;
  x = x.wrapping_mul(0xff51afd7ed558ccd);
  x ^= x >> 33;
  x = x.wrapping_mul(0xc4ceb9fe1a85ec53);
  x ^= x >> 33;
  x
}

#[cfg(dmntk_verif)]
fn install_hook() -> bool {
  static INSTALLED: OnceLock<bool> = OnceLock::new();
  *INSTALLED.get_or_init(|| {
    let _ = state();
    dmntk_model_evaluator::verif::set_callback(Box::new(|point: &'static str, id: &str, input: &FeelContext| {
      let st = state();
      st.hook_events.fetch_add(1, Ordering::Relaxed);
      // cross-talk: the payload must not carry another call's tag
      MY_TAG.with(|tag| {
        let tag = tag.borrow();
        if !tag.is_empty() {
          if let Some(dmntk_feel::values::Value::String(seen)) = input.get_entry(&dmntk_feel::Name::from(TAG_NAME)) {
            if *seen != *tag {
              if let Ok(mut g) = st.crosstalk.lock() {
                if g.len() < 20 {
                  g.push(format!("hook {} of {} in call {} saw the input of call {}", point, id, tag, seen));
                }
              }
            }
          }
        }
      });
      let mode = st.mode.load(Ordering::SeqCst);
      if mode == MODE_OFF {
        return;
      }
      let first = GATED.with(|g| {
        let was = g.get();
        g.set(true);
        !was
      });
      if first {
        let now = st.inside.fetch_add(1, Ordering::SeqCst) + 1;
        st.max_inside.fetch_max(now, Ordering::SeqCst);
      }
      if mode == MODE_YIELD {
        // seeded delays between lock acquisitions (where the scheduler could really switch)
        let n = st.counter.fetch_add(1, Ordering::Relaxed);
        let r = mix(n ^ st.seed.load(Ordering::Relaxed));
        match r % 8 {
          0 | 1 => std::thread::yield_now(),
          2 => {
            for _ in 0..(r >> 8) % 2000 {
              std::hint::spin_loop();
            }
          }
          3 => std::thread::sleep(Duration::from_micros((r >> 16) % 200)),
          _ => {}
        }
      } else if mode == MODE_RENDEZVOUS && first {
        let want = st.want.load(Ordering::SeqCst);
        let deadline = Instant::now() + Duration::from_millis(st.gate_timeout_ms.load(Ordering::Relaxed));
        while st.max_inside.load(Ordering::SeqCst) < want {
          if Instant::now() > deadline {
            st.gate_timeouts.fetch_add(1, Ordering::SeqCst);
            break;
          }
          std::thread::yield_now();
        }
      }
    }))
  })
}

#[cfg(not(dmntk_verif))]
fn install_hook() -> bool {
  false
}

fn call_end() {
  let was = GATED.with(|g| {
    let w = g.get();
    g.set(false);
    w
  });
  if was {
    state().inside.fetch_sub(1, Ordering::SeqCst);
  }
}

struct Call {
  model: usize,
  invocable: String,
  input: FeelContext,
}

fn tagged(input: &FeelContext, tag: &str) -> FeelContext {
  let mut c = input.clone();
  c.set_entry(&dmntk_feel::Name::from(TAG_NAME), dmntk_feel::values::Value::String(tag.to_string()));
  c
}

/// {op:"threads", models:[xml..], calls:[[model index, invocable, ctx-entries],..], threads:N, per_thread:R, seed, rendezvous:K, reps}
pub fn op_threads(case: &J) -> J {
  let hook = install_hook();
  let st = state();
  let empty = vec![];
  let mut evaluators: Vec<Arc<ModelEvaluator>> = vec![];
  for m in case.get("models").and_then(|v| v.as_array()).unwrap_or(&empty) {
    let xml = m.as_str().unwrap_or("");
    let defs = match dmntk_model::parse(xml) {
      Ok(d) => d,
      Err(e) => return json!({"harness_error": format!("model does not parse: {}", e)}),
    };
    match ModelEvaluator::new(&defs) {
      Ok(e) => evaluators.push(e),
      Err(e) => return json!({"harness_error": format!("model does not build: {}", e)}),
    }
  }
  let mut calls: Vec<Call> = vec![];
  for c in case.get("calls").and_then(|v| v.as_array()).unwrap_or(&empty) {
    let model = c.get(0).and_then(|v| v.as_u64()).unwrap_or(0) as usize;
    let invocable = c.get(1).and_then(|v| v.as_str()).unwrap_or("").to_string();
    let input = match c.get(2).and_then(|v| v.as_array()).map(|a| vj::to_context(a)) {
      Some(Ok(x)) => x,
      _ => return json!({"harness_error": "bad call input"}),
    };
    if model >= evaluators.len() {
      return json!({"harness_error": "bad model index"});
    }
    calls.push(Call { model, invocable, input });
  }
  if calls.is_empty() {
    return json!({"harness_error": "no calls"});
  }
  let n_threads = case.get("threads").and_then(|v| v.as_u64()).unwrap_or(4) as usize;
  let per_thread = case.get("per_thread").and_then(|v| v.as_u64()).unwrap_or(100) as usize;
  let seed = case.get("seed").and_then(|v| v.as_u64()).unwrap_or(1);
  let rendezvous = case.get("rendezvous").and_then(|v| v.as_u64()).unwrap_or(0) as usize;
  st.gate_timeout_ms.store(case.get("gate_timeout_ms").and_then(|v| v.as_u64()).unwrap_or(20_000), Ordering::Relaxed);
  // ---- expected values: every call made ALONE, on an evaluator built for that call only (an evaluator that has
  // served other calls before may already carry their traces); then the same calls in sequence on the shared evaluators ----
  st.mode.store(MODE_OFF, Ordering::SeqCst);
  let model_texts: Vec<String> = case.get("models").and_then(|v| v.as_array()).unwrap_or(&empty).iter().map(|m| m.as_str().unwrap_or("").to_string()).collect();
  let mut expected: Vec<String> = vec![];
  let mut sequential_differs: Vec<J> = vec![];
  // "alone" is literal: a fresh evaluator on a fresh thread (state kept per thread by the code under test must not
  // travel from one expectation to the next either)
  for c in &calls {
    let text = model_texts[c.model].clone();
    let invocable = c.invocable.clone();
    let input = tagged(&c.input, "alone");
    let h = std::thread::Builder::new().stack_size(8 * 1024 * 1024).spawn(move || {
      let alone = dmntk_model::parse(&text).ok().and_then(|d| ModelEvaluator::new(&d).ok())?;
      Some(vj::from_value(&alone.evaluate_invocable(&invocable, &input)).to_string())
    });
    match h.map(|h| h.join()) {
      Ok(Ok(Some(v))) => expected.push(v),
      Ok(Ok(None)) => return json!({"harness_error": "model does not build a second time"}),
      Ok(Err(_)) => return json!({"panic_in_single_call": c.invocable}),
      Err(_) => return json!({"harness_error": "cannot spawn a thread"}),
    }
  }
  for (k, c) in calls.iter().enumerate() {
    let v = evaluators[c.model].evaluate_invocable(&c.invocable, &tagged(&c.input, "sequential"));
    let got = vj::from_value(&v).to_string();
    if got != expected[k] && sequential_differs.len() < 3 {
      sequential_differs.push(json!({"phase": "sequential", "index": k, "invocable": c.invocable, "expected": expected[k], "observed": got}));
    }
  }
  let non_null = expected.iter().filter(|e| e.as_str() != "null").count();
  let calls = Arc::new(calls);
  let expected = Arc::new(expected);
  let evaluators = Arc::new(evaluators);
  let clock = Arc::new(AtomicU64::new(0));
  // ---- phase 0: cold start. Everything above and below shares evaluators that have already served every call once in
  // sequence; what an evaluator prepares lazily, on the FIRST evaluation of an invocable, is then long done when the
  // threads arrive. Here each round builds a fresh evaluator of one model and the threads make the first evaluations
  // themselves, together: a barrier before every step, every thread calls the same invocable (inputs rotate), so that
  // the first evaluation of each invocable happens on several threads at once. ----
  let cold_rounds = case.get("cold_rounds").and_then(|v| v.as_u64()).unwrap_or(0) as usize;
  let cold_steps = case.get("cold_steps").and_then(|v| v.as_u64()).unwrap_or(16) as usize;
  let mut cold_total = 0u64;
  let mut cold_mismatch_count = 0u64;
  let mut cold_first_evaluations = 0u64;
  let mut cold_mismatches: Vec<J> = vec![];
  let mut cold_panics = 0usize;
  if cold_rounds > 0 {
    st.mode.store(MODE_OFF, Ordering::SeqCst);
    for round in 0..cold_rounds {
      let model = ((mix(seed ^ 0xc01d) % model_texts.len() as u64) as usize + round) % model_texts.len();
      let mut groups: Vec<Vec<usize>> = vec![];
      for (i, c) in calls.iter().enumerate() {
        if c.model != model {
          continue;
        }
        match groups.iter_mut().find(|g| calls[g[0]].invocable == c.invocable) {
          Some(g) => g.push(i),
          None => groups.push(vec![i]),
        }
      }
      if groups.is_empty() {
        continue;
      }
      // seeded order of the invocables (what was evaluated before may matter: a required decision warms its requirer's parts)
      let mut x = mix(seed ^ 0xc01d5eed ^ ((round as u64) << 24));
      for i in (1..groups.len()).rev() {
        x = mix(x);
        groups.swap(i, (x % (i as u64 + 1)) as usize);
      }
      groups.truncate(cold_steps.max(1));
      let fresh = match dmntk_model::parse(&model_texts[model]).ok().and_then(|d| ModelEvaluator::new(&d).ok()) {
        Some(e) => e,
        None => return json!({"harness_error": "model does not build a third time"}),
      };
      cold_first_evaluations += groups.len() as u64;
      let groups = Arc::new(groups);
      let barrier = Arc::new(Barrier::new(n_threads));
      let mut hs = vec![];
      for t in 0..n_threads {
        let (calls, expected, fresh, barrier, groups) = (calls.clone(), expected.clone(), fresh.clone(), barrier.clone(), groups.clone());
        hs.push(
          std::thread::Builder::new()
            .name(format!("c20-cold-{}", t))
            .stack_size(8 * 1024 * 1024)
            .spawn(move || {
              let mut bad: Vec<J> = vec![];
              let mut n_bad = 0u64;
              let mut n = 0u64;
              for (step, g) in groups.iter().enumerate() {
                let idx = g[(t + round + step) % g.len()];
                let c = &calls[idx];
                let input = tagged(&c.input, "cold");
                barrier.wait();
                // the evaluation is fenced so that a panic cannot leave the other threads waiting at the next barrier
                let v = std::panic::catch_unwind(std::panic::AssertUnwindSafe(|| fresh.evaluate_invocable(&c.invocable, &input)));
                n += 1;
                let got = match v {
                  Ok(v) => vj::from_value(&v).to_string(),
                  Err(_) => "<panic>".to_string(),
                };
                if got != expected[idx] {
                  n_bad += 1;
                  if bad.len() < 3 {
                    bad.push(json!({"phase": "cold-start", "round": round, "step": step, "thread": t, "index": idx, "invocable": c.invocable, "expected": expected[idx], "observed": got}));
                  }
                }
              }
              (n, n_bad, bad)
            })
            .expect("spawn"),
        );
      }
      for h in hs {
        match h.join() {
          Ok((n, n_bad, bad)) => {
            cold_total += n;
            cold_mismatch_count += n_bad;
            if cold_mismatches.len() < 5 {
              cold_mismatches.extend(bad);
            }
          }
          Err(_) => cold_panics += 1,
        }
      }
    }
  }
  // ---- phase A: free run with seeded yields ----
  st.seed.store(seed, Ordering::SeqCst);
  st.inside.store(0, Ordering::SeqCst);
  st.max_inside.store(0, Ordering::SeqCst);
  st.mode.store(if hook { MODE_YIELD } else { MODE_OFF }, Ordering::SeqCst);
  let barrier = Arc::new(Barrier::new(n_threads));
  let mut handles = vec![];
  for t in 0..n_threads {
    let (calls, expected, evaluators, clock, barrier) = (calls.clone(), expected.clone(), evaluators.clone(), clock.clone(), barrier.clone());
    handles.push(
      std::thread::Builder::new()
        .name(format!("c20-{}", t))
        .stack_size(8 * 1024 * 1024)
        .spawn(move || {
          let mut events: Vec<(usize, usize, u64, u64, bool)> = vec![];
          let mut mismatches: Vec<J> = vec![];
          let mut x = mix(seed ^ ((t as u64 + 1) << 32));
          barrier.wait();
          for k in 0..per_thread {
            x = mix(x.wrapping_add(k as u64));
            let idx = (x % calls.len() as u64) as usize;
            let c = &calls[idx];
            let tag = format!("T{}C{}", t, k);
            MY_TAG.with(|m| *m.borrow_mut() = tag.clone());
            let input = tagged(&c.input, &tag);
            let b = clock.fetch_add(1, Ordering::SeqCst);
            let v = evaluators[c.model].evaluate_invocable(&c.invocable, &input);
            let e = clock.fetch_add(1, Ordering::SeqCst);
            call_end();
            let got = vj::from_value(&v).to_string();
            let ok = got == expected[idx];
            if !ok && mismatches.len() < 5 {
              mismatches.push(json!({"thread": t, "call": k, "index": idx, "invocable": c.invocable, "expected": expected[idx], "observed": got}));
            }
            events.push((t, idx, b, e, ok));
          }
          MY_TAG.with(|m| m.borrow_mut().clear());
          (events, mismatches)
        })
        .expect("spawn"),
    );
  }
  let mut events = vec![];
  let mut mismatches = vec![];
  let mut thread_panics = 0;
  for h in handles {
    match h.join() {
      Ok((e, m)) => {
        events.extend(e);
        mismatches.extend(m);
      }
      Err(_) => thread_panics += 1,
    }
  }
  let max_inside_free = st.max_inside.load(Ordering::SeqCst);
  // overlap analysis on the logical clock
  events.sort_by_key(|e| e.2);
  let mut overlapping_pairs = 0u64;
  let mut max_overlap = 0usize;
  let mut active: Vec<(usize, u64)> = vec![]; // (thread, end)
  let mut order_sig = 0u64;
  for ev in &events {
    active.retain(|a| a.1 > ev.2);
    overlapping_pairs += active.iter().filter(|a| a.0 != ev.0).count() as u64;
    active.push((ev.0, ev.3));
    max_overlap = max_overlap.max(active.len());
    order_sig = mix(order_sig ^ (ev.0 as u64 + 1).wrapping_mul(0x9e3779b97f4a7c15) ^ (ev.1 as u64) << 20);
  }
  // ---- phase C: hammer: every thread calls ONE invocable with a few alternating inputs, untagged (identical
  // inputs recur, unlike phase A where the call tag makes every input unique), no injected delays ----
  let hammer_rounds = case.get("hammer_rounds").and_then(|v| v.as_u64()).unwrap_or(0) as usize;
  let hammer_calls = case.get("hammer_calls").and_then(|v| v.as_u64()).unwrap_or(200) as usize;
  let hammer_keys = case.get("hammer_keys").and_then(|v| v.as_u64()).unwrap_or(3) as usize;
  let mut hammer_total = 0u64;
  let mut hammer_mismatch_count = 0u64;
  let mut hammer_targets: Vec<String> = vec![];
  if hammer_rounds > 0 {
    st.mode.store(MODE_OFF, Ordering::SeqCst);
    let mut pairs: Vec<(usize, String)> = vec![];
    for c in calls.iter() {
      if !pairs.iter().any(|p| p.0 == c.model && p.1 == c.invocable) {
        pairs.push((c.model, c.invocable.clone()));
      }
    }
    for round in 0..hammer_rounds {
      let pick = (mix(seed ^ 0xabcdef ^ ((round as u64) << 40)) % pairs.len() as u64) as usize;
      let (mut pm, mut pi) = pairs[pick].clone();
      // the first two rounds go to the invocables the case prefers (decision services: the only invocables with an evaluator of their own on top of the decisions')
      if round < 2 {
        if let Some(prefer) = case.get("hammer_prefer").and_then(|v| v.as_array()).filter(|a| !a.is_empty()) {
          let p = &prefer[(mix(seed ^ round as u64 ^ 0x5151) % prefer.len() as u64) as usize];
          pm = p.get(0).and_then(|v| v.as_u64()).unwrap_or(0) as usize;
          pi = p.get(1).and_then(|v| v.as_str()).unwrap_or("").to_string();
        }
      }
      let mut idxs: Vec<usize> = calls.iter().enumerate().filter(|(_, c)| c.model == pm && c.invocable == pi).map(|(i, _)| i).collect();
      // distinct expected results make a swapped result visible
      idxs.dedup_by(|a, b| expected[*a] == expected[*b]);
      let start = (mix(seed ^ round as u64) % idxs.len() as u64) as usize;
      idxs.rotate_left(start);
      idxs.truncate(hammer_keys.max(2));
      if idxs.len() < 2 {
        continue;
      }
      hammer_targets.push(format!("{}:{}", pm, pi));
      let idxs = Arc::new(idxs);
      let barrier = Arc::new(Barrier::new(n_threads));
      let mut hs = vec![];
      for t in 0..n_threads {
        let (calls, expected, evaluators, barrier, idxs) = (calls.clone(), expected.clone(), evaluators.clone(), barrier.clone(), idxs.clone());
        hs.push(
          std::thread::Builder::new()
            .stack_size(8 * 1024 * 1024)
            .spawn(move || {
              let mut bad: Vec<J> = vec![];
              let mut nbad = 0u64;
              let mut x = mix(seed ^ ((t as u64 + 7) << 24) ^ round as u64);
              barrier.wait();
              for k in 0..hammer_calls {
                x = mix(x.wrapping_add(k as u64));
                let idx = idxs[(x % idxs.len() as u64) as usize];
                let c = &calls[idx];
                let v = evaluators[c.model].evaluate_invocable(&c.invocable, &c.input);
                let got = vj::from_value(&v).to_string();
                if got != expected[idx] {
                  nbad += 1;
                  if bad.len() < 3 {
                    bad.push(json!({"phase": "hammer", "thread": t, "call": k, "index": idx, "invocable": c.invocable, "expected": expected[idx], "observed": got}));
                  }
                }
              }
              (bad, nbad)
            })
            .expect("spawn"),
        );
      }
      for h in hs {
        match h.join() {
          Ok((b, n)) => {
            hammer_total += hammer_calls as u64;
            hammer_mismatch_count += n;
            if mismatches.len() < 10 {
              mismatches.extend(b);
            }
          }
          Err(_) => thread_panics += 1,
        }
      }
    }
  }
  // ---- phase B: rendezvous: K evaluations inside the evaluator at the same time ----
  let mut rendezvous_result = json!(null);
  if rendezvous > 1 && hook {
    let mut rounds = vec![];
    for round in 0..3usize {
      st.inside.store(0, Ordering::SeqCst);
      st.max_inside.store(0, Ordering::SeqCst);
      st.want.store(rendezvous, Ordering::SeqCst);
      st.gate_timeouts.store(0, Ordering::SeqCst);
      st.mode.store(MODE_RENDEZVOUS, Ordering::SeqCst);
      let barrier = Arc::new(Barrier::new(rendezvous));
      let mut hs = vec![];
      let started = Instant::now();
      for t in 0..rendezvous {
        let (calls, expected, evaluators, barrier) = (calls.clone(), expected.clone(), evaluators.clone(), barrier.clone());
        hs.push(
          std::thread::Builder::new()
            .stack_size(8 * 1024 * 1024)
            .spawn(move || {
              let idx = (mix(seed ^ (round as u64) << 8 ^ t as u64) % calls.len() as u64) as usize;
              let c = &calls[idx];
              let tag = format!("R{}T{}", round, t);
              MY_TAG.with(|m| *m.borrow_mut() = tag.clone());
              barrier.wait();
              let v = evaluators[c.model].evaluate_invocable(&c.invocable, &tagged(&c.input, &tag));
              call_end();
              MY_TAG.with(|m| m.borrow_mut().clear());
              vj::from_value(&v).to_string() == expected[idx]
            })
            .expect("spawn"),
        );
      }
      let mut oks = 0;
      for h in hs {
        if let Ok(true) = h.join() {
          oks += 1;
        }
      }
      rounds.push(json!({"reached": st.max_inside.load(Ordering::SeqCst), "wanted": rendezvous, "gate_timeouts": st.gate_timeouts.load(Ordering::SeqCst), "results_ok": oks, "ms": started.elapsed().as_millis() as u64}));
    }
    rendezvous_result = json!(rounds);
  }
  st.mode.store(MODE_OFF, Ordering::SeqCst);
  #[cfg(dmntk_verif)]
  let poisoned: Vec<bool> = evaluators.iter().flat_map(|e| e.verif_poisoned().to_vec()).collect();
  #[cfg(not(dmntk_verif))]
  let poisoned: Vec<bool> = vec![];
  let crosstalk = st.crosstalk.lock().map(|g| g.clone()).unwrap_or_default();
  if let Ok(mut g) = st.crosstalk.lock() {
    g.clear();
  }
  json!({
    "hook_installed": hook,
    "calls": events.len(),
    "expected_non_null": non_null,
    "mismatches": mismatches,
    "mismatch_count": events.iter().filter(|e| !e.4).count() as u64 + hammer_mismatch_count + cold_mismatch_count,
    "cold_calls": cold_total,
    "cold_first_evaluations": cold_first_evaluations,
    "cold_mismatches": cold_mismatches,
    "sequential_differs": sequential_differs,
    "hammer_calls": hammer_total,
    "hammer_targets": hammer_targets,
    "thread_panics": thread_panics + cold_panics,
    "overlapping_pairs": overlapping_pairs,
    "max_overlap_logical": max_overlap,
    "max_inside_hook": max_inside_free,
    "order_signature": format!("{:016x}", order_sig),
    "rendezvous": rendezvous_result,
    "poisoned": poisoned.iter().any(|b| *b),
    "crosstalk": crosstalk,
    "hook_events": st.hook_events.load(Ordering::Relaxed),
  })
}
