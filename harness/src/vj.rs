//! FEEL `Value` <-> JSON codec used on both sides of the driver protocol.
//!
//! JSON forms:  null | true/false | {"n":"<sci>"} | {"s":"..."} | [..] | {"c":[[name,v],..]} |
//! {"r":[lo,lc,hi,rc]} | {"d":..} {"t":..} {"dt":..} {"dtd":..} {"ymd":..} | {"fn":arity} |
//! {"bif":"..."} | {"x":"Variant"}; input only: {"feel":"<expression evaluated in an empty scope>"}.

use dmntk_feel::context::FeelContext;
use dmntk_feel::values::{Value, Values};
use dmntk_feel::{FeelDate, FeelDateTime, FeelDaysAndTimeDuration, FeelNumber, FeelTime, FeelYearsAndMonthsDuration, Name, Scope};
use serde_json::{json, Value as J};
use std::convert::TryFrom;
use std::ops::Deref;
use std::str::FromStr;

pub fn name_from_json(j: &J) -> Name {
  match j {
    J::String(s) => Name::from(s.as_str()),
    J::Array(parts) => {
      let v: Vec<&str> = parts.iter().map(|p| p.as_str().unwrap_or("")).collect();
      Name::new(&v)
    }
    _ => Name::from(""),
  }
}

pub fn to_value(j: &J) -> Result<Value, String> {
  match j {
    J::Null => Ok(Value::Null(None)),
    J::Bool(b) => Ok(Value::Boolean(*b)),
    J::Array(items) => {
      let mut out = vec![];
      for item in items {
        out.push(to_value(item)?);
      }
      Ok(Value::List(Values::new(out)))
    }
    J::Object(m) => {
      if let Some(J::String(s)) = m.get("n") {
        return FeelNumber::from_str(s).map(Value::Number).map_err(|e| format!("bad number {}: {}", s, e));
      }
      if let Some(J::String(s)) = m.get("s") {
        return Ok(Value::String(s.clone()));
      }
      if let Some(J::Array(entries)) = m.get("c") {
        return Ok(Value::Context(to_context(entries)?));
      }
      if let Some(J::Array(r)) = m.get("r") {
        if r.len() == 4 {
          return Ok(Value::Range(
            Box::new(to_value(&r[0])?),
            r[1].as_bool().unwrap_or(true),
            Box::new(to_value(&r[2])?),
            r[3].as_bool().unwrap_or(true),
          ));
        }
      }
      if let Some(J::String(s)) = m.get("d") {
        return FeelDate::try_from(s.as_str()).map(Value::Date).map_err(|e| format!("bad date {}: {}", s, e));
      }
      if let Some(J::String(s)) = m.get("t") {
        return FeelTime::from_str(s).map(Value::Time).map_err(|e| format!("bad time {}: {}", s, e));
      }
      if let Some(J::String(s)) = m.get("dt") {
        return FeelDateTime::try_from(s.as_str()).map(Value::DateTime).map_err(|e| format!("bad date-time {}: {}", s, e));
      }
      if let Some(J::String(s)) = m.get("dtd") {
        return FeelDaysAndTimeDuration::try_from(s.as_str())
          .map(Value::DaysAndTimeDuration)
          .map_err(|e| format!("bad dt-duration {}: {}", s, e));
      }
      if let Some(J::String(s)) = m.get("ymd") {
        return FeelYearsAndMonthsDuration::try_from(s.as_str())
          .map(Value::YearsAndMonthsDuration)
          .map_err(|e| format!("bad ym-duration {}: {}", s, e));
      }
      if let Some(J::String(s)) = m.get("feel") {
        let scope = Scope::default();
        let node = dmntk_feel_parser::parse_expression(&scope, s, false).map_err(|e| format!("bad feel {}: {}", s, e))?;
        return dmntk_feel_evaluator::evaluate(&scope, &node).map_err(|e| format!("bad feel {}: {}", s, e));
      }
      Err(format!("unsupported value json: {}", j))
    }
    _ => Err(format!("unsupported value json: {}", j)),
  }
}

pub fn to_context(entries: &[J]) -> Result<FeelContext, String> {
  let mut ctx = FeelContext::default();
  for e in entries {
    if let J::Array(pair) = e {
      if pair.len() == 2 {
        ctx.set_entry(&name_from_json(&pair[0]), to_value(&pair[1])?);
        continue;
      }
    }
    return Err(format!("bad context entry: {}", e));
  }
  Ok(ctx)
}

/// Builds a scope from `[[ [name, value], ... ], ...]` (bottom context first).
pub fn to_scope(j: Option<&J>) -> Result<Scope, String> {
  match j {
    None | Some(J::Null) => Ok(Scope::default()),
    Some(J::Array(ctxs)) => {
      let scope = Scope::new();
      for c in ctxs {
        if let J::Array(entries) = c {
          scope.push(to_context(entries)?);
        } else {
          return Err("bad scope context".to_string());
        }
      }
      Ok(scope)
    }
    Some(other) => Err(format!("bad scope json: {}", other)),
  }
}

pub fn from_context(ctx: &FeelContext) -> J {
  let mut entries = vec![];
  for (name, value) in ctx.deref() {
    entries.push(json!([name.to_string(), from_value(value)]));
  }
  json!({ "c": entries })
}

pub fn variant_name(v: &Value) -> String {
  let d = format!("{:?}", v);
  d.split(|c: char| !c.is_alphanumeric()).next().unwrap_or("").to_string()
}

pub fn from_value(v: &Value) -> J {
  match v {
    Value::Null(_) => J::Null,
    Value::Boolean(b) => J::Bool(*b),
    Value::Number(n) => json!({"n": format!("{:?}", n)}),
    Value::String(s) => json!({ "s": s }),
    Value::List(items) => J::Array(items.as_vec().iter().map(from_value).collect()),
    Value::Context(ctx) => from_context(ctx),
    Value::Range(a, ac, b, bc) => json!({"r": [from_value(a), ac, from_value(b), bc]}),
    Value::Date(d) => json!({"d": d.to_string()}),
    Value::Time(t) => json!({"t": t.to_string()}),
    Value::DateTime(dt) => json!({"dt": dt.to_string()}),
    Value::DaysAndTimeDuration(d) => json!({"dtd": d.to_string()}),
    Value::YearsAndMonthsDuration(d) => json!({"ymd": d.to_string()}),
    Value::FunctionDefinition(params, _, _) => json!({"fn": params.len()}),
    Value::BuiltInFunction(b) => json!({"bif": format!("{:?}", b)}),
    Value::ExpressionList(items) => json!({"xl": items.as_vec().iter().map(from_value).collect::<Vec<J>>()}),
    Value::FeelType(t) => json!({"ty": t.to_string()}),
    other => json!({"x": variant_name(other)}),
  }
}

/// Message carried by a null (diagnostics only).
pub fn null_msg(v: &Value) -> Option<String> {
  if let Value::Null(Some(m)) = v {
    Some(m.clone())
  } else {
    None
  }
}
