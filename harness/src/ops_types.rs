use serde_json::{json, Value as J};
pub fn op_types(_case: &J) -> J {
  json!({"harness_error": "not implemented"})
}
pub fn op_coerce(_case: &J) -> J {
  json!({"harness_error": "not implemented"})
}
