//! C16 — type-lattice walker (DESIGN.md §3 C16).
//!
//! Builds type universes on the REAL `dmntk_feel::FeelType` and observes the real
//! `FeelType::is_equivalent`, `FeelType::is_conformant`, `FeelType::coerced` and `Value::type_of`.
//! Every ordered pair of a universe is observed by real calls into two bit matrices; the laws of
//! the property statement are then decided over those observations (all pairs, and all triples by
//! bit-row inclusion), next to an INDEPENDENT reference of equivalence / conformance
//! (`mod reference`, written from DMN 1.3 §10.3.2.9, never calling the code under test).
//!
//! ops:
//!   {"op":"types","mode":"universe", base?, depth?, outer_entries?, outer_params?, rows?, direct_triples?, seed?}
//!   {"op":"types","mode":"sample", seed, size, direct_triples?}          depth-2 sampled families
//!   {"op":"types","mode":"probe", types:[<type json>...]}                  replay of explicit types
//!   {"op":"coerce","mode":"universe", rows?}                               values x targets, direct `coerced` calls
//!   {"op":"coerce","mode":"feel", rows?, target_stride?, seed?}           the same through `(function(x: T) x)(v)`
//!   {"op":"coerce","mode":"probe", value:<value description>, target:<type json>}   replay
//! value description: {"of":<type json>, "wrap":k | "twice":true | "empty":true} | {"lit":<value json>}; optional "feel": text
//!
//! Violations are returned per CLASS KEY (`law:shape...`, usable as a narrow signature) with a
//! count and the first few counterexamples.

use dmntk_feel::context::FeelContext;
use dmntk_feel::values::{Value, Values};
use dmntk_feel::{FeelType, FunctionBody, Name, Scope};
use serde_json::{json, Map, Value as J};
use std::collections::{BTreeMap, BTreeSet};
use std::sync::Arc;

// =================================================================================================
// Independent reference (DMN 1.3 §10.3.2.9.1 equivalence, §10.3.2.9.2 conformance).
// Only pattern-matches on the data type; calls nothing of the code under test.
// =================================================================================================
mod reference {
  use dmntk_feel::FeelType as T;

  /// Three-valued verdict: `Unspec` marks the one rule DMN has but the property statement does
  /// not spell out (a context type with MORE entries conforms to one with fewer); DMN says yes.
  #[derive(Debug, Clone, Copy, PartialEq, Eq)]
  pub enum V3 {
    Yes,
    No,
    Unspec,
  }

  fn tag(t: &T) -> u8 {
    match t {
      T::Any => 0,
      T::Null => 1,
      T::Boolean => 2,
      T::Number => 3,
      T::String => 4,
      T::Date => 5,
      T::Time => 6,
      T::DateTime => 7,
      T::DaysAndTimeDuration => 8,
      T::YearsAndMonthsDuration => 9,
      T::List(_) => 10,
      T::Range(_) => 11,
      T::Context(_) => 12,
      T::Function(_, _) => 13,
    }
  }

  /// T ≡ S
  pub fn equiv(a: &T, b: &T) -> bool {
    match (a, b) {
      (T::List(x), T::List(y)) => equiv(x, y),
      (T::Range(x), T::Range(y)) => equiv(x, y),
      (T::Context(ma), T::Context(mb)) => {
        if ma.len() != mb.len() {
          return false;
        }
        for (k, ta) in ma.iter() {
          match mb.iter().find(|(kb, _)| kb.to_string() == k.to_string()) {
            Some((_, tb)) => {
              if !equiv(ta, tb) {
                return false;
              }
            }
            None => return false,
          }
        }
        true
      }
      (T::Function(pa, ra), T::Function(pb, rb)) => {
        if pa.len() != pb.len() {
          return false;
        }
        for k in 0..pa.len() {
          if !equiv(&pa[k], &pb[k]) {
            return false;
          }
        }
        equiv(ra, rb)
      }
      _ => tag(a) < 10 && tag(a) == tag(b),
    }
  }

  fn and3(acc: V3, x: V3) -> V3 {
    match (acc, x) {
      (V3::No, _) | (_, V3::No) => V3::No,
      (V3::Unspec, _) | (_, V3::Unspec) => V3::Unspec,
      _ => V3::Yes,
    }
  }

  /// T <: S
  pub fn conf(a: &T, b: &T) -> V3 {
    if equiv(a, b) {
      return V3::Yes;
    }
    if let T::Null = a {
      return V3::Yes;
    }
    if let T::Any = b {
      return V3::Yes;
    }
    match (a, b) {
      (T::List(x), T::List(y)) => conf(x, y),
      (T::Range(x), T::Range(y)) => conf(x, y),
      (T::Context(ma), T::Context(mb)) => {
        let mut acc = V3::Yes;
        for (k, tb) in mb.iter() {
          match ma.iter().find(|(ka, _)| ka.to_string() == k.to_string()) {
            Some((_, ta)) => acc = and3(acc, conf(ta, tb)),
            None => return V3::No,
          }
        }
        if acc == V3::Yes && ma.len() > mb.len() {
          acc = V3::Unspec;
        }
        acc
      }
      (T::Function(pa, ra), T::Function(pb, rb)) => {
        if pa.len() != pb.len() {
          return V3::No;
        }
        let mut acc = V3::Yes;
        for k in 0..pa.len() {
          acc = and3(acc, conf(&pb[k], &pa[k])); // contravariant
        }
        and3(acc, conf(ra, rb)) // covariant
      }
      _ => V3::No,
    }
  }
}

use reference::V3;

// =================================================================================================
// Universe construction on the real FeelType
// =================================================================================================

const SIMPLE_NAMES: [&str; 10] = [
  "Any",
  "Null",
  "boolean",
  "number",
  "string",
  "date",
  "time",
  "date and time",
  "days and time duration",
  "years and months duration",
];

fn simple_by_name(s: &str) -> Option<FeelType> {
  Some(match s {
    "Any" => FeelType::Any,
    "Null" => FeelType::Null,
    "boolean" => FeelType::Boolean,
    "number" => FeelType::Number,
    "string" => FeelType::String,
    "date" => FeelType::Date,
    "time" => FeelType::Time,
    "date and time" => FeelType::DateTime,
    "days and time duration" => FeelType::DaysAndTimeDuration,
    "years and months duration" => FeelType::YearsAndMonthsDuration,
    _ => return None,
  })
}

fn simple_name(t: &FeelType) -> Option<&'static str> {
  Some(match t {
    FeelType::Any => "Any",
    FeelType::Null => "Null",
    FeelType::Boolean => "boolean",
    FeelType::Number => "number",
    FeelType::String => "string",
    FeelType::Date => "date",
    FeelType::Time => "time",
    FeelType::DateTime => "date and time",
    FeelType::DaysAndTimeDuration => "days and time duration",
    FeelType::YearsAndMonthsDuration => "years and months duration",
    _ => return None,
  })
}

fn name_a() -> Name {
  Name::from("a")
}
fn name_b() -> Name {
  Name::from("b")
}

/// context types built from pairwise different names that ended up with fewer entries (the ordering of names disagrees with
/// their equality); read and reset by the probe mode
pub static LOST_CONTEXT_ENTRIES: std::sync::atomic::AtomicU64 = std::sync::atomic::AtomicU64::new(0);

fn ctx_type(entries: Vec<(Name, FeelType)>) -> FeelType {
  let mut m = BTreeMap::new();
  let texts: BTreeSet<String> = entries.iter().map(|(k, _)| k.to_string()).collect();
  for (k, v) in entries {
    m.insert(k, v);
  }
  if m.len() != texts.len() {
    LOST_CONTEXT_ENTRIES.fetch_add((texts.len() - m.len()) as u64, std::sync::atomic::Ordering::SeqCst);
  }
  FeelType::Context(m)
}

/// All types built by ONE constructor application over `comps`
/// (list, range, context with 0..max_entries entries over {a, b}, function with 0..max_params parameters).
fn constructed(comps: &[FeelType], max_entries: usize, max_params: usize) -> Vec<FeelType> {
  let mut out = vec![];
  for c in comps {
    out.push(FeelType::List(Box::new(c.clone())));
  }
  for c in comps {
    out.push(FeelType::Range(Box::new(c.clone())));
  }
  out.push(ctx_type(vec![]));
  if max_entries >= 1 {
    for c in comps {
      out.push(ctx_type(vec![(name_a(), c.clone())]));
    }
    for c in comps {
      out.push(ctx_type(vec![(name_b(), c.clone())]));
    }
  }
  if max_entries >= 2 {
    for c1 in comps {
      for c2 in comps {
        out.push(ctx_type(vec![(name_a(), c1.clone()), (name_b(), c2.clone())]));
      }
    }
  }
  for r in comps {
    out.push(FeelType::Function(vec![], Box::new(r.clone())));
  }
  if max_params >= 1 {
    for p in comps {
      for r in comps {
        out.push(FeelType::Function(vec![p.clone()], Box::new(r.clone())));
      }
    }
  }
  if max_params >= 2 {
    for p1 in comps {
      for p2 in comps {
        for r in comps {
          out.push(FeelType::Function(vec![p1.clone(), p2.clone()], Box::new(r.clone())));
        }
      }
    }
  }
  out
}

fn base_types(case: &J) -> Result<Vec<FeelType>, String> {
  match case.get("base").and_then(|v| v.as_array()) {
    None => Ok(SIMPLE_NAMES.iter().map(|s| simple_by_name(s).unwrap()).collect()),
    Some(names) => {
      let mut out = vec![];
      for n in names {
        let s = n.as_str().unwrap_or("");
        out.push(simple_by_name(s).ok_or_else(|| format!("unknown simple type '{}'", s))?);
      }
      Ok(out)
    }
  }
}

/// depth 1: base ∪ constructed(base) (always 0..2 entries, 0..2 parameters);
/// depth 2: base ∪ constructed(depth-1 universe) with the outer limits given.
fn build_universe(case: &J) -> Result<Vec<FeelType>, String> {
  let base = base_types(case)?;
  let depth = case.get("depth").and_then(|v| v.as_u64()).unwrap_or(1);
  let oe = case.get("outer_entries").and_then(|v| v.as_u64()).unwrap_or(2) as usize;
  let op = case.get("outer_params").and_then(|v| v.as_u64()).unwrap_or(2) as usize;
  let mut d1 = base.clone();
  d1.extend(constructed(&base, 2, 2));
  if depth <= 1 {
    return Ok(d1);
  }
  let mut d2 = base;
  d2.extend(constructed(&d1, oe, op));
  Ok(d2)
}

// ---------------------------------------------------------------------------------------------
// type <-> JSON (replay / counterexamples)
// ---------------------------------------------------------------------------------------------

fn type_to_json(t: &FeelType) -> J {
  match t {
    FeelType::List(x) => json!({ "list": type_to_json(x) }),
    FeelType::Range(x) => json!({ "range": type_to_json(x) }),
    FeelType::Context(m) => {
      let entries: Vec<J> = m.iter().map(|(k, v)| json!([k.to_string(), type_to_json(v)])).collect();
      json!({ "context": entries })
    }
    FeelType::Function(ps, r) => {
      let params: Vec<J> = ps.iter().map(type_to_json).collect();
      json!({"function": [params, type_to_json(r)]})
    }
    other => json!(simple_name(other).unwrap_or("?")),
  }
}

fn type_from_json(j: &J) -> Result<FeelType, String> {
  match j {
    J::String(s) => simple_by_name(s).ok_or_else(|| format!("unknown simple type '{}'", s)),
    J::Object(m) => {
      if let Some(x) = m.get("list") {
        return Ok(FeelType::List(Box::new(type_from_json(x)?)));
      }
      if let Some(x) = m.get("range") {
        return Ok(FeelType::Range(Box::new(type_from_json(x)?)));
      }
      if let Some(J::Array(entries)) = m.get("context") {
        let mut out = vec![];
        for e in entries {
          let k = e.get(0).and_then(|v| v.as_str()).ok_or("bad context entry")?;
          out.push((Name::from(k), type_from_json(e.get(1).ok_or("bad context entry")?)?));
        }
        return Ok(ctx_type(out));
      }
      if let Some(J::Array(f)) = m.get("function") {
        if f.len() == 2 {
          let mut ps = vec![];
          for p in f[0].as_array().ok_or("bad function params")? {
            ps.push(type_from_json(p)?);
          }
          return Ok(FeelType::Function(ps, Box::new(type_from_json(&f[1])?)));
        }
      }
      Err(format!("bad type json {}", j))
    }
    _ => Err(format!("bad type json {}", j)),
  }
}

/// Shape class of a type: simple types by name, constructors by constructor and arity.
fn shape(t: &FeelType) -> String {
  match t {
    FeelType::List(_) => "list".to_string(),
    FeelType::Range(_) => "range".to_string(),
    FeelType::Context(m) => format!("context-{}-entries", m.len()),
    FeelType::Function(ps, _) => format!("function-{}-params", ps.len()),
    other => simple_name(other).unwrap_or("?").replace(' ', "-"),
  }
}

fn depth_of(t: &FeelType) -> usize {
  match t {
    FeelType::List(x) | FeelType::Range(x) => 1 + depth_of(x),
    FeelType::Context(m) => 1 + m.values().map(depth_of).max().unwrap_or(0),
    FeelType::Function(ps, r) => 1 + ps.iter().map(depth_of).max().unwrap_or(0).max(depth_of(r)),
    _ => 0,
  }
}

// =================================================================================================
// Deterministic RNG (splitmix64)
// =================================================================================================
struct Rng(u64);
impl Rng {
  fn new(seed: u64) -> Self {
    Rng(seed.wrapping_mul(0x9E3779B97F4A7C15).wrapping_add(0x1234_5678_9ABC_DEF1))
  }
  fn next(&mut self) -> u64 {
    self.0 = self.0.wrapping_add(0x9E3779B97F4A7C15);
    let mut z = self.0;
    z = (z ^ (z >> 30)).wrapping_mul(0xBF58476D1CE4E5B9);
    z = (z ^ (z >> 27)).wrapping_mul(0x94D049BB133111EB);
    z ^ (z >> 31)
  }
  fn below(&mut self, n: usize) -> usize {
    if n == 0 {
      0
    } else {
      (self.next() % (n as u64)) as usize
    }
  }
  fn chance(&mut self, percent: u64) -> bool {
    self.next() % 100 < percent
  }
}

// =================================================================================================
// Observation matrices and the law accumulator
// =================================================================================================
struct Matrix {
  w: usize,
  bits: Vec<u64>,
}
impl Matrix {
  fn new(n: usize) -> Self {
    let w = (n + 63) / 64;
    Matrix { w, bits: vec![0u64; w * n] }
  }
  fn set(&mut self, i: usize, j: usize) {
    self.bits[i * self.w + j / 64] |= 1u64 << (j % 64);
  }
  fn get(&self, i: usize, j: usize) -> bool {
    self.bits[i * self.w + j / 64] >> (j % 64) & 1 == 1
  }
  fn row(&self, i: usize) -> &[u64] {
    &self.bits[i * self.w..(i + 1) * self.w]
  }
}

const MAX_EXAMPLES: usize = 3;

#[derive(Default)]
struct Acc {
  /// law name -> number of (non-vacuous) instances checked
  laws: BTreeMap<&'static str, u64>,
  /// class key -> (count, first examples)
  viol: BTreeMap<String, (u64, Vec<J>)>,
  /// class key -> (count, first examples): oracle cannot decide from the property statement
  undecided: BTreeMap<String, (u64, Vec<J>)>,
  calls: u64,
}
impl Acc {
  fn law(&mut self, law: &'static str) {
    *self.laws.entry(law).or_insert(0) += 1;
  }
  fn law_n(&mut self, law: &'static str, n: u64) {
    *self.laws.entry(law).or_insert(0) += n;
  }
  fn violation(&mut self, key: String, types: &[&FeelType], what: String) {
    let e = self.viol.entry(key).or_insert((0, vec![]));
    e.0 += 1;
    let plain = |s: &str| !s.contains("Null") && !s.contains("Any");
    let texts: Vec<String> = types.iter().map(|t| t.to_string()).collect();
    // keep the first few examples; the first slot prefers one without Null / Any (easier to read)
    let upgrade = e.1.len() == MAX_EXAMPLES && texts.iter().all(|s| plain(s)) && !e.1[0]["text"].as_array().map(|a| a.iter().all(|s| plain(s.as_str().unwrap_or("")))).unwrap_or(true);
    if e.1.len() < MAX_EXAMPLES || upgrade {
      let ex = json!({
        "types": types.iter().map(|t| type_to_json(t)).collect::<Vec<J>>(),
        "text": texts,
        "what": what,
      });
      if upgrade {
        e.1[0] = ex;
      } else {
        e.1.push(ex);
      }
    }
  }
  fn undecided(&mut self, key: String, types: &[&FeelType], what: String) {
    let e = self.undecided.entry(key).or_insert((0, vec![]));
    e.0 += 1;
    if e.1.len() < MAX_EXAMPLES {
      e.1.push(json!({
        "types": types.iter().map(|t| type_to_json(t)).collect::<Vec<J>>(),
        "text": types.iter().map(|t| t.to_string()).collect::<Vec<String>>(),
        "what": what,
      }));
    }
  }
  fn to_json(&self, out: &mut Map<String, J>) {
    let laws: Map<String, J> = self.laws.iter().map(|(k, v)| (k.to_string(), json!(v))).collect();
    out.insert("laws".to_string(), J::Object(laws));
    let viol: Map<String, J> = self.viol.iter().map(|(k, (n, ex))| (k.clone(), json!({"n": n, "ex": ex}))).collect();
    out.insert("viol".to_string(), J::Object(viol));
    let und: Map<String, J> = self.undecided.iter().map(|(k, (n, ex))| (k.clone(), json!({"n": n, "ex": ex}))).collect();
    out.insert("undecided".to_string(), J::Object(und));
    out.insert("calls".to_string(), json!(self.calls));
  }
}

// ---------------------------------------------------------------------------------------------
// Blame localisation for reference disagreements: descend while a component pair disagrees too,
// so that one defect keeps one class key whatever it is nested in.
// ---------------------------------------------------------------------------------------------

fn blame_equiv<'a>(a: &'a FeelType, b: &'a FeelType) -> (&'a FeelType, &'a FeelType) {
  let mut pairs: Vec<(&FeelType, &FeelType)> = vec![];
  match (a, b) {
    (FeelType::List(x), FeelType::List(y)) | (FeelType::Range(x), FeelType::Range(y)) => pairs.push((x, y)),
    (FeelType::Context(ma), FeelType::Context(mb)) => {
      for (k, ta) in ma {
        if let Some(tb) = mb.get(k) {
          pairs.push((ta, tb));
        }
      }
    }
    (FeelType::Function(pa, ra), FeelType::Function(pb, rb)) => {
      if pa.len() == pb.len() {
        for k in 0..pa.len() {
          pairs.push((&pa[k], &pb[k]));
        }
      }
      pairs.push((ra, rb));
    }
    _ => {}
  }
  for (x, y) in pairs {
    if x.is_equivalent(y) != reference::equiv(x, y) {
      return blame_equiv(x, y);
    }
  }
  (a, b)
}

enum Blame<'a> {
  /// code and reference (Yes/No) disagree on this pair and on none of its component pairs
  Strict(&'a FeelType, &'a FeelType),
  /// the code rejects a pair whose only obstacle is extra context entries on the left
  Width(&'a FeelType, &'a FeelType),
  /// nothing to blame (agreement)
  None,
}

fn blame_conf<'a>(a: &'a FeelType, b: &'a FeelType) -> Blame<'a> {
  let code = a.is_conformant(b);
  let r = reference::conf(a, b);
  let disagree_strict = (r == V3::Yes && !code) || (r == V3::No && code);
  let disagree_width = r == V3::Unspec && !code;
  if !disagree_strict && !disagree_width {
    return Blame::None;
  }
  let mut pairs: Vec<(&FeelType, &FeelType)> = vec![];
  match (a, b) {
    (FeelType::List(x), FeelType::List(y)) | (FeelType::Range(x), FeelType::Range(y)) => pairs.push((x, y)),
    (FeelType::Context(ma), FeelType::Context(mb)) => {
      for (k, tb) in mb {
        if let Some(ta) = ma.get(k) {
          pairs.push((ta, tb));
        }
      }
    }
    (FeelType::Function(pa, ra), FeelType::Function(pb, rb)) => {
      if pa.len() == pb.len() {
        for k in 0..pa.len() {
          pairs.push((&pb[k], &pa[k]));
        }
      }
      pairs.push((ra, rb));
    }
    _ => {}
  }
  let mut width: Option<Blame> = None;
  for (x, y) in pairs {
    match blame_conf(x, y) {
      Blame::Strict(p, q) => return Blame::Strict(p, q),
      Blame::Width(p, q) => {
        if width.is_none() {
          width = Some(Blame::Width(p, q));
        }
      }
      Blame::None => {}
    }
  }
  if let Some(w) = width {
    return w;
  }
  if disagree_strict {
    Blame::Strict(a, b)
  } else {
    Blame::Width(a, b)
  }
}

// =================================================================================================
// The walker
// =================================================================================================

struct Walk {
  n: usize,
  duplicate_calls: u64,
  rows: (usize, usize),
  pairs: u64,
  triples_matrix_covered: u128,
  triples_matrix_nonvacuous: u64,
  triples_direct: u64,
  conf_true: u64,
  equiv_true: u64,
  shape_pairs: BTreeSet<String>,
  shape_triples_nonvacuous: BTreeSet<String>,
}

fn first_bit_not_in(sub: &[u64], sup: &[u64]) -> Option<usize> {
  for (w, (a, b)) in sub.iter().zip(sup.iter()).enumerate() {
    let d = a & !b;
    if d != 0 {
      return Some(w * 64 + d.trailing_zeros() as usize);
    }
  }
  None
}

fn walk(u: &[FeelType], rows: (usize, usize), direct_triples: usize, seed: u64, acc: &mut Acc) -> Walk {
  let n = u.len();
  let (lo, hi) = (rows.0.min(n), rows.1.min(n));
  // ---- observe every ordered pair by real calls ----
  let mut c = Matrix::new(n);
  let mut e = Matrix::new(n);
  for i in 0..n {
    for j in 0..n {
      if u[i].is_conformant(&u[j]) {
        c.set(i, j);
      }
      if u[i].is_equivalent(&u[j]) {
        e.set(i, j);
      }
    }
  }
  // calls attributed to this shard: the rows it owns (the rest of the matrix is recomputed by every shard
  // only to decide the triples; those duplicate observations are reported separately)
  acc.calls += 2 * ((hi - lo) as u64) * (n as u64);
  let duplicate_calls = 2 * ((n - (hi - lo)) as u64) * (n as u64);
  let any = FeelType::Any;
  let null = FeelType::Null;
  let shapes: Vec<String> = u.iter().map(shape).collect();
  let texts: Vec<String> = u.iter().map(|t| t.to_string()).collect();
  let mut w = Walk {
    n,
    duplicate_calls,
    rows: (lo, hi),
    pairs: 0,
    triples_matrix_covered: 0,
    triples_matrix_nonvacuous: 0,
    triples_direct: 0,
    conf_true: 0,
    equiv_true: 0,
    shape_pairs: BTreeSet::new(),
    shape_triples_nonvacuous: BTreeSet::new(),
  };
  for i in lo..hi {
    let t = &u[i];
    // ---- unary laws ----
    acc.law("conf-reflexive");
    if !t.is_conformant(t) {
      acc.violation(format!("conf-not-reflexive:{}", shapes[i]), &[t], "T does not conform to itself".into());
    }
    acc.law("equiv-reflexive");
    if !t.is_equivalent(t) {
      acc.violation(format!("equiv-not-reflexive:{}", shapes[i]), &[t], "T is not equivalent to itself".into());
    }
    acc.law("conforms-to-Any");
    if !t.is_conformant(&any) {
      acc.violation(format!("not-conformant-to-Any:{}", shapes[i]), &[t, &any], "T does not conform to Any".into());
    }
    acc.law("Null-conforms");
    if !null.is_conformant(t) {
      acc.violation(format!("Null-not-conformant:{}", shapes[i]), &[&null, t], "Null does not conform to T".into());
    }
    acc.calls += 4;
    // ---- binary laws ----
    for j in 0..n {
      let s = &u[j];
      w.pairs += 1;
      let cij = c.get(i, j);
      let eij = e.get(i, j);
      if cij {
        w.conf_true += 1;
      }
      if eij {
        w.equiv_true += 1;
      }
      if w.shape_pairs.len() < 4096 {
        let key = format!("{}~{}", shapes[i], shapes[j]);
        if !w.shape_pairs.contains(&key) {
          w.shape_pairs.insert(key);
        }
      }
      // symmetry of equivalence
      acc.law("equiv-symmetric");
      if eij != e.get(j, i) {
        acc.violation(
          format!("equiv-asymmetry:lhs={},rhs={}", shapes[i], shapes[j]),
          &[t, s],
          format!("is_equivalent(T,S)={} but is_equivalent(S,T)={}", eij, e.get(j, i)),
        );
      }
      // equivalent => mutually conformant
      if eij {
        acc.law("equiv-implies-mutual-conformance");
        if !cij || !c.get(j, i) {
          acc.violation(
            format!("equiv-without-mutual-conformance:lhs={},rhs={}", shapes[i], shapes[j]),
            &[t, s],
            format!("equivalent but is_conformant(T,S)={} is_conformant(S,T)={}", cij, c.get(j, i)),
          );
        }
      }
      // reference: equivalence
      acc.law("reference-equivalence");
      let re = reference::equiv(t, s);
      if re != eij {
        let (x, y) = blame_equiv(t, s);
        let dir = if x.is_equivalent(y) { "accepts" } else { "rejects" };
        acc.violation(
          format!("ref-equiv-mismatch:{}:lhs={},rhs={}", dir, shape(x), shape(y)),
          &[x, y],
          format!("is_equivalent={} but DMN 10.3.2.9.1 says {} (seen inside {} vs {})", x.is_equivalent(y), reference::equiv(x, y), texts[i], texts[j]),
        );
      }
      // reference: conformance
      acc.law("reference-conformance");
      match blame_conf(t, s) {
        Blame::None => {}
        Blame::Strict(x, y) => {
          let code = x.is_conformant(y);
          let dir = if code { "accepts" } else { "rejects" };
          acc.violation(
            format!("ref-conf-mismatch:{}:lhs={},rhs={}", dir, shape(x), shape(y)),
            &[x, y],
            format!("is_conformant={} but DMN 10.3.2.9.2 says {:?} (seen inside {} vs {})", code, reference::conf(x, y), texts[i], texts[j]),
          );
        }
        Blame::Width(x, y) => {
          acc.undecided(
            format!("context-width:lhs={},rhs={}", shape(x), shape(y)),
            &[x, y],
            "the code rejects a context type with extra entries; DMN accepts it, the property statement is silent".into(),
          );
        }
      }
      // structural laws between two types of the same constructor
      match (t, s) {
        (FeelType::List(a), FeelType::List(b)) => {
          if a.is_conformant(b) {
            acc.law("covariance-list");
            if !cij {
              acc.violation("covariance:list".to_string(), &[t, s], "element types conform but the list types do not".into());
            }
          }
          acc.calls += 1;
        }
        (FeelType::Range(a), FeelType::Range(b)) => {
          if a.is_conformant(b) {
            acc.law("covariance-range");
            if !cij {
              acc.violation("covariance:range".to_string(), &[t, s], "element types conform but the range types do not".into());
            }
          }
          acc.calls += 1;
        }
        (FeelType::Context(ma), FeelType::Context(mb)) => {
          if ma.len() == mb.len() && ma.keys().all(|k| mb.contains_key(k)) {
            let mut all = true;
            for (k, ta) in ma {
              acc.calls += 1;
              if !ta.is_conformant(&mb[k]) {
                all = false;
                break;
              }
            }
            if all {
              acc.law("covariance-context");
              if !cij {
                acc.violation(
                  format!("covariance:context-{}-entries", ma.len()),
                  &[t, s],
                  "same entry names, every entry type conforms, but the context types do not".into(),
                );
              }
            }
          }
        }
        (FeelType::Function(pa, ra), FeelType::Function(pb, rb)) => {
          // "function types with different result types are not equivalent whatever their number of parameters"
          acc.calls += 1;
          if !ra.is_equivalent(rb) {
            acc.law("equiv-differs-in-result");
            if eij {
              let cls = if pa.len() == pb.len() {
                format!("function-{}-params", pa.len())
              } else {
                format!("function-{}-vs-{}-params", pa.len(), pb.len())
              };
              acc.violation(
                format!("equiv-differs-in-result:{}", cls),
                &[t, s],
                "function types whose result types are not equivalent are reported equivalent".into(),
              );
            }
          }
          if pa.len() == pb.len() {
            let same_params = (0..pa.len()).all(|k| texts_equal(&pa[k], &pb[k]));
            let same_result = texts_equal(ra, rb);
            if same_params && !same_result {
              acc.calls += 1;
              if ra.is_conformant(rb) {
                acc.law("covariance-function-result");
                if !cij {
                  acc.violation(
                    format!("covariance:function-result-{}-params", pa.len()),
                    &[t, s],
                    "same parameters, result types conform, but the function types do not".into(),
                  );
                }
              }
            }
            if same_result && !same_params {
              let mut contra = true;
              for k in 0..pa.len() {
                acc.calls += 1;
                if !pb[k].is_conformant(&pa[k]) {
                  contra = false;
                  break;
                }
              }
              if contra {
                acc.law("contravariance-function-parameters");
                if !cij {
                  acc.violation(
                    format!("contravariance:function-parameters-{}-params", pa.len()),
                    &[t, s],
                    "same result, every parameter type of S conforms to that of T, but T does not conform to S".into(),
                  );
                }
              }
            }
          }
        }
        _ => {}
      }
    }
    // ---- ternary laws over the observed matrices: all (j, k) for this i ----
    w.triples_matrix_covered += (n as u128) * (n as u128);
    let row_ci = c.row(i);
    let row_ei = e.row(i);
    for j in 0..n {
      if c.get(i, j) {
        let row_cj = c.row(j);
        let nv: u64 = row_cj.iter().map(|x| x.count_ones() as u64).sum();
        w.triples_matrix_nonvacuous += nv;
        acc.law_n("conf-transitive", nv);
        if i != j && !matches!(t, FeelType::Null) && w.shape_triples_nonvacuous.len() < 2048 {
          let key = format!("{}~{}", shapes[i], shapes[j]);
          if !w.shape_triples_nonvacuous.contains(&key) {
            w.shape_triples_nonvacuous.insert(key);
          }
        }
        if let Some(k) = first_bit_not_in(row_cj, row_ci) {
          if k < n {
            acc.violation(
              format!("conf-not-transitive:a={},b={},c={}", shapes[i], shapes[j], shapes[k]),
              &[t, &u[j], &u[k]],
              "A conforms to B, B conforms to C, but A does not conform to C".into(),
            );
          }
        }
      }
      if e.get(i, j) {
        let row_ej = e.row(j);
        let nv: u64 = row_ej.iter().map(|x| x.count_ones() as u64).sum();
        acc.law_n("equiv-transitive", nv);
        if let Some(k) = first_bit_not_in(row_ej, row_ei) {
          if k < n {
            acc.violation(
              format!("equiv-not-transitive:a={},b={},c={}", shapes[i], shapes[j], shapes[k]),
              &[t, &u[j], &u[k]],
              "A equivalent to B, B equivalent to C, but A is not equivalent to C".into(),
            );
          }
        }
      }
    }
  }
  // ---- sampled triples by DIRECT calls (half of them steered along observed edges) ----
  let mut rng = Rng::new(seed ^ ((lo as u64) << 32) ^ 0xC16);
  for _ in 0..direct_triples {
    if n == 0 {
      break;
    }
    let a = if hi > lo { lo + rng.below(hi - lo) } else { rng.below(n) };
    let steer = rng.chance(60);
    let b = if steer { pick_in_row(&c, a, n, &mut rng) } else { rng.below(n) };
    let cc = if steer { pick_in_row(&c, b, n, &mut rng) } else { rng.below(n) };
    let ab = u[a].is_conformant(&u[b]);
    let bc = u[b].is_conformant(&u[cc]);
    let ac = u[a].is_conformant(&u[cc]);
    let eab = u[a].is_equivalent(&u[b]);
    let ebc = u[b].is_equivalent(&u[cc]);
    let eac = u[a].is_equivalent(&u[cc]);
    acc.calls += 6;
    w.triples_direct += 1;
    acc.law("repeatable");
    if ab != c.get(a, b) || bc != c.get(b, cc) || ac != c.get(a, cc) || eab != e.get(a, b) || ebc != e.get(b, cc) || eac != e.get(a, cc) {
      acc.violation(
        format!("not-repeatable:a={},b={},c={}", shapes[a], shapes[b], shapes[cc]),
        &[&u[a], &u[b], &u[cc]],
        "the same question got two different answers in one process".into(),
      );
    }
    if ab && bc {
      acc.law("conf-transitive-direct");
      if !ac {
        acc.violation(
          format!("conf-not-transitive:a={},b={},c={}", shapes[a], shapes[b], shapes[cc]),
          &[&u[a], &u[b], &u[cc]],
          "A conforms to B, B conforms to C, but A does not conform to C".into(),
        );
      }
    }
    if eab && ebc {
      acc.law("equiv-transitive-direct");
      if !eac {
        acc.violation(
          format!("equiv-not-transitive:a={},b={},c={}", shapes[a], shapes[b], shapes[cc]),
          &[&u[a], &u[b], &u[cc]],
          "A equivalent to B, B equivalent to C, but A is not equivalent to C".into(),
        );
      }
    }
  }
  w
}

fn texts_equal(a: &FeelType, b: &FeelType) -> bool {
  a.to_string() == b.to_string()
}

fn pick_in_row(m: &Matrix, i: usize, n: usize, rng: &mut Rng) -> usize {
  // random start, first set bit after it (wrapping); falls back to a random index
  let start = rng.below(n);
  for d in 0..n {
    let j = (start + d) % n;
    if m.get(i, j) {
      // skip the trivial top/bottom/self edges half of the time so that structural edges are reached
      if j == i && rng.chance(80) {
        continue;
      }
      return j;
    }
  }
  start
}

fn walk_to_json(w: &Walk, acc: &Acc) -> J {
  let mut out = Map::new();
  out.insert("n_types".to_string(), json!(w.n));
  out.insert("duplicate_calls".to_string(), json!(w.duplicate_calls));
  out.insert("rows".to_string(), json!([w.rows.0, w.rows.1]));
  out.insert("pairs".to_string(), json!(w.pairs));
  out.insert("triples_matrix_covered".to_string(), json!(w.triples_matrix_covered.to_string()));
  out.insert("triples_matrix_nonvacuous".to_string(), json!(w.triples_matrix_nonvacuous));
  out.insert("triples_direct".to_string(), json!(w.triples_direct));
  out.insert("conf_true".to_string(), json!(w.conf_true));
  out.insert("equiv_true".to_string(), json!(w.equiv_true));
  out.insert("shape_pairs".to_string(), json!(w.shape_pairs.iter().collect::<Vec<_>>()));
  out.insert("shape_edges_nonvacuous".to_string(), json!(w.shape_triples_nonvacuous.iter().collect::<Vec<_>>()));
  acc.to_json(&mut out);
  J::Object(out)
}

// =================================================================================================
// depth-2 sampled families
// =================================================================================================

fn rand_simple(rng: &mut Rng, pool: &[FeelType]) -> FeelType {
  pool[rng.below(pool.len())].clone()
}

fn rand_constructed(rng: &mut Rng, comp: &mut dyn FnMut(&mut Rng) -> FeelType) -> FeelType {
  match rng.below(10) {
    0 | 1 => FeelType::List(Box::new(comp(rng))),
    2 => FeelType::Range(Box::new(comp(rng))),
    3 | 4 | 5 => match rng.below(4) {
      0 => ctx_type(vec![]),
      1 => ctx_type(vec![(name_a(), comp(rng))]),
      2 => ctx_type(vec![(name_b(), comp(rng))]),
      _ => ctx_type(vec![(name_a(), comp(rng)), (name_b(), comp(rng))]),
    },
    _ => match rng.below(3) {
      0 => FeelType::Function(vec![], Box::new(comp(rng))),
      1 => FeelType::Function(vec![comp(rng)], Box::new(comp(rng))),
      _ => FeelType::Function(vec![comp(rng), comp(rng)], Box::new(comp(rng))),
    },
  }
}

fn rand_depth1(rng: &mut Rng, pool: &[FeelType]) -> FeelType {
  let mut leaf = |r: &mut Rng| rand_simple(r, pool);
  rand_constructed(rng, &mut leaf)
}

fn rand_depth2(rng: &mut Rng, pool: &[FeelType]) -> FeelType {
  let mut comp = |r: &mut Rng| if r.chance(35) { rand_simple(r, pool) } else { rand_depth1(r, pool) };
  rand_constructed(rng, &mut comp)
}

fn count_nodes(t: &FeelType) -> usize {
  match t {
    FeelType::List(x) | FeelType::Range(x) => 1 + count_nodes(x),
    FeelType::Context(m) => 1 + m.values().map(count_nodes).sum::<usize>(),
    FeelType::Function(ps, r) => 1 + ps.iter().map(count_nodes).sum::<usize>() + count_nodes(r),
    _ => 1,
  }
}

/// Replaces / tweaks the node with preorder index `target`; never increases the depth.
fn mutate_at(t: &FeelType, counter: &mut usize, target: usize, rng: &mut Rng, pool: &[FeelType]) -> FeelType {
  let here = *counter;
  *counter += 1;
  if here == target {
    return match rng.below(10) {
      0 | 1 => FeelType::Null,
      2 | 3 => FeelType::Any,
      4 | 5 => rand_simple(rng, pool),
      _ => tweak(t, rng, pool),
    };
  }
  match t {
    FeelType::List(x) => FeelType::List(Box::new(mutate_at(x, counter, target, rng, pool))),
    FeelType::Range(x) => FeelType::Range(Box::new(mutate_at(x, counter, target, rng, pool))),
    FeelType::Context(m) => {
      let mut out = BTreeMap::new();
      for (k, v) in m {
        out.insert(k.clone(), mutate_at(v, counter, target, rng, pool));
      }
      FeelType::Context(out)
    }
    FeelType::Function(ps, r) => {
      let nps: Vec<FeelType> = ps.iter().map(|p| mutate_at(p, counter, target, rng, pool)).collect();
      let nr = mutate_at(r, counter, target, rng, pool);
      FeelType::Function(nps, Box::new(nr))
    }
    other => other.clone(),
  }
}

fn tweak(t: &FeelType, rng: &mut Rng, pool: &[FeelType]) -> FeelType {
  match t {
    FeelType::List(x) => {
      if rng.chance(50) {
        FeelType::Range(x.clone())
      } else {
        (**x).clone()
      }
    }
    FeelType::Range(x) => {
      if rng.chance(50) {
        FeelType::List(x.clone())
      } else {
        (**x).clone()
      }
    }
    FeelType::Context(m) => {
      let mut out = m.clone();
      let keys: Vec<Name> = m.keys().cloned().collect();
      if !keys.is_empty() && rng.chance(50) {
        out.remove(&keys[rng.below(keys.len())]);
      } else {
        for k in [name_a(), name_b()] {
          if !out.contains_key(&k) {
            out.insert(k, rand_simple(rng, pool));
            break;
          }
        }
      }
      FeelType::Context(out)
    }
    FeelType::Function(ps, r) => {
      let mut nps = ps.clone();
      if !nps.is_empty() && rng.chance(50) {
        nps.pop();
      } else if nps.len() < 2 {
        nps.push(rand_simple(rng, pool));
      } else {
        nps.swap(0, 1);
      }
      FeelType::Function(nps, r.clone())
    }
    _ => rand_simple(rng, pool),
  }
}

fn mutate(t: &FeelType, rng: &mut Rng, pool: &[FeelType]) -> FeelType {
  let n = count_nodes(t);
  let target = rng.below(n);
  let mut counter = 0;
  mutate_at(t, &mut counter, target, rng, pool)
}

fn gen_sample(seed: u64, size: usize) -> Vec<FeelType> {
  let mut rng = Rng::new(seed);
  let simple: Vec<FeelType> = SIMPLE_NAMES.iter().map(|s| simple_by_name(s).unwrap()).collect();
  let mut seen: BTreeSet<String> = BTreeSet::new();
  let mut out: Vec<FeelType> = vec![];
  let mut push = |t: FeelType, out: &mut Vec<FeelType>| {
    if depth_of(&t) <= 2 {
      let key = t.to_string();
      if !seen.contains(&key) {
        seen.insert(key);
        out.push(t);
      }
    }
  };
  for s in &simple {
    push(s.clone(), &mut out);
  }
  let mut guard = 0;
  while out.len() < size && guard < 100_000 {
    guard += 1;
    // leaf pool of this family: Any, Null and two ordinary simple types
    let mut pool = vec![FeelType::Any, FeelType::Null];
    pool.push(simple[2 + rng.below(8)].clone());
    pool.push(simple[2 + rng.below(8)].clone());
    let t0 = rand_depth2(&mut rng, &pool);
    push(t0.clone(), &mut out);
    for _ in 0..20 {
      let m = mutate(&t0, &mut rng, &pool);
      push(m, &mut out);
    }
    for _ in 0..8 {
      let m = mutate(&mutate(&t0, &mut rng, &pool), &mut rng, &pool);
      push(m, &mut out);
    }
  }
  out.truncate(size.max(10));
  out
}

// =================================================================================================
// op: types
// =================================================================================================

fn rows_of(case: &J, n: usize) -> (usize, usize) {
  match case.get("rows").and_then(|v| v.as_array()) {
    Some(r) if r.len() == 2 => (r[0].as_u64().unwrap_or(0) as usize, r[1].as_u64().unwrap_or(n as u64) as usize),
    _ => (0, n),
  }
}

pub fn op_types(case: &J) -> J {
  let mode = case.get("mode").and_then(|v| v.as_str()).unwrap_or("universe");
  let seed = case.get("seed").and_then(|v| v.as_u64()).unwrap_or(1);
  let direct = case.get("direct_triples").and_then(|v| v.as_u64()).unwrap_or(0) as usize;
  match mode {
    "universe" => {
      let u = match build_universe(case) {
        Ok(u) => u,
        Err(e) => return json!({ "harness_error": e }),
      };
      if case.get("count_only").and_then(|v| v.as_bool()).unwrap_or(false) {
        return json!({"n_types": u.len()});
      }
      let rows = rows_of(case, u.len());
      let mut acc = Acc::default();
      let w = walk(&u, rows, direct, seed, &mut acc);
      walk_to_json(&w, &acc)
    }
    "sample" => {
      let size = case.get("size").and_then(|v| v.as_u64()).unwrap_or(300) as usize;
      let u = gen_sample(seed, size);
      let mut acc = Acc::default();
      let w = walk(&u, (0, u.len()), direct, seed, &mut acc);
      let mut j = walk_to_json(&w, &acc);
      let d2 = u.iter().filter(|t| depth_of(t) == 2).count();
      j["depth2_types"] = json!(d2);
      j["first_types"] = json!(u.iter().skip(10).take(4).map(|t| t.to_string()).collect::<Vec<_>>());
      j
    }
    "probe" => {
      let empty = vec![];
      let mut u = vec![];
      for tj in case.get("types").and_then(|v| v.as_array()).unwrap_or(&empty) {
        match type_from_json(tj) {
          Ok(t) => u.push(t),
          Err(e) => return json!({ "harness_error": e }),
        }
      }
      let mut acc = Acc::default();
      let w = walk(&u, (0, u.len()), 0, seed, &mut acc);
      let mut j = walk_to_json(&w, &acc);
      let n = u.len();
      let mut conf = vec![];
      let mut equiv = vec![];
      let mut rconf = vec![];
      let mut requiv = vec![];
      for a in 0..n {
        let mut r1 = vec![];
        let mut r2 = vec![];
        let mut r3 = vec![];
        let mut r4 = vec![];
        for b in 0..n {
          r1.push(u[a].is_conformant(&u[b]));
          r2.push(u[a].is_equivalent(&u[b]));
          r3.push(format!("{:?}", reference::conf(&u[a], &u[b])));
          r4.push(reference::equiv(&u[a], &u[b]));
        }
        conf.push(r1);
        equiv.push(r2);
        rconf.push(r3);
        requiv.push(r4);
      }
      j["lost_context_entries"] = json!(LOST_CONTEXT_ENTRIES.swap(0, std::sync::atomic::Ordering::SeqCst));
      if case.get("no_matrices").and_then(|v| v.as_bool()).unwrap_or(false) {
        return j;
      }
      j["text"] = json!(u.iter().map(|t| t.to_string()).collect::<Vec<_>>());
      j["is_conformant"] = json!(conf);
      j["is_equivalent"] = json!(equiv);
      j["reference_conformant"] = json!(rconf);
      j["reference_equivalent"] = json!(requiv);
      j
    }
    other => json!({ "harness_error": format!("types: unknown mode '{}'", other) }),
  }
}

// =================================================================================================
// op: coerce — values x target types
// =================================================================================================

fn v_num(n: i128) -> Value {
  Value::Number(dmntk_feel::FeelNumber::from_i128(n))
}

fn v_simple(t: &FeelType) -> Value {
  let via = |j: J| crate::vj::to_value(&j).expect("harness: cannot build inhabitant");
  match t {
    FeelType::Any => Value::String("any".to_string()),
    FeelType::Null => Value::Null(None),
    FeelType::Boolean => Value::Boolean(true),
    FeelType::Number => v_num(1),
    FeelType::String => Value::String("s".to_string()),
    FeelType::Date => via(json!({"d": "2021-02-03"})),
    FeelType::Time => via(json!({"t": "10:11:12"})),
    FeelType::DateTime => via(json!({"dt": "2021-02-03T10:11:12"})),
    FeelType::DaysAndTimeDuration => via(json!({"dtd": "P1DT2H"})),
    FeelType::YearsAndMonthsDuration => via(json!({"ymd": "P1Y2M"})),
    _ => unreachable!(),
  }
}

/// One inhabitant of the type: a value whose `type_of` ought to conform to `t` (and equal it
/// whenever `t` has no `Any` inside).
fn inhabitant(t: &FeelType) -> Value {
  match t {
    FeelType::List(x) => match **x {
      FeelType::Any => Value::List(Values::new(vec![v_num(1), Value::String("s".to_string())])),
      _ => Value::List(Values::new(vec![inhabitant(x), inhabitant(x)])),
    },
    FeelType::Range(x) => match **x {
      FeelType::Any => Value::Range(Box::new(v_num(1)), true, Box::new(Value::String("s".to_string())), true),
      _ => Value::Range(Box::new(inhabitant(x)), true, Box::new(inhabitant(x)), true),
    },
    FeelType::Context(m) => {
      let mut ctx = FeelContext::default();
      for (k, v) in m {
        ctx.set_entry(k, inhabitant(v));
      }
      Value::Context(ctx)
    }
    FeelType::Function(ps, r) => {
      let params: Vec<(Name, FeelType)> = ps.iter().enumerate().map(|(k, p)| (Name::from(format!("p{}", k + 1).as_str()), p.clone())).collect();
      let body = FunctionBody::LiteralExpression(Arc::new(Box::new(|_: &Scope| Value::Null(None))));
      Value::FunctionDefinition(params, body, (**r).clone())
    }
    simple => v_simple(simple),
  }
}

fn same_value(a: &Value, b: &Value) -> bool {
  match (a, b) {
    (Value::Null(_), Value::Null(_)) => true,
    _ => a == b && format!("{:?}", a) == format!("{:?}", b),
  }
}

fn show(v: &Value) -> String {
  let s = match v {
    Value::FunctionDefinition(..) => format!("<function value of type {}>", v.type_of()),
    other => other.to_string(),
  };
  if s.len() > 160 {
    format!("{}…", &s[..150])
  } else {
    s
  }
}

struct CoerceAcc {
  checked: BTreeMap<&'static str, u64>,
  viol: BTreeMap<String, (u64, Vec<J>)>,
  undecided: BTreeMap<String, (u64, Vec<J>)>,
  outcomes: BTreeMap<&'static str, u64>,
  classes: BTreeSet<String>,
  calls: u64,
}

impl CoerceAcc {
  fn bad(&mut self, key: String, vdesc: &J, v: &Value, t: &FeelType, got: &Value, want: &str) {
    let e = self.viol.entry(key).or_insert((0, vec![]));
    e.0 += 1;
    let plain = |s: &str| !s.contains("Null") && !s.contains("Any") && !s.contains("null");
    let (vt, tt) = (show(v), t.to_string());
    let upgrade = e.1.len() == MAX_EXAMPLES && plain(&vt) && plain(&tt) && !(plain(e.1[0]["value_text"].as_str().unwrap_or("")) && plain(e.1[0]["target_text"].as_str().unwrap_or("")));
    if e.1.len() < MAX_EXAMPLES || upgrade {
      let ex = json!({
        "value": vdesc, "value_text": vt, "value_type": v.type_of().to_string(),
        "target": type_to_json(t), "target_text": tt,
        "observed": show(got), "expected": want,
      });
      if upgrade {
        e.1[0] = ex;
      } else {
        e.1.push(ex);
      }
    }
  }
}

/// The rule of the property statement, decided with the implementation's own `is_conformant`
/// (which is checked separately against the reference) and the harness' own reading of the value.
/// `got` is what the code under test returned for value `v` and target `t` (by `coerced` directly,
/// or through a FEEL invocation when `prefix` is "feel-").
fn classify_coercion(prefix: &str, vdesc: &J, v: &Value, t: &FeelType, got: &Value, acc: &mut CoerceAcc) {
  let tv = v.type_of();
  let cls = format!("value={},target={}", shape(&tv), shape(t));
  if acc.classes.len() < 4096 && !acc.classes.contains(&cls) {
    acc.classes.insert(cls.clone());
  }
  let conforms = tv.is_conformant(t);
  let wrap_ok = match t {
    FeelType::List(el) => tv.is_conformant(el),
    _ => false,
  };
  let unwrapped: Option<&Value> = match v {
    Value::List(items) if items.as_vec().len() == 1 => Some(&items.as_vec()[0]),
    _ => None,
  };
  let unwrap_ok = match unwrapped {
    Some(x) => x.type_of().is_conformant(t),
    None => false,
  };
  *acc.checked.entry("coercion-rule").or_insert(0) += 1;
  if conforms {
    *acc.outcomes.entry("identity").or_insert(0) += 1;
    if !same_value(got, v) {
      acc.bad(format!("{}coerce-not-identity:{}", prefix, cls), vdesc, v, t, got, "the value itself (its type conforms)");
    }
  } else if wrap_ok && unwrap_ok {
    // both conversions apply: the statement does not rank them
    let wrapped = Value::List(Values::new(vec![v.clone()]));
    if same_value(got, &wrapped) || same_value(got, unwrapped.unwrap()) {
      let e = acc.undecided.entry(format!("wrap-and-unwrap-both-apply:{}", cls)).or_insert((0, vec![]));
      e.0 += 1;
      if e.1.len() < MAX_EXAMPLES {
        e.1.push(json!({"value": vdesc, "value_text": show(v), "target_text": t.to_string(), "observed": show(got)}));
      }
      *acc.outcomes.entry("ambiguous").or_insert(0) += 1;
    } else {
      acc.bad(format!("{}coerce-neither-wrap-nor-unwrap:{}", prefix, cls), vdesc, v, t, got, "singleton wrap or unwrap (both conform)");
    }
  } else if wrap_ok {
    *acc.outcomes.entry("wrap").or_insert(0) += 1;
    let wrapped = Value::List(Values::new(vec![v.clone()]));
    if !same_value(got, &wrapped) {
      acc.bad(format!("{}coerce-wrap-expected:{}", prefix, cls), vdesc, v, t, got, "[value] (the value's type conforms to the element type)");
    }
  } else if unwrap_ok {
    *acc.outcomes.entry("unwrap").or_insert(0) += 1;
    if !same_value(got, unwrapped.unwrap()) {
      acc.bad(format!("{}coerce-unwrap-expected:{}", prefix, cls), vdesc, v, t, got, "the single element (its type conforms to the target)");
    }
  } else {
    *acc.outcomes.entry("null").or_insert(0) += 1;
    if !got.is_null() {
      acc.bad(format!("{}coerce-null-expected:{}", prefix, cls), vdesc, v, t, got, "null (nothing conforms)");
    }
  }
  // independent of type_of / is_conformant: a value built for type T0 inhabits every S that T0 conforms
  // to BY THE REFERENCE, so coercing it to S must return the value itself
  if let Some(t0) = built_for(vdesc) {
    if reference::conf(&t0, t) == V3::Yes {
      *acc.checked.entry("inhabitant-kept").or_insert(0) += 1;
      if !same_value(got, v) {
        acc.bad(
          format!("{}coerce-inhabitant-not-kept:built-for={},target={}", prefix, shape(&t0), shape(t)),
          vdesc,
          v,
          t,
          got,
          &format!("the value itself: it was built as an inhabitant of {} which conforms to the target by DMN 10.3.2.9.2", t0),
        );
      }
    }
  }
  // result conforms to the target or is null
  *acc.checked.entry("result-conforms-or-null").or_insert(0) += 1;
  if !got.is_null() && !got.type_of().is_conformant(t) {
    acc.bad(format!("{}coerce-result-not-conformant:{}", prefix, cls), vdesc, v, t, got, "a value whose type conforms to the target, or null");
  }
  // the same, independent of Value::type_of and is_conformant: the result is null or structurally a value of the target type
  *acc.checked.entry("result-inhabits-target-or-null").or_insert(0) += 1;
  if !got.is_null() && !inhabits(got, t) {
    acc.bad(
      format!("{}coerce-result-does-not-inhabit-target:{}", prefix, cls),
      vdesc,
      v,
      t,
      got,
      "null or a value that is structurally of the target type (every list item / context entry / range end point of the required type)",
    );
  }
}

/// Structural membership of a value in a type, written without Value::type_of and FeelType::is_conformant:
/// null is a value of every type; a list inhabits list<T> when every item inhabits T; a context inhabits a context
/// type when every required entry is present with an inhabiting value; a range by its end points; a function by the
/// reference relation over its declared parameter and result types.
fn inhabits(v: &Value, t: &FeelType) -> bool {
  if matches!(v, Value::Null(_)) || matches!(t, FeelType::Any) {
    return true;
  }
  match (t, v) {
    (FeelType::Null, _) => false,
    (FeelType::Boolean, Value::Boolean(_)) => true,
    (FeelType::Number, Value::Number(_)) => true,
    (FeelType::String, Value::String(_)) => true,
    (FeelType::Date, Value::Date(_)) => true,
    (FeelType::Time, Value::Time(_)) => true,
    (FeelType::DateTime, Value::DateTime(_)) => true,
    (FeelType::DaysAndTimeDuration, Value::DaysAndTimeDuration(_)) => true,
    (FeelType::YearsAndMonthsDuration, Value::YearsAndMonthsDuration(_)) => true,
    (FeelType::List(el), Value::List(items)) => items.as_vec().iter().all(|x| inhabits(x, el)),
    (FeelType::Context(entries), Value::Context(ctx)) => entries.iter().all(|(name, et)| match ctx.get_entry(name) {
      Some(x) => inhabits(x, et),
      None => false,
    }),
    (FeelType::Range(el), Value::Range(a, _, b, _)) => inhabits(a, el) && inhabits(b, el),
    (FeelType::Function(_, _), Value::FunctionDefinition(params, _, result)) => {
      let vt = FeelType::Function(params.iter().map(|(_, pt)| pt.clone()).collect(), Box::new(result.clone()));
      reference::conf(&vt, t) == V3::Yes
    }
    (FeelType::Function(_, _), Value::BuiltInFunction(_)) => true,
    _ => false,
  }
}

fn record_panic(prefix: &str, vdesc: &J, v: &Value, t: &FeelType, second: bool, acc: &mut CoerceAcc) {
  let p = crate::LAST_PANIC.lock().ok().and_then(|mut g| g.take()).unwrap_or(json!({"msg": "<unknown>"}));
  let cls = format!("value={},target={}", shape(&v.type_of()), shape(t));
  let e = acc.viol.entry(format!("{}coerce-panic:{}", prefix, cls)).or_insert((0, vec![]));
  e.0 += 1;
  if e.1.len() < MAX_EXAMPLES {
    e.1.push(json!({"value": vdesc, "target": type_to_json(t), "target_text": t.to_string(), "panic": p, "second": second}));
  }
}

fn check_coercion(vdesc: &J, v: &Value, t: &FeelType, acc: &mut CoerceAcc) {
  let r = std::panic::catch_unwind(std::panic::AssertUnwindSafe(|| t.coerced(v)));
  acc.calls += 1;
  let got = match r {
    Ok(g) => g,
    Err(_) => {
      record_panic("", vdesc, v, t, false, acc);
      return;
    }
  };
  classify_coercion("", vdesc, v, t, &got, acc);
  // coercing twice changes nothing
  *acc.checked.entry("idempotent").or_insert(0) += 1;
  let again = std::panic::catch_unwind(std::panic::AssertUnwindSafe(|| t.coerced(&got)));
  acc.calls += 1;
  match again {
    Ok(g2) => {
      if !same_value(&g2, &got) {
        let cls = format!("value={},target={}", shape(&v.type_of()), shape(t));
        acc.bad(format!("coerce-not-idempotent:{}", cls), vdesc, v, t, &g2, &format!("{} again (first coercion gave that)", show(&got)));
      }
    }
    Err(_) => record_panic("", vdesc, v, t, true, acc),
  }
}

// ---------------------------------------------------------------------------------------------
// the same rule observed through FEEL invocations: `(function(x: T) x)(v)` (positional and named),
// parsed and evaluated by the real parser / evaluator (builders.rs eval_function_positional/_named)
// ---------------------------------------------------------------------------------------------

fn feel_simple_literal(t: &FeelType) -> &'static str {
  match t {
    FeelType::Any => "\"any\"",
    FeelType::Null => "null",
    FeelType::Boolean => "true",
    FeelType::Number => "1",
    FeelType::String => "\"s\"",
    FeelType::Date => "date(\"2021-02-03\")",
    FeelType::Time => "time(\"10:11:12\")",
    FeelType::DateTime => "date and time(\"2021-02-03T10:11:12\")",
    FeelType::DaysAndTimeDuration => "duration(\"P1DT2H\")",
    FeelType::YearsAndMonthsDuration => "duration(\"P1Y2M\")",
    _ => unreachable!(),
  }
}

/// FEEL text denoting `inhabitant(t)`; None when FEEL has no literal for it.
fn feel_literal(t: &FeelType) -> Option<String> {
  match t {
    FeelType::List(x) => match **x {
      FeelType::Any => Some("[1, \"s\"]".to_string()),
      _ => feel_literal(x).map(|s| format!("[{}, {}]", s, s)),
    },
    FeelType::Range(x) => match **x {
      FeelType::Number | FeelType::String | FeelType::Date | FeelType::Time | FeelType::DateTime | FeelType::DaysAndTimeDuration | FeelType::YearsAndMonthsDuration => {
        feel_literal(x).map(|s| format!("[{}..{}]", s, s))
      }
      _ => None,
    },
    FeelType::Context(m) => {
      let mut parts = vec![];
      for (k, v) in m {
        parts.push(format!("{}: {}", k, feel_literal(v)?));
      }
      Some(format!("{{{}}}", parts.join(", ")))
    }
    FeelType::Function(ps, r) => {
      if !matches!(**r, FeelType::Any) || ps.iter().any(|p| p.to_string().contains("context<>")) {
        return None; // functions defined in FEEL always have result type Any
      }
      let params: Vec<String> = ps.iter().enumerate().map(|(k, p)| format!("p{}: {}", k + 1, p)).collect();
      Some(format!("function({}) null", params.join(", ")))
    }
    simple => Some(feel_simple_literal(simple).to_string()),
  }
}

fn feel_eval(text: &str) -> Result<Value, String> {
  let scope = Scope::default();
  let node = crate::ops_feel::parse_entry(&scope, "expr", text, None).map_err(|e| format!("parse: {}", e))?;
  let ev = dmntk_feel_evaluator::prepare(&node).map_err(|e| format!("prepare: {}", e))?;
  Ok(ev(&scope))
}

/// value description: {"of": <type json>, "wrap": k} = inhabitant of the type wrapped k times in a
/// singleton list, or {"of":.., "twice": true} = two-element list of the inhabitant, or {"lit": <value json>}.
fn value_from_desc(d: &J) -> Result<Value, String> {
  if let Some(l) = d.get("lit") {
    return crate::vj::to_value(l);
  }
  let t = type_from_json(d.get("of").ok_or("value description without 'of'")?)?;
  if d.get("empty").and_then(|x| x.as_bool()).unwrap_or(false) {
    return match t {
      FeelType::List(_) => Ok(Value::List(Values::new(vec![]))),
      _ => Err("'empty' needs a list type".to_string()),
    };
  }
  let mut v = inhabitant(&t);
  if d.get("twice").and_then(|x| x.as_bool()).unwrap_or(false) {
    v = Value::List(Values::new(vec![v.clone(), v]));
  }
  for _ in 0..d.get("wrap").and_then(|x| x.as_u64()).unwrap_or(0) {
    v = Value::List(Values::new(vec![v]));
  }
  Ok(v)
}

/// The type the described value was BUILT FOR (it inhabits that type by construction): the type
/// itself, list<type> for the two-element list, list^k<type> for k singleton wraps, the list type
/// for the empty list. None for free literals.
fn built_for(d: &J) -> Option<FeelType> {
  let mut t = type_from_json(d.get("of")?).ok()?;
  if d.get("empty").and_then(|x| x.as_bool()).unwrap_or(false) {
    return Some(t);
  }
  if d.get("twice").and_then(|x| x.as_bool()).unwrap_or(false) {
    t = FeelType::List(Box::new(t));
  }
  for _ in 0..d.get("wrap").and_then(|x| x.as_u64()).unwrap_or(0) {
    t = FeelType::List(Box::new(t));
  }
  Some(t)
}

fn value_pool(u: &[FeelType]) -> Vec<J> {
  let mut out = vec![];
  for t in u {
    let tj = type_to_json(t);
    out.push(json!({"of": tj, "wrap": 0}));
    out.push(json!({"of": tj, "wrap": 1}));
    out.push(json!({"of": tj, "twice": true}));
  }
  // the empty list inhabits every list type
  for t in u.iter().filter(|t| matches!(t, FeelType::List(_))) {
    out.push(json!({"of": type_to_json(t), "empty": true}));
  }
  // extra literals: empty / heterogeneous / nested singleton lists
  for lit in [
    json!([]),
    json!([[]]),
    json!([[[]]]),
    json!([null]),
    json!([[null]]),
    json!([{"n": "1"}, null]),
    json!([{"n": "1"}, {"s": "a"}]),
    // heterogeneous lists whose FIRST item is of a more specific type than a later one
    json!([null, {"n": "1"}]),
    json!([null, {"n": "1"}, {"s": "a"}]),
    json!([null, true, {"n": "1"}]),
    json!([[null], [{"n": "1"}]]),
    json!([[], [{"n": "1"}], [{"s": "a"}]]),
    json!([{"c": [["a", {"n": "1"}], ["b", true]]}, {"c": [["a", {"n": "1"}]]}]),
    json!([{"c": [["a", null]]}, {"c": [["a", {"s": "x"}]]}]),
    json!({"c": [["a", [null, {"n": "1"}, {"s": "a"}]]]}),
    json!([[{"n": "1"}]]),
    json!([[[{"n": "1"}]]]),
    json!([[{"n": "1"}, {"n": "2"}]]),
    json!([[{"n": "1"}], [{"n": "2"}]]),
    json!([{"c": []}]),
    json!([{"c": [["a", {"n": "1"}], ["b", {"s": "x"}]]}]),
    json!({"c": [["a", [{"n": "1"}]]]}),
    json!({"r": [{"n": "1"}, true, {"n": "2"}, true]}),
    json!([{"r": [{"n": "1"}, true, {"n": "2"}, true]}]),
  ] {
    out.push(json!({ "lit": lit }));
  }
  out
}

pub fn op_coerce(case: &J) -> J {
  let mode = case.get("mode").and_then(|v| v.as_str()).unwrap_or("universe");
  let mut acc = CoerceAcc {
    checked: BTreeMap::new(),
    viol: BTreeMap::new(),
    undecided: BTreeMap::new(),
    outcomes: BTreeMap::new(),
    classes: BTreeSet::new(),
    calls: 0,
  };
  let mut typeof_checked = 0u64;
  let mut n_values = 0usize;
  let mut n_targets = 0usize;
  let mut pool_size = 0usize;
  match mode {
    "universe" => {
      let u = match build_universe(case) {
        Ok(u) => u,
        Err(e) => return json!({ "harness_error": e }),
      };
      // targets: the universe plus list<T> of every member (singleton wrap into depth 2)
      let mut targets = u.clone();
      let mut seen: BTreeSet<String> = u.iter().map(|t| t.to_string()).collect();
      for t in &u {
        let l = FeelType::List(Box::new(t.clone()));
        let key = l.to_string();
        if !seen.contains(&key) {
          seen.insert(key);
          targets.push(l);
        }
      }
      let pool = value_pool(&u);
      pool_size = pool.len();
      let (lo, hi) = rows_of(case, pool.len());
      let (lo, hi) = (lo.min(pool.len()), hi.min(pool.len()));
      n_values = hi - lo;
      n_targets = targets.len();
      if case.get("count_only").and_then(|v| v.as_bool()).unwrap_or(false) {
        return json!({"n_values": pool.len(), "n_targets": targets.len()});
      }
      for d in &pool[lo..hi] {
        let v = match value_from_desc(d) {
          Ok(v) => v,
          Err(e) => return json!({ "harness_error": e }),
        };
        // the inhabitant's type must conform to the type it was built for (reference verdict)
        if let Some(of) = d.get("of") {
          if d.get("wrap").and_then(|x| x.as_u64()).unwrap_or(0) == 0
            && !d.get("twice").and_then(|x| x.as_bool()).unwrap_or(false)
            && !d.get("empty").and_then(|x| x.as_bool()).unwrap_or(false)
          {
            let t = type_from_json(of).unwrap();
            let tv = v.type_of();
            typeof_checked += 1;
            let exact_expected = !t.to_string().contains("Any");
            let ok = if exact_expected { reference::equiv(&tv, &t) } else { reference::conf(&tv, &t) == V3::Yes };
            if !ok {
              let e = acc.viol.entry(format!("typeof-mismatch:{}", shape(&t))).or_insert((0, vec![]));
              e.0 += 1;
              if e.1.len() < MAX_EXAMPLES {
                e.1.push(json!({"value": d, "value_text": show(&v), "built_for": t.to_string(), "type_of": tv.to_string()}));
              }
            }
          }
        }
        for t in &targets {
          check_coercion(d, &v, t, &mut acc);
        }
      }
    }
    "feel" => {
      let u = match build_universe(case) {
        Ok(u) => u,
        Err(e) => return json!({ "harness_error": e }),
      };
      let stride = case.get("target_stride").and_then(|v| v.as_u64()).unwrap_or(1).max(1) as usize;
      let seed = case.get("seed").and_then(|v| v.as_u64()).unwrap_or(1) as usize;
      // values: every form of every type of the universe that FEEL can write down
      let mut pool: Vec<(J, String)> = vec![];
      for t in &u {
        if let Some(text) = feel_literal(t) {
          let tj = type_to_json(t);
          pool.push((json!({"of": tj, "wrap": 0}), text.clone()));
          pool.push((json!({"of": tj, "wrap": 1}), format!("[{}]", text)));
          pool.push((json!({"of": tj, "twice": true}), format!("[{}, {}]", text, text)));
        }
      }
      for t in u.iter().filter(|t| matches!(t, FeelType::List(_))) {
        pool.push((json!({"of": type_to_json(t), "empty": true}), "[]".to_string()));
      }
      for (lit, text) in [
        (json!([]), "[]"),
        (json!([[]]), "[[]]"),
        (json!([null]), "[null]"),
        (json!([[{"n": "1"}]]), "[[1]]"),
        (json!([[[{"n": "1"}]]]), "[[[1]]]"),
        (json!([[{"n": "1"}, {"n": "2"}]]), "[[1, 2]]"),
        (json!([{"c": [["a", {"n": "1"}], ["b", {"s": "x"}]]}]), "[{a: 1, b: \"x\"}]"),
      ] {
        pool.push((json!({ "lit": lit }), text.to_string()));
      }
      // targets: everything the FEEL grammar can spell (`context<>` has no spelling), plus list<T>
      let mut targets: Vec<FeelType> = u.iter().filter(|t| !t.to_string().contains("context<>")).cloned().collect();
      let lists: Vec<FeelType> = targets.iter().filter(|t| depth_of(t) == 1).map(|t| FeelType::List(Box::new(t.clone()))).collect();
      targets.extend(lists);
      let (lo, hi) = rows_of(case, pool.len());
      let (lo, hi) = (lo.min(pool.len()), hi.min(pool.len()));
      if case.get("count_only").and_then(|v| v.as_bool()).unwrap_or(false) {
        return json!({"n_values": pool.len(), "n_targets": targets.len()});
      }
      n_values = hi - lo;
      n_targets = targets.len();
      let mut literal_differs = vec![];
      let mut eval_errors: Vec<J> = vec![];
      let mut n_eval_errors = 0u64;
      let mut named = 0u64;
      let mut positional = 0u64;
      for (vi, (d, vtext)) in pool[lo..hi].iter().enumerate() {
        let built = match value_from_desc(d) {
          Ok(v) => v,
          Err(e) => return json!({ "harness_error": e }),
        };
        let v = match feel_eval(vtext) {
          Ok(v) => v,
          Err(e) => {
            literal_differs.push(json!({"text": vtext, "error": e}));
            continue;
          }
        };
        if !same_value(&v, &built) {
          literal_differs.push(json!({"text": vtext, "evaluated": show(&v), "built": show(&built)}));
          continue;
        }
        let offset = (lo + vi + seed) % stride;
        for (ti, t) in targets.iter().enumerate() {
          if ti % stride != offset {
            continue;
          }
          // five invocation shapes in turn: positional, named, from another function whose parameter has the same
          // name, with a variable of the same name bound (non-null) around the invocation, and as the second use of a
          // call site that served another function first: what the body sees is
          // the coerced argument whatever else carries that name further down the scope
          let shape = (ti / stride + vi) % 5;
          let text = match shape {
            1 => {
              named += 1;
              format!("(function(x: {}) x)(x: {})", t, vtext)
            }
            2 => {
              positional += 1;
              format!("{{inner: function(x: {}) x, outer: function(x) inner(x), r: outer({})}}.r", t, vtext)
            }
            3 => {
              named += 1;
              format!("{{x: \"outer binding\", r: (function(x: {}) x)(x: {})}}.r", t, vtext)
            }
            4 => {
              // one call site `f(..)` serving two differently typed functions in turn: the second call is the judged one
              positional += 1;
              format!("(for f in [function(x: Any) [x, x], function(x: {}) x] return f({}))[2]", t, vtext)
            }
            _ => {
              positional += 1;
              format!("(function(x: {}) x)({})", t, vtext)
            }
          };
          let mut vd = d.clone();
          vd["feel"] = json!(text);
          let r = std::panic::catch_unwind(std::panic::AssertUnwindSafe(|| feel_eval(&text)));
          acc.calls += 1;
          match r {
            Ok(Ok(got)) => classify_coercion("feel-", &vd, &v, t, &got, &mut acc),
            Ok(Err(e)) => {
              n_eval_errors += 1;
              if eval_errors.len() < 5 {
                eval_errors.push(json!({"text": text, "error": e}));
              }
            }
            Err(_) => record_panic("feel-", &vd, &v, t, false, &mut acc),
          }
        }
      }
      let viol: Map<String, J> = acc.viol.iter().map(|(k, (n, ex))| (k.clone(), json!({"n": n, "ex": ex}))).collect();
      let und: Map<String, J> = acc.undecided.iter().map(|(k, (n, ex))| (k.clone(), json!({"n": n, "ex": ex}))).collect();
      return json!({
        "n_values": n_values, "n_targets": n_targets, "pool": pool.len(), "calls": acc.calls, "named": named, "positional": positional,
        "literal_differs": literal_differs, "eval_errors": eval_errors, "n_eval_errors": n_eval_errors,
        "laws": acc.checked.iter().map(|(k, v)| (k.to_string(), json!(v))).collect::<Map<String, J>>(),
        "outcomes": acc.outcomes.iter().map(|(k, v)| (k.to_string(), json!(v))).collect::<Map<String, J>>(),
        "classes": acc.classes.len(),
        "viol": viol, "undecided": und,
      });
    }
    "probe" => {
      let d = case.get("value").cloned().unwrap_or(J::Null);
      let v = match value_from_desc(&d) {
        Ok(v) => v,
        Err(e) => return json!({ "harness_error": e }),
      };
      let t = match type_from_json(case.get("target").unwrap_or(&J::Null)) {
        Ok(t) => t,
        Err(e) => return json!({ "harness_error": e }),
      };
      n_values = 1;
      n_targets = 1;
      check_coercion(&d, &v, &t, &mut acc);
      let mut feel_observed = J::Null;
      if let Some(text) = d.get("feel").and_then(|x| x.as_str()) {
        match feel_eval(text) {
          Ok(g) => {
            classify_coercion("feel-", &d, &v, &t, &g, &mut acc);
            feel_observed = json!({"text": text, "value": show(&g)});
          }
          Err(e) => feel_observed = json!({"text": text, "error": e}),
        }
      }
      let got = t.coerced(&v);
      let viol: Map<String, J> = acc.viol.iter().map(|(k, (n, ex))| (k.clone(), json!({"n": n, "ex": ex}))).collect();
      return json!({
        "value_text": show(&v), "value_type": v.type_of().to_string(), "target_text": t.to_string(),
        "coerced": show(&got), "coerced_json": crate::vj::from_value(&got), "feel": feel_observed, "viol": viol,
      });
    }
    other => return json!({ "harness_error": format!("coerce: unknown mode '{}'", other) }),
  }
  let viol: Map<String, J> = acc.viol.iter().map(|(k, (n, ex))| (k.clone(), json!({"n": n, "ex": ex}))).collect();
  let und: Map<String, J> = acc.undecided.iter().map(|(k, (n, ex))| (k.clone(), json!({"n": n, "ex": ex}))).collect();
  json!({
    "n_values": n_values, "n_targets": n_targets, "pool": pool_size, "calls": acc.calls, "typeof_checked": typeof_checked,
    "laws": acc.checked.iter().map(|(k, v)| (k.to_string(), json!(v))).collect::<Map<String, J>>(),
    "outcomes": acc.outcomes.iter().map(|(k, v)| (k.to_string(), json!(v))).collect::<Map<String, J>>(),
    "classes": acc.classes.len(),
    "viol": viol, "undecided": und,
  })
}
