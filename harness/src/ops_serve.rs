//! HTTP service under test (C18): starts the REAL `dmntk_server::start_server` on a loopback port inside
//! this driver process and keeps it alive while the Python side talks HTTP to it.
//!
//! {op:"serve", host:"127.0.0.1", port:0|N, ready_file, stop_file, panic_file, max_seconds}
//!   * port 0: a free port is found by binding 127.0.0.1:0 first;
//!   * when the service accepts connections, `ready_file` is written: {"port":N,"pid":P,"workers":W};
//!   * every panic of any thread while serving is appended (one JSON line) to `panic_file` - the panic
//!     hook of main.rs stays installed and is chained;
//!   * the op returns when `stop_file` exists, when `max_seconds` elapsed or when the parent process
//!     went away (then the whole process exits) -> {"port","stopped":"stop-file"|"deadline"|"server-ended",
//!     "server_result", "panics":[..]}.
//! The server cannot be stopped through its public API; it dies with the driver process, therefore
//! the Python side gives every `serve` case its own shard.

use serde_json::{json, Value as J};
use std::io::Write;
use std::net::{TcpListener, TcpStream};
use std::sync::atomic::{AtomicBool, Ordering};
use std::sync::{Arc, Mutex, Once};
use std::time::{Duration, Instant};

static HOOK: Once = Once::new();
static PANICS: Mutex<Vec<J>> = Mutex::new(Vec::new());
static PANIC_FILE: Mutex<Option<String>> = Mutex::new(None);

fn install_hook() {
  HOOK.call_once(|| {
    let previous = std::panic::take_hook();
    std::panic::set_hook(Box::new(move |info| {
      let msg = if let Some(s) = info.payload().downcast_ref::<&str>() {
        s.to_string()
      } else if let Some(s) = info.payload().downcast_ref::<String>() {
        s.clone()
      } else {
        "<non-string panic payload>".to_string()
      };
      let loc = info.location().map(|l| format!("{}:{}", l.file(), l.line())).unwrap_or_default();
      let thread = std::thread::current().name().unwrap_or("").to_string();
      let rec = json!({"msg": msg, "loc": loc, "thread": thread});
      if let Ok(g) = PANIC_FILE.lock() {
        if let Some(path) = g.as_ref() {
          if let Ok(mut f) = std::fs::OpenOptions::new().create(true).append(true).open(path) {
            let _ = writeln!(f, "{}", rec);
          }
        }
      }
      if let Ok(mut g) = PANICS.lock() {
        if g.len() < 1000 {
          g.push(rec);
        }
      }
      previous(info);
    }));
  });
}

fn free_port(host: &str) -> Result<u16, String> {
  let l = TcpListener::bind((host, 0)).map_err(|e| format!("cannot bind {}:0: {}", host, e))?;
  let p = l.local_addr().map_err(|e| e.to_string())?.port();
  drop(l);
  Ok(p)
}

pub fn op_serve(case: &J) -> J {
  let host = case.get("host").and_then(|v| v.as_str()).unwrap_or("127.0.0.1").to_string();
  let ready_file = case.get("ready_file").and_then(|v| v.as_str()).unwrap_or("").to_string();
  let stop_file = case.get("stop_file").and_then(|v| v.as_str()).unwrap_or("").to_string();
  let max_seconds = case.get("max_seconds").and_then(|v| v.as_u64()).unwrap_or(600);
  if ready_file.is_empty() || stop_file.is_empty() {
    return json!({"harness_error": "serve needs ready_file and stop_file"});
  }
  if let Ok(mut g) = PANIC_FILE.lock() {
    *g = case.get("panic_file").and_then(|v| v.as_str()).map(|s| s.to_string());
  }
  install_hook();
  let mut port = case.get("port").and_then(|v| v.as_u64()).unwrap_or(0) as u16;
  if port == 0 {
    port = match free_port(&host) {
      Ok(p) => p,
      Err(e) => return json!({ "harness_error": e }),
    };
  }
  let ended = Arc::new(AtomicBool::new(false));
  let result: Arc<Mutex<Option<String>>> = Arc::new(Mutex::new(None));
  {
    let ended = Arc::clone(&ended);
    let result = Arc::clone(&result);
    let host = host.clone();
    let spawned = std::thread::Builder::new().name("verif-server".to_string()).spawn(move || {
      let mut system = actix_web::rt::System::new("verif-server");
      let r = system.block_on(dmntk_server::start_server(Some(host), Some(port.to_string()), None));
      if let Ok(mut g) = result.lock() {
        *g = Some(match r {
          Ok(()) => "ok".to_string(),
          Err(e) => format!("error: {}", e),
        });
      }
      ended.store(true, Ordering::SeqCst);
    });
    if let Err(e) = spawned {
      return json!({"harness_error": format!("cannot spawn server thread: {}", e)});
    }
  }
  // wait until the service accepts connections
  let t0 = Instant::now();
  let mut up = false;
  while t0.elapsed() < Duration::from_secs(30) {
    if ended.load(Ordering::SeqCst) {
      break;
    }
    if TcpStream::connect((host.as_str(), port)).is_ok() {
      up = true;
      break;
    }
    std::thread::sleep(Duration::from_millis(20));
  }
  if !up {
    let r = result.lock().ok().and_then(|g| g.clone());
    return json!({"harness_error": format!("service did not come up on {}:{} (server result: {:?})", host, port, r)});
  }
  let workers = std::thread::available_parallelism().map(|n| n.get()).unwrap_or(1);
  let tmp = format!("{}.tmp", ready_file);
  if std::fs::write(&tmp, json!({"port": port, "pid": std::process::id(), "workers": workers}).to_string()).is_err() || std::fs::rename(&tmp, &ready_file).is_err() {
    return json!({"harness_error": "cannot write ready file"});
  }
  let parent = std::os::unix::process::parent_id();
  let stopped;
  loop {
    if std::path::Path::new(&stop_file).exists() {
      stopped = "stop-file";
      break;
    }
    if ended.load(Ordering::SeqCst) {
      stopped = "server-ended";
      break;
    }
    if t0.elapsed() > Duration::from_secs(max_seconds) {
      stopped = "deadline";
      break;
    }
    if std::os::unix::process::parent_id() != parent {
      // the supervisor went away: do not leave a service behind
      std::process::exit(0);
    }
    std::thread::sleep(Duration::from_millis(25));
  }
  let panics = PANICS.lock().map(|g| g.clone()).unwrap_or_default();
  let server_result = result.lock().ok().and_then(|g| g.clone());
  json!({"port": port, "stopped": stopped, "server_result": server_result, "panics": panics, "workers": workers})
}
