//! dmntk-verif-driver: thin, line-oriented executor of verification cases against the real
//! dmntk crates built from /repo's working tree (see /verif/DESIGN.md §1).
//!
//! Protocol: `--in <cases.jsonl> --out <results.jsonl> [--skip N]`. One JSON object per input
//! line; exactly one JSON object per result line, flushed before the next case starts, so that
//! when the process dies the culprit is the first case without a result.
//! The code under test runs inside `catch_unwind` on a thread with an explicit 8 MiB stack.

mod ops_feel;
mod ops_model;
mod ops_num;
mod ops_recog;
mod ops_serve;
mod ops_temporal;
mod ops_threads;
mod ops_types;
mod ops_ws;
mod vj;

use serde_json::{json, Value as J};
use std::io::{BufRead, BufReader, BufWriter, Write};
use std::sync::Mutex;

pub static LAST_PANIC: Mutex<Option<J>> = Mutex::new(None);

fn install_panic_hook() {
  std::panic::set_hook(Box::new(|info| {
    let msg = if let Some(s) = info.payload().downcast_ref::<&str>() {
      s.to_string()
    } else if let Some(s) = info.payload().downcast_ref::<String>() {
      s.clone()
    } else {
      "<non-string panic payload>".to_string()
    };
    let loc = info.location().map(|l| format!("{}:{}", l.file(), l.line())).unwrap_or_default();
    let bt = std::backtrace::Backtrace::force_capture().to_string();
    // first frame that belongs to a dmntk crate (not this driver)
    let mut frame = String::new();
    let mut frames = vec![];
    for line in bt.lines() {
      let t = line.trim();
      if let Some(pos) = t.find(": ") {
        let f = &t[pos + 2..];
        if (f.contains("dmntk_") || f.starts_with("<dmntk_")) && !f.contains("dmntk_verif_driver") {
          if frame.is_empty() {
            frame = f.to_string();
          }
          if frames.len() < 6 {
            frames.push(f.to_string());
          }
        }
      }
    }
    let thread = std::thread::current().name().unwrap_or("").to_string();
    let rec = json!({"msg": msg, "loc": loc, "frame": frame, "frames": frames, "thread": thread});
    if let Ok(mut g) = LAST_PANIC.lock() {
      if g.is_none() {
        *g = Some(rec);
      }
    }
  }));
}

fn dispatch(case: &J) -> J {
  let op = case.get("op").and_then(|v| v.as_str()).unwrap_or("");
  match op {
    "ping" => json!({"pong": true}),
    "eval" => ops_feel::op_eval(case),
    "evalmany" => ops_feel::op_evalmany(case),
    "parse" => ops_feel::op_parse(case),
    "name" => ops_feel::op_name(case),
    "history" => ops_feel::op_history(case),
    "scopehist" => ops_feel::op_scopehist(case),
    "num" => ops_num::op_num(case),
    "numtext" => ops_num::op_numtext(case),
    "numsweep" => ops_num::op_numsweep(case),
    "model" => ops_model::op_model(case),
    "dtext" => ops_recog::op_dtext(case),
    "recog" => ops_recog::op_recog(case),
    "modelhist" => ops_model::op_modelhist(case),
    "types" => ops_types::op_types(case),
    "coerce" => ops_types::op_coerce(case),
    "ws" => ops_ws::op_ws(case),
    "wsbfs" => ops_ws::op_wsbfs(case),
    "temporal" => ops_temporal::op_temporal(case),
    "datesweep" => ops_temporal::op_datesweep(case),
    "zones" => ops_temporal::op_zones(case),
    "threads" => ops_threads::op_threads(case),
    "serve" => ops_serve::op_serve(case),
    "selftest_panic" => {
      let v: Vec<u8> = vec![];
      let i = case.get("i").and_then(|v| v.as_u64()).unwrap_or(3) as usize;
      json!({"x": v[i]})
    }
    "selftest_overflow" => {
      fn rec(n: u64) -> u64 {
        let a = [n; 64];
        if n == 0 {
          0
        } else {
          rec(n - 1) + a[(n % 64) as usize]
        }
      }
      json!({"x": rec(100_000_000)})
    }
    "selftest_hang" => loop {
      std::thread::sleep(std::time::Duration::from_secs(1));
    },
    _ => json!({"harness_error": format!("unknown op '{}'", op)}),
  }
}

fn worker(input: String, output: String, skip: usize) {
  let fin = BufReader::new(std::fs::File::open(&input).expect("cannot open input"));
  let fout = std::fs::OpenOptions::new().create(true).append(true).open(&output).expect("cannot open output");
  let mut out = BufWriter::new(fout);
  for (index, line) in fin.lines().enumerate() {
    if index < skip {
      continue;
    }
    let line = line.expect("read error");
    if line.trim().is_empty() {
      continue;
    }
    let case: J = match serde_json::from_str(&line) {
      Ok(c) => c,
      Err(e) => {
        writeln!(out, "{}", json!({"i": index, "harness_error": format!("bad case json: {}", e)})).unwrap();
        out.flush().unwrap();
        continue;
      }
    };
    if let Ok(mut g) = LAST_PANIC.lock() {
      *g = None;
    }
    let result = std::panic::catch_unwind(std::panic::AssertUnwindSafe(|| dispatch(&case)));
    let mut rec = match result {
      Ok(v) => v,
      Err(_) => {
        let p = LAST_PANIC.lock().ok().and_then(|mut g| g.take()).unwrap_or(json!({"msg": "<unknown>"}));
        json!({"panic": p})
      }
    };
    if let J::Object(ref mut m) = rec {
      m.insert("i".to_string(), json!(index));
      if let Some(id) = case.get("id") {
        m.insert("id".to_string(), id.clone());
      }
    }
    writeln!(out, "{}", rec).unwrap();
    out.flush().unwrap();
  }
  writeln!(out, "{}", json!({"eof": true})).unwrap();
  out.flush().unwrap();
}

fn main() {
  let args: Vec<String> = std::env::args().collect();
  let mut input = String::new();
  let mut output = String::new();
  let mut skip = 0usize;
  let mut stack_mib = 8usize;
  let mut i = 1;
  while i < args.len() {
    match args[i].as_str() {
      "--in" => {
        input = args[i + 1].clone();
        i += 1;
      }
      "--out" => {
        output = args[i + 1].clone();
        i += 1;
      }
      "--skip" => {
        skip = args[i + 1].parse().unwrap();
        i += 1;
      }
      "--stack-mib" => {
        stack_mib = args[i + 1].parse().unwrap();
        i += 1;
      }
      _ => {}
    }
    i += 1;
  }
  if input.is_empty() || output.is_empty() {
    eprintln!("usage: dmntk-verif-driver --in cases.jsonl --out results.jsonl [--skip N]");
    std::process::exit(2);
  }
  install_panic_hook();
  let handle = std::thread::Builder::new()
    .name("verif-worker".to_string())
    .stack_size(stack_mib * 1024 * 1024)
    .spawn(move || worker(input, output, skip))
    .expect("cannot spawn worker");
  if handle.join().is_err() {
    std::process::exit(101);
  }
}
