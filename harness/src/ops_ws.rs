//! Workspace operations (C17): histories of add / replace / remove / clear / deploy executed on a
//! real `dmntk_workspace::Workspace::new(None)`, observed after every operation through the
//! `verif_snapshot` hook and through behavioural probes (`evaluate_invocable`).
//!
//! The driver only executes and observes; every judgement is made by the Python reference model
//! (lib/wsmodel.py). The only predicate computed here is the purely structural
//! "snapshot is self-consistent" flag used to stop the breadth-first walk from expanding states in
//! which the indexes no longer describe the list (the oracle recomputes it independently).
//!
//! Case fields shared by all modes:
//!   models : [{"id":..,"xml":..}]                       model alphabet (parsed once, cloned per use)
//!   probes : [[model_name, invocable_name], ..]          behavioural probes, empty input context
//! Operation encoding: ["add",k] | ["replace",k] | ["remove",ns,name] | ["clear"] | ["deploy"].
//! Observation after a step:
//!   {"r": null | "<error text>", "s": [[[ns,name]..],[ns keys],[name keys],[evaluator keys]],
//!    "p": [{"ok": "<value text>"} | {"err": "<text>"} ..]}     or {"panic": {...}}
//!
//! op "ws", mode "history" (default): {"history":[op..]}            -> {"models":[..], "steps":[obs..]}
//! op "ws", mode "batch": {"ops":[op..], "histories":[[idx..]..]} -> {"models":[..], "otab":[obs..], "runs":[[obs_id..]..]}
//!        (observations interned in `otab`; a run shorter than its history ended in a panic observation)
//! op "ws", mode "enum": {"ops":[op..], "prefix":[idx..], "depth":d} -> {"models":[..], "otab":[obs..],
//!        "prefix_steps":[obs_id..], "nodes":[ext_len, op_idx, obs_id, ext_len, op_idx, obs_id, ..]}  every extension of
//!        the prefix by 1..d operations in depth-first pre-order; each node is observed on a FRESH workspace
//!        by replaying prefix+extension.
//! op "wsbfs": {"ops":[op..], "max_states":N, "expand_inconsistent":bool} -> {"models":[..], "states":[{"h":[idx..],
//!        "s":..,"p":..,"t":[probe results after an additional deploy],"consistent":bool,"expanded":bool}],
//!        "trans":[[from,op_idx,r,to]..], "closed":bool}

use dmntk_feel::context::FeelContext;
use dmntk_model::model::{Definitions, NamedElement};
use dmntk_workspace::Workspace;
use serde_json::{json, Value as J};
use std::collections::{HashMap, HashSet, VecDeque};
use std::panic::{catch_unwind, AssertUnwindSafe};

fn take_panic() -> J {
  crate::LAST_PANIC.lock().ok().and_then(|mut g| g.take()).unwrap_or(json!({"msg": "<unknown>"}))
}

#[derive(Clone)]
enum Op {
  Add(usize),
  Replace(usize),
  Remove(String, String),
  Clear,
  Deploy,
}

struct Alphabet {
  defs: Vec<Definitions>,
  info: Vec<J>,
  probes: Vec<(String, String)>,
}

fn parse_op(j: &J, n_models: usize) -> Result<Op, String> {
  let a = j.as_array().ok_or("operation is not an array")?;
  let kind = a.get(0).and_then(|v| v.as_str()).unwrap_or("");
  let idx = |k: usize| -> Result<usize, String> {
    let i = a.get(k).and_then(|v| v.as_u64()).ok_or("missing model index")? as usize;
    if i < n_models {
      Ok(i)
    } else {
      Err(format!("model index {} out of range", i))
    }
  };
  let s = |k: usize| -> Result<String, String> { a.get(k).and_then(|v| v.as_str()).map(|x| x.to_string()).ok_or_else(|| "missing string operand".to_string()) };
  match kind {
    "add" => Ok(Op::Add(idx(1)?)),
    "replace" => Ok(Op::Replace(idx(1)?)),
    "remove" => Ok(Op::Remove(s(1)?, s(2)?)),
    "clear" => Ok(Op::Clear),
    "deploy" => Ok(Op::Deploy),
    other => Err(format!("unknown workspace operation '{}'", other)),
  }
}

fn parse_ops(j: Option<&J>, n_models: usize) -> Result<Vec<Op>, String> {
  let mut out = vec![];
  if let Some(J::Array(items)) = j {
    for item in items {
      out.push(parse_op(item, n_models)?);
    }
  }
  Ok(out)
}

fn load_alphabet(case: &J) -> Result<Alphabet, String> {
  let mut defs = vec![];
  let mut info = vec![];
  let empty = vec![];
  for m in case.get("models").and_then(|v| v.as_array()).unwrap_or(&empty) {
    let id = m.get("id").and_then(|v| v.as_str()).unwrap_or("");
    let xml = m.get("xml").and_then(|v| v.as_str()).ok_or("model without xml")?;
    let d = match catch_unwind(|| dmntk_model::parse(xml)) {
      Ok(Ok(d)) => d,
      Ok(Err(e)) => return Err(format!("model {} of the alphabet does not parse: {}", id, e)),
      Err(_) => return Err(format!("model {} of the alphabet panics in parse: {}", id, take_panic())),
    };
    let built = catch_unwind(AssertUnwindSafe(|| dmntk_model_evaluator::ModelEvaluator::new(&d)));
    let (builds, build_err) = match built {
      Ok(Ok(_)) => (true, J::Null),
      Ok(Err(e)) => (false, json!(e.to_string())),
      Err(_) => (false, json!({ "panic": take_panic() })),
    };
    info.push(json!({"id": id, "ns": d.namespace(), "name": d.name(), "builds": builds, "build_err": build_err}));
    defs.push(d);
  }
  let mut probes = vec![];
  for p in case.get("probes").and_then(|v| v.as_array()).unwrap_or(&empty) {
    let m = p.get(0).and_then(|v| v.as_str()).ok_or("bad probe")?;
    let i = p.get(1).and_then(|v| v.as_str()).ok_or("bad probe")?;
    probes.push((m.to_string(), i.to_string()));
  }
  Ok(Alphabet { defs, info, probes })
}

/// Applies one operation; Ok(None) = operation returned Ok / unit, Ok(Some(text)) = operation
/// returned Err(text), Err(panic record) = operation panicked.
fn apply(ws: &mut Workspace, alphabet: &Alphabet, op: &Op) -> Result<Option<String>, J> {
  let r = catch_unwind(AssertUnwindSafe(|| match op {
    Op::Add(k) => ws.add(alphabet.defs[*k].clone()).err().map(|e| e.to_string()),
    Op::Replace(k) => ws.replace(alphabet.defs[*k].clone()).err().map(|e| e.to_string()),
    Op::Remove(ns, name) => {
      ws.remove(ns, name);
      None
    }
    Op::Clear => {
      ws.clear();
      None
    }
    Op::Deploy => ws.deploy().err().map(|e| e.to_string()),
  }));
  r.map_err(|_| take_panic())
}

fn probe(ws: &Workspace, alphabet: &Alphabet) -> Result<J, J> {
  let ctx = FeelContext::default();
  let mut out = vec![];
  for (m, i) in &alphabet.probes {
    match catch_unwind(AssertUnwindSafe(|| ws.evaluate_invocable(m, i, &ctx))) {
      Ok(Ok(v)) => out.push(json!({"ok": v.to_string()})),
      Ok(Err(e)) => out.push(json!({"err": e.to_string()})),
      Err(_) => return Err(take_panic()),
    }
  }
  Ok(J::Array(out))
}

type Snap = (Vec<(String, String)>, Vec<String>, Vec<String>, Vec<String>);

fn snap_json(s: &Snap) -> J {
  json!([s.0.iter().map(|(a, b)| json!([a, b])).collect::<Vec<J>>(), s.1, s.2, s.3])
}

/// Pure structural predicate on a snapshot: the two indexes have exactly the namespaces / names of
/// the list and the list repeats none. Used ONLY to decide whether the walk expands a state.
fn consistent(s: &Snap) -> bool {
  let mut ns: Vec<String> = s.0.iter().map(|d| d.0.clone()).collect();
  let mut names: Vec<String> = s.0.iter().map(|d| d.1.clone()).collect();
  ns.sort();
  names.sort();
  let unique = |v: &Vec<String>| v.windows(2).all(|w| w[0] != w[1]);
  unique(&ns) && unique(&names) && ns == s.1 && names == s.2
}

fn observe(ws: &Workspace, alphabet: &Alphabet, r: &Option<String>) -> J {
  let snap = ws.verif_snapshot();
  match probe(ws, alphabet) {
    Ok(p) => json!({"r": r, "s": snap_json(&snap), "p": p}),
    Err(panic) => json!({"r": r, "s": snap_json(&snap), "panic": panic, "stage": "probe"}),
  }
}

/// Replays `ops` on a fresh workspace; returns the observation after every step (stops at a panic).
fn run_history(alphabet: &Alphabet, ops: &[&Op]) -> (Workspace, Vec<J>, bool) {
  let mut ws = Workspace::new(None);
  let mut steps = vec![];
  for op in ops {
    match apply(&mut ws, alphabet, op) {
      Ok(r) => {
        let o = observe(&ws, alphabet, &r);
        let dead = o.get("panic").is_some();
        steps.push(o);
        if dead {
          return (ws, steps, false);
        }
      }
      Err(p) => {
        steps.push(json!({"panic": p, "stage": "op"}));
        return (ws, steps, false);
      }
    }
  }
  (ws, steps, true)
}

#[derive(Default)]
struct Interner {
  ids: HashMap<String, usize>,
  tab: Vec<J>,
}

impl Interner {
  fn put(&mut self, obs: J) -> usize {
    let key = obs.to_string();
    if let Some(id) = self.ids.get(&key) {
      return *id;
    }
    let id = self.tab.len();
    self.ids.insert(key, id);
    self.tab.push(obs);
    id
  }
}

pub fn op_ws(case: &J) -> J {
  let alphabet = match load_alphabet(case) {
    Ok(a) => a,
    Err(e) => return json!({ "harness_error": e }),
  };
  let n = alphabet.defs.len();
  match case.get("mode").and_then(|v| v.as_str()).unwrap_or("history") {
    "history" => {
      let ops = match parse_ops(case.get("history"), n) {
        Ok(o) => o,
        Err(e) => return json!({ "harness_error": e }),
      };
      let refs: Vec<&Op> = ops.iter().collect();
      let (_, steps, _) = run_history(&alphabet, &refs);
      json!({"models": alphabet.info, "steps": steps})
    }
    "batch" => {
      let ops = match parse_ops(case.get("ops"), n) {
        Ok(o) => o,
        Err(e) => return json!({ "harness_error": e }),
      };
      let empty = vec![];
      let mut tab = Interner::default();
      let mut runs: Vec<Vec<usize>> = vec![];
      for h in case.get("histories").and_then(|v| v.as_array()).unwrap_or(&empty) {
        let mut refs: Vec<&Op> = vec![];
        for k in h.as_array().unwrap_or(&empty) {
          match k.as_u64() {
            Some(k) if (k as usize) < ops.len() => refs.push(&ops[k as usize]),
            _ => return json!({"harness_error": "bad history index"}),
          }
        }
        let (_, steps, _) = run_history(&alphabet, &refs);
        runs.push(steps.into_iter().map(|o| tab.put(o)).collect());
      }
      json!({"models": alphabet.info, "otab": tab.tab, "runs": runs})
    }
    "enum" => {
      let ops = match parse_ops(case.get("ops"), n) {
        Ok(o) => o,
        Err(e) => return json!({ "harness_error": e }),
      };
      let empty = vec![];
      let mut prefix: Vec<usize> = vec![];
      for p in case.get("prefix").and_then(|v| v.as_array()).unwrap_or(&empty) {
        match p.as_u64() {
          Some(k) if (k as usize) < ops.len() => prefix.push(k as usize),
          _ => return json!({"harness_error": "bad prefix index"}),
        }
      }
      let depth = case.get("depth").and_then(|v| v.as_u64()).unwrap_or(1) as usize;
      let prefix_ops: Vec<&Op> = prefix.iter().map(|k| &ops[*k]).collect();
      let (_, prefix_obs, alive) = run_history(&alphabet, &prefix_ops);
      let mut tab = Interner::default();
      let prefix_steps: Vec<usize> = prefix_obs.into_iter().map(|o| tab.put(o)).collect();
      let mut nodes: Vec<usize> = vec![];
      if alive && depth > 0 {
        // depth-first pre-order over all extensions; every node replayed from scratch
        let mut ext: Vec<usize> = vec![0];
        loop {
          // observe current extension
          let mut ws = Workspace::new(None);
          let mut dead = false;
          for k in prefix.iter().chain(ext[..ext.len() - 1].iter()) {
            if apply(&mut ws, &alphabet, &ops[*k]).is_err() {
              dead = true;
              break;
            }
          }
          let last = *ext.last().unwrap();
          let obs = if dead {
            json!({"panic": {"msg": "replay of an already observed prefix panicked"}, "stage": "replay"})
          } else {
            match apply(&mut ws, &alphabet, &ops[last]) {
              Ok(r) => observe(&ws, &alphabet, &r),
              Err(p) => json!({"panic": p, "stage": "op"}),
            }
          };
          let node_dead = obs.get("panic").is_some();
          nodes.push(ext.len());
          nodes.push(last);
          nodes.push(tab.put(obs));
          // advance
          if ext.len() < depth && !node_dead {
            ext.push(0);
          } else {
            loop {
              let l = ext.len() - 1;
              ext[l] += 1;
              if ext[l] < ops.len() {
                break;
              }
              ext.pop();
              if ext.is_empty() {
                break;
              }
            }
            if ext.is_empty() {
              break;
            }
          }
        }
      }
      json!({"models": alphabet.info, "otab": tab.tab, "prefix_steps": prefix_steps, "nodes": nodes})
    }
    other => json!({"harness_error": format!("unknown ws mode '{}'", other)}),
  }
}

pub fn op_wsbfs(case: &J) -> J {
  let alphabet = match load_alphabet(case) {
    Ok(a) => a,
    Err(e) => return json!({ "harness_error": e }),
  };
  let ops = match parse_ops(case.get("ops"), alphabet.defs.len()) {
    Ok(o) => o,
    Err(e) => return json!({ "harness_error": e }),
  };
  let max_states = case.get("max_states").and_then(|v| v.as_u64()).unwrap_or(20000) as usize;
  let expand_inconsistent = case.get("expand_inconsistent").and_then(|v| v.as_bool()).unwrap_or(false);
  // state identity = snapshot + probes + probes after an additional deploy (content of the list)
  let mut ids: HashMap<String, usize> = HashMap::new();
  let mut states: Vec<J> = vec![];
  let mut histories: Vec<Vec<usize>> = vec![];
  let mut trans: Vec<J> = vec![];
  let mut queue: VecDeque<usize> = VecDeque::new();
  let mut expanded: HashSet<usize> = HashSet::new();
  let mut closed = true;

  // observes the state reached by `h` (replayed on a fresh workspace) after applying `extra`
  let reach = |h: &[usize], extra: Option<usize>| -> Result<(Option<String>, J, bool), J> {
    let mut ws = Workspace::new(None);
    for k in h {
      apply(&mut ws, &alphabet, &ops[*k])?;
    }
    let r = match extra {
      Some(k) => apply(&mut ws, &alphabet, &ops[k])?,
      None => None,
    };
    let snap = ws.verif_snapshot();
    let p = probe(&ws, &alphabet)?;
    let ok = consistent(&snap);
    // content of the stored list, made visible by deploying this (throw-away) workspace
    apply(&mut ws, &alphabet, &Op::Deploy)?;
    let t = probe(&ws, &alphabet)?;
    Ok((r, json!({"s": snap_json(&snap), "p": p, "t": t}), ok))
  };

  let mut intern = |obs: J, ok: bool, h: Vec<usize>, states: &mut Vec<J>, histories: &mut Vec<Vec<usize>>, queue: &mut VecDeque<usize>| -> usize {
    let key = obs.to_string();
    if let Some(id) = ids.get(&key) {
      return *id;
    }
    let id = states.len();
    ids.insert(key, id);
    let mut st = obs;
    st["h"] = json!(h);
    st["consistent"] = json!(ok);
    states.push(st);
    histories.push(h);
    queue.push_back(id);
    id
  };

  match reach(&[], None) {
    Ok((_, obs, ok)) => {
      intern(obs, ok, vec![], &mut states, &mut histories, &mut queue);
    }
    Err(p) => return json!({"panic": p, "stage": "initial"}),
  }
  while let Some(id) = queue.pop_front() {
    let ok = states[id]["consistent"].as_bool().unwrap_or(false);
    if !ok && !expand_inconsistent {
      continue;
    }
    if states.len() >= max_states {
      closed = false;
      break;
    }
    expanded.insert(id);
    let h = histories[id].clone();
    for k in 0..ops.len() {
      match reach(&h, Some(k)) {
        Ok((r, obs, ok2)) => {
          let mut h2 = h.clone();
          h2.push(k);
          let to = intern(obs, ok2, h2, &mut states, &mut histories, &mut queue);
          trans.push(json!([id, k, r, to]));
        }
        Err(p) => {
          trans.push(json!([id, k, {"panic": p}, J::Null]));
        }
      }
    }
  }
  for (id, st) in states.iter_mut().enumerate() {
    st["expanded"] = json!(expanded.contains(&id));
  }
  json!({"models": alphabet.info, "states": states, "trans": trans, "closed": closed})
}
