use serde_json::{json, Value as J};
pub fn op_ws(_case: &J) -> J {
  json!({"harness_error": "not implemented"})
}
pub fn op_wsbfs(_case: &J) -> J {
  json!({"harness_error": "not implemented"})
}
