//! DMN model operations: parse -> ModelEvaluator::new -> evaluate_invocable (C03, C04, C11, C12, C13).

use crate::vj;
use dmntk_feel::context::FeelContext;
use dmntk_model::model::NamedElement;
use serde_json::{json, Value as J};

fn take_panic() -> J {
  crate::LAST_PANIC.lock().ok().and_then(|mut g| g.take()).unwrap_or(json!({"msg": "<unknown>"}))
}

/// {op:"model", xml, calls:[[invocable, ctx-entries],...], all:bool, inputs:[ctx-entries,...]}
/// -> {"parse_err"} | {"build_err"} | {"invocables":[..], "rs":[{"name","input":k,"v"} | {"panic"}]}
/// With `all`, every invocable found in the definitions is called with every context of `inputs`.
pub fn op_model(case: &J) -> J {
  let xml = case.get("xml").and_then(|v| v.as_str()).unwrap_or("");
  let definitions = match std::panic::catch_unwind(|| dmntk_model::parse(xml)) {
    Ok(Ok(d)) => d,
    Ok(Err(e)) => return json!({"parse_err": e.to_string()}),
    Err(_) => return json!({"panic": take_panic(), "stage": "parse"}),
  };
  let evaluator = match std::panic::catch_unwind(std::panic::AssertUnwindSafe(|| dmntk_model_evaluator::ModelEvaluator::new(&definitions))) {
    Ok(Ok(e)) => e,
    Ok(Err(e)) => return json!({"build_err": e.to_string()}),
    Err(_) => return json!({"panic": take_panic(), "stage": "build"}),
  };
  let mut invocables: Vec<String> = vec![];
  for d in definitions.decisions() {
    invocables.push(d.name().to_string());
  }
  for b in definitions.business_knowledge_models() {
    invocables.push(b.name().to_string());
  }
  for s in definitions.decision_services() {
    invocables.push(s.name().to_string());
  }
  let empty = vec![];
  let mut calls: Vec<(String, usize, FeelContext)> = vec![];
  let mut input_ctxs: Vec<FeelContext> = vec![];
  for inp in case.get("inputs").and_then(|v| v.as_array()).unwrap_or(&empty) {
    match inp.as_array().map(|a| vj::to_context(a)) {
      Some(Ok(c)) => input_ctxs.push(c),
      Some(Err(e)) => return json!({ "harness_error": e }),
      None => return json!({"harness_error": "bad inputs entry"}),
    }
  }
  if case.get("all").and_then(|v| v.as_bool()).unwrap_or(false) {
    for name in &invocables {
      for (k, c) in input_ctxs.iter().enumerate() {
        calls.push((name.clone(), k, c.clone()));
      }
    }
  }
  for (k, call) in case.get("calls").and_then(|v| v.as_array()).unwrap_or(&empty).iter().enumerate() {
    let name = call.get(0).and_then(|v| v.as_str()).unwrap_or("").to_string();
    let ctx = match call.get(1) {
      Some(J::Array(a)) => match vj::to_context(a) {
        Ok(c) => c,
        Err(e) => return json!({ "harness_error": e }),
      },
      Some(J::Number(n)) => match input_ctxs.get(n.as_u64().unwrap_or(0) as usize) {
        Some(c) => c.clone(),
        None => return json!({"harness_error": "bad input index"}),
      },
      _ => FeelContext::default(),
    };
    calls.push((name, k, ctx));
  }
  let fresh = case.get("fresh").and_then(|v| v.as_bool()).unwrap_or(false);
  let mut rs = vec![];
  for (name, k, ctx) in &calls {
    let before = ctx.to_string();
    let r = std::panic::catch_unwind(std::panic::AssertUnwindSafe(|| evaluator.evaluate_invocable(name, ctx)));
    match r {
      Ok(v) => {
        let mut rec = json!({"name": name, "k": k, "v": vj::from_value(&v)});
        if let Some(m) = vj::null_msg(&v) {
          rec["nm"] = json!(m);
        }
        let after = ctx.to_string();
        if after != before {
          rec["input_changed"] = json!([before, after]);
        }
        if fresh {
          // history independence (C13): the same call on an evaluator built for it alone
          if let Ok(Ok(alone)) = std::panic::catch_unwind(std::panic::AssertUnwindSafe(|| dmntk_model_evaluator::ModelEvaluator::new(&definitions))) {
            if let Ok(w) = std::panic::catch_unwind(std::panic::AssertUnwindSafe(|| alone.evaluate_invocable(name, ctx))) {
              if vj::from_value(&w) != rec["v"] {
                rec["fresh_diff"] = json!({"after_other_calls": rec["v"].clone(), "alone": vj::from_value(&w)});
              }
            }
          }
        }
        rs.push(rec);
      }
      Err(_) => rs.push(json!({"name": name, "k": k, "panic": take_panic()})),
    }
  }
  #[cfg(dmntk_verif)]
  let poisoned = evaluator.verif_poisoned().iter().any(|b| *b);
  #[cfg(not(dmntk_verif))]
  let poisoned = false;
  json!({"invocables": invocables, "rs": rs, "poisoned": poisoned})
}

pub fn op_modelhist(case: &J) -> J {
  op_model(case)
}
