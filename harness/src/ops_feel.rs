//! FEEL parser / evaluator operations with the purity monitor (scope snapshot before / after
//! parse / after evaluate) always on.

use crate::vj;
use dmntk_feel::values::Value;
use dmntk_feel::{AstNode, Evaluator, Scope};
use serde_json::{json, Value as J};

fn s<'a>(case: &'a J, key: &str) -> Option<&'a str> {
  case.get(key).and_then(|v| v.as_str())
}

pub fn parse_entry(scope: &Scope, entry: &str, text: &str, input: Option<&str>) -> Result<AstNode, String> {
  let r = match entry {
    "expr" => dmntk_feel_parser::parse_expression(scope, text, false),
    "textual" => dmntk_feel_parser::parse_textual_expression(scope, text, false),
    "textuals" => dmntk_feel_parser::parse_textual_expressions(scope, text, false),
    "boxed" => dmntk_feel_parser::parse_boxed_expression(scope, text, false),
    "context" => dmntk_feel_parser::parse_context(scope, text, false),
    "unary" => dmntk_feel_parser::parse_unary_tests(scope, text, false),
    other => return Err(format!("harness: unknown entry {}", other)),
  };
  let node = r.map_err(|e| e.to_string())?;
  if entry == "unary" {
    if let Some(input_text) = input {
      let input_node = dmntk_feel_parser::parse_expression(scope, input_text, false).map_err(|e| e.to_string())?;
      return Ok(AstNode::In(Box::new(input_node), Box::new(node)));
    }
  }
  Ok(node)
}

/// Parses and evaluates one text in the given scope; catches panics itself so that one text of a
/// batch cannot hide the others.
fn eval_one(scope: &Scope, entry: &str, text: &str, input: Option<&str>, reps: usize, want_ast: bool, warm: Option<&Scope>) -> J {
  let r = std::panic::catch_unwind(std::panic::AssertUnwindSafe(|| eval_one_inner(scope, entry, text, input, reps, want_ast, warm)));
  match r {
    Ok(j) => j,
    Err(_) => {
      let p = crate::LAST_PANIC.lock().ok().and_then(|mut g| g.take()).unwrap_or(json!({"msg": "<unknown>"}));
      json!({ "panic": p })
    }
  }
}

thread_local! {
  /// scope of another SHAPE (context-valued names bound to null, lists of contexts to []) under which every text is parsed
  /// once before it is parsed under its own scope: a parse must depend on the text and on the scope it is given, not on
  /// what the same text meant under another scope earlier
  static PREPARSE: std::cell::RefCell<Option<Scope>> = std::cell::RefCell::new(None);
}

fn eval_one_inner(scope: &Scope, entry: &str, text: &str, input: Option<&str>, reps: usize, want_ast: bool, warm: Option<&Scope>) -> J {
  PREPARSE.with(|p| {
    if let Some(pre) = p.borrow().as_ref() {
      let _ = std::panic::catch_unwind(std::panic::AssertUnwindSafe(|| parse_entry(pre, entry, text, input).is_ok()));
      let _ = crate::LAST_PANIC.lock().ok().and_then(|mut g| g.take());
    }
  });
  let s0 = scope.to_string();
  let node = match parse_entry(scope, entry, text, input) {
    Ok(n) => n,
    Err(e) => {
      return json!({ "perr": e });
    }
  };
  let s1 = scope.to_string();
  let mut out = serde_json::Map::new();
  if want_ast {
    out.insert("ast".to_string(), json!(format!("{:?}", node)));
  }
  if s1 != s0 {
    out.insert("impure_parse".to_string(), json!([s0, s1]));
  }
  let evaluator: Evaluator = match dmntk_feel_evaluator::prepare(&node) {
    Ok(e) => e,
    Err(e) => {
      out.insert("berr".to_string(), json!(e.to_string()));
      return J::Object(out);
    }
  };
  // `warm`: the prepared evaluator is used once before, over a scope that binds the same names to OTHER values; the
  // evaluation that is judged is then its second use (what an evaluator remembers from its first use shows up here)
  if let Some(w) = warm {
    let _ = std::panic::catch_unwind(std::panic::AssertUnwindSafe(|| evaluator(w)));
    let _ = crate::LAST_PANIC.lock().ok().and_then(|mut g| g.take());
  }
  let v: Value = evaluator(scope);
  let s2 = scope.to_string();
  if s2 != s1 {
    out.insert("impure_eval".to_string(), json!([s1, s2]));
  }
  let vjson = vj::from_value(&v);
  if let Some(m) = vj::null_msg(&v) {
    out.insert("nm".to_string(), json!(m));
  }
  // repeated evaluation of the same prepared evaluator: must give the same value
  for k in 1..reps {
    let vk = evaluator(scope);
    let jk = vj::from_value(&vk);
    if jk != vjson {
      out.insert("rep_diff".to_string(), json!({"k": k, "first": vjson.clone(), "later": jk}));
      break;
    }
    let sk = scope.to_string();
    if sk != s1 {
      out.insert("impure_eval".to_string(), json!([s1, sk]));
      break;
    }
  }
  out.insert("v".to_string(), vjson);
  J::Object(out)
}

/// {op:"eval", scope, entry, text, input?, reps?, ast?}
pub fn op_eval(case: &J) -> J {
  let scope = match vj::to_scope(case.get("scope")) {
    Ok(s) => s,
    Err(e) => return json!({ "harness_error": e }),
  };
  let entry = s(case, "entry").unwrap_or("expr");
  let text = s(case, "text").unwrap_or("");
  let reps = case.get("reps").and_then(|v| v.as_u64()).unwrap_or(1) as usize;
  let want_ast = case.get("ast").and_then(|v| v.as_bool()).unwrap_or(false);
  let warm = case.get("warm_scope").and_then(|w| vj::to_scope(Some(w)).ok());
  PREPARSE.with(|p| *p.borrow_mut() = case.get("preparse_scope").and_then(|w| vj::to_scope(Some(w)).ok()));
  let r = eval_one_inner(&scope, entry, text, s(case, "input"), reps, want_ast, warm.as_ref());
  PREPARSE.with(|p| *p.borrow_mut() = None);
  r
}

/// {op:"evalmany", scope, entry, texts:[...], reps?}: a fresh scope per text (so a leak cannot
/// propagate), results in order.
pub fn op_evalmany(case: &J) -> J {
  let entry = s(case, "entry").unwrap_or("expr");
  let reps = case.get("reps").and_then(|v| v.as_u64()).unwrap_or(1) as usize;
  let want_ast = case.get("ast").and_then(|v| v.as_bool()).unwrap_or(false);
  let fresh = case.get("fresh").and_then(|v| v.as_bool()).unwrap_or(false);
  let mut rs = vec![];
  let empty = vec![];
  let texts = case.get("texts").and_then(|v| v.as_array()).unwrap_or(&empty);
  let mut scope = match vj::to_scope(case.get("scope")) {
    Ok(s) => s,
    Err(e) => return json!({ "harness_error": e }),
  };
  let mut warm = case.get("warm_scope").and_then(|w| vj::to_scope(Some(w)).ok());
  PREPARSE.with(|p| *p.borrow_mut() = case.get("preparse_scope").and_then(|w| vj::to_scope(Some(w)).ok()));
  for t in texts {
    let (text, input) = match t {
      J::String(s) => (s.as_str(), None),
      J::Array(a) if a.len() == 2 => (a[1].as_str().unwrap_or(""), a[0].as_str()),
      _ => ("", None),
    };
    let r = eval_one(&scope, entry, text, input, reps, want_ast, warm.as_ref());
    let dirty = r.get("impure_parse").is_some() || r.get("impure_eval").is_some() || r.get("panic").is_some();
    rs.push(r);
    if fresh || dirty {
      scope = vj::to_scope(case.get("scope")).unwrap();
      warm = case.get("warm_scope").and_then(|w| vj::to_scope(Some(w)).ok());
    }
  }
  PREPARSE.with(|p| *p.borrow_mut() = None);
  json!({ "rs": rs })
}

/// {op:"parse", scope, entry, texts:[...]} -> {"asts":[ "<Debug>" | {"err":..} | {"panic":..} ]}
pub fn op_parse(case: &J) -> J {
  let entry = s(case, "entry").unwrap_or("expr");
  let empty = vec![];
  let texts = case.get("texts").and_then(|v| v.as_array()).unwrap_or(&empty);
  let mut asts = vec![];
  let mut impure = vec![];
  for t in texts {
    let text = t.as_str().unwrap_or("");
    let scope = match vj::to_scope(case.get("scope")) {
      Ok(s) => s,
      Err(e) => return json!({ "harness_error": e }),
    };
    // `preparse_scope`: the same text is parsed once before under a scope of another shape (see PREPARSE above)
    if let Some(Ok(pre)) = case.get("preparse_scope").map(|w| vj::to_scope(Some(w))) {
      let _ = std::panic::catch_unwind(std::panic::AssertUnwindSafe(|| parse_entry(&pre, entry, text, None).is_ok()));
      let _ = crate::LAST_PANIC.lock().ok().and_then(|mut g| g.take());
    }
    let s0 = scope.to_string();
    let r = std::panic::catch_unwind(std::panic::AssertUnwindSafe(|| parse_entry(&scope, entry, text, None)));
    match r {
      Ok(Ok(node)) => {
        let s1 = scope.to_string();
        if s1 != s0 {
          impure.push(json!([text, s0, s1]));
        }
        asts.push(json!(format!("{:?}", node)));
      }
      Ok(Err(e)) => asts.push(json!({ "err": e })),
      Err(_) => {
        let p = crate::LAST_PANIC.lock().ok().and_then(|mut g| g.take()).unwrap_or(json!({"msg": "<unknown>"}));
        asts.push(json!({ "panic": p }));
      }
    }
  }
  let mut out = json!({ "asts": asts });
  if !impure.is_empty() {
    out["impure_parse"] = json!(impure);
  }
  out
}

/// {op:"name", scope, texts:[...], longest:bool}
pub fn op_name(case: &J) -> J {
  let longest = case.get("longest").and_then(|v| v.as_bool()).unwrap_or(false);
  let empty = vec![];
  let texts = case.get("texts").and_then(|v| v.as_array()).unwrap_or(&empty);
  let mut rs = vec![];
  for t in texts {
    let text = t.as_str().unwrap_or("");
    let scope = match vj::to_scope(case.get("scope")) {
      Ok(s) => s,
      Err(e) => return json!({ "harness_error": e }),
    };
    let r = std::panic::catch_unwind(std::panic::AssertUnwindSafe(|| {
      if longest {
        dmntk_feel_parser::parse_longest_name(text)
      } else {
        dmntk_feel_parser::parse_name(&scope, text, false)
      }
    }));
    match r {
      Ok(Ok(name)) => rs.push(json!({"name": name.to_string()})),
      Ok(Err(e)) => rs.push(json!({"err": e.to_string()})),
      Err(_) => {
        let p = crate::LAST_PANIC.lock().ok().and_then(|mut g| g.take()).unwrap_or(json!({"msg": "<unknown>"}));
        rs.push(json!({ "panic": p }));
      }
    }
  }
  json!({ "rs": rs })
}

/// C13 history monitor.
/// {op:"history", evaluators:[{entry,text,scope_for_parse}], scopes:[scope...], steps:[[e,s],...]}
/// Every evaluator is prepared once (parsed in its own parsing scope); steps evaluate evaluator e
/// over scope s (scopes are long-lived: the same Scope object is reused across steps, so leaks
/// accumulate and become visible). Each observation is compared with the first observation of the
/// same (e, s) pair and the scope rendering with its initial rendering.
pub fn op_history(case: &J) -> J {
  let empty = vec![];
  let evs = case.get("evaluators").and_then(|v| v.as_array()).unwrap_or(&empty);
  let scs = case.get("scopes").and_then(|v| v.as_array()).unwrap_or(&empty);
  let steps = case.get("steps").and_then(|v| v.as_array()).unwrap_or(&empty);
  let mut evaluators: Vec<Option<Evaluator>> = vec![];
  let mut nodes: Vec<Option<dmntk_feel::AstNode>> = vec![];
  let mut prep = vec![];
  for e in evs {
    let pscope = match vj::to_scope(e.get("scope")) {
      Ok(s) => s,
      Err(e) => return json!({ "harness_error": e }),
    };
    let entry = s(e, "entry").unwrap_or("expr");
    let text = s(e, "text").unwrap_or("");
    let p0 = pscope.to_string();
    match parse_entry(&pscope, entry, text, s(e, "input")) {
      Ok(node) => {
        let p1 = pscope.to_string();
        if p0 != p1 {
          prep.push(json!({"impure_parse": [text, p0, p1]}));
        }
        match dmntk_feel_evaluator::prepare(&node) {
          Ok(ev) => {
            evaluators.push(Some(ev));
            nodes.push(Some(node));
            prep.push(json!("ok"));
          }
          Err(er) => {
            evaluators.push(None);
            nodes.push(None);
            prep.push(json!({"berr": er.to_string()}));
          }
        }
      }
      Err(er) => {
        evaluators.push(None);
        nodes.push(None);
        prep.push(json!({ "perr": er }));
      }
    }
  }
  let mut scopes = vec![];
  let mut initial = vec![];
  for sc in scs {
    match vj::to_scope(Some(sc)) {
      Ok(s) => {
        initial.push(s.to_string());
        scopes.push(s);
      }
      Err(e) => return json!({ "harness_error": e }),
    }
  }
  let mut first: std::collections::BTreeMap<(usize, usize), J> = std::collections::BTreeMap::new();
  let mut violations = vec![];
  let mut observations = 0usize;
  let mut repeats = 0usize;
  for (k, st) in steps.iter().enumerate() {
    let e = st.get(0).and_then(|v| v.as_u64()).unwrap_or(0) as usize;
    let sidx = st.get(1).and_then(|v| v.as_u64()).unwrap_or(0) as usize;
    if e >= evaluators.len() || sidx >= scopes.len() {
      continue;
    }
    if let Some(ev) = &evaluators[e] {
      let v = vj::from_value(&ev(&scopes[sidx]));
      observations += 1;
      let after = scopes[sidx].to_string();
      if after != initial[sidx] {
        violations.push(json!({"kind": "scope_changed", "step": k, "e": e, "s": sidx, "before": initial[sidx], "after": after}));
        // re-create the scope so that the history can go on
        scopes[sidx] = vj::to_scope(Some(&scs[sidx])).unwrap();
      }
      match first.get(&(e, sidx)) {
        None => {
          // the same evaluation made ALONE: an evaluator prepared for this one call over a fresh copy of the scope
          if let (Some(node), Ok(fresh_scope)) = (&nodes[e], vj::to_scope(Some(&scs[sidx]))) {
            if let Ok(fresh) = dmntk_feel_evaluator::prepare(node) {
              let alone = vj::from_value(&fresh(&fresh_scope));
              if alone != v {
                violations.push(json!({"kind": "differs_from_evaluation_alone", "step": k, "e": e, "s": sidx, "alone": alone, "after_other_evaluations": v}));
              }
            }
          }
          first.insert((e, sidx), v);
        }
        Some(f) => {
          repeats += 1;
          if *f != v {
            violations.push(json!({"kind": "not_repeatable", "step": k, "e": e, "s": sidx, "first": f, "later": v}));
          }
        }
      }
    }
  }
  let firsts: Vec<J> = first.iter().map(|((e, s), v)| json!([e, s, v])).collect();
  json!({"prep": prep, "observations": observations, "repeats": repeats, "violations": violations, "firsts": firsts})
}

/// {op:"scopehist", scope, steps:[ {"set":[[name, value],..]} | {"text":"..", "entry"?} ]}: ONE scope object lives through
/// the whole history; `set` re-binds names in its top context (Scope::set_entry), `text` parses and evaluates over it.
/// -> {"rs":[ null (for set) | {"v"|"perr"|"berr"|"panic", "impure_parse"?, "impure_eval"?} ]}
pub fn op_scopehist(case: &J) -> J {
  let scope = match vj::to_scope(case.get("scope")) {
    Ok(s) => s,
    Err(e) => return json!({ "harness_error": e }),
  };
  let empty = vec![];
  let mut rs = vec![];
  let alone = case.get("alone").and_then(|v| v.as_bool()).unwrap_or(false);
  let mut sets_so_far: Vec<(J, J)> = vec![];
  for st in case.get("steps").and_then(|v| v.as_array()).unwrap_or(&empty) {
    if let Some(sets) = st.get("set").and_then(|v| v.as_array()) {
      for pair in sets {
        if let J::Array(p) = pair {
          if p.len() == 2 {
            sets_so_far.push((p[0].clone(), p[1].clone()));
            match vj::to_value(&p[1]) {
              Ok(v) => scope.set_entry(&vj::name_from_json(&p[0]), v),
              Err(e) => return json!({ "harness_error": e }),
            }
            continue;
          }
        }
        return json!({"harness_error": "bad set step"});
      }
      rs.push(J::Null);
    } else if let Some(text) = st.get("text").and_then(|v| v.as_str()) {
      let parse_only = st.get("parse_only").and_then(|v| v.as_bool()).unwrap_or(false);
      let run = move |sc: &Scope, entry: &str, text: &str| -> J {
        if parse_only {
          // parsed, not evaluated: nothing is pushed onto the scope between this parse and the next one
          let r = std::panic::catch_unwind(std::panic::AssertUnwindSafe(|| match parse_entry(sc, entry, text, None) {
            Ok(n) => json!({"v": format!("{:?}", n)}),
            Err(e) => json!({ "perr": e }),
          }));
          match r {
            Ok(j) => j,
            Err(_) => json!({"panic": crate::LAST_PANIC.lock().ok().and_then(|mut g| g.take()).unwrap_or(json!({"msg": "<unknown>"}))}),
          }
        } else {
          eval_one(sc, entry, text, None, 1, false, None)
        }
      };
      let mut rec = run(&scope, s(st, "entry").unwrap_or("expr"), text);
      if alone {
        // the same text over a FRESH scope object holding the bindings of this moment (the initial scope + every `set` so far):
        // whatever the long-lived scope object or the thread remembers from earlier parses is not there
        let fresh = match vj::to_scope(case.get("scope")) {
          Ok(s) => s,
          Err(e) => return json!({ "harness_error": e }),
        };
        for (n, v) in &sets_so_far {
          if let Ok(v) = vj::to_value(v) {
            fresh.set_entry(&vj::name_from_json(n), v);
          }
        }
        let text_owned = text.to_string();
        let entry = s(st, "entry").unwrap_or("expr").to_string();
        let other = std::thread::spawn(move || run(&fresh, &entry, &text_owned)).join().unwrap_or(json!({"panic": {"msg": "alone thread died"}}));
        let key = |r: &J| json!([r.get("v"), r.get("perr"), r.get("berr"), r.get("panic").map(|p| p.get("msg").cloned())]);
        if key(&rec) != key(&other) {
          rec["alone_differs"] = other;
        }
      }
      rs.push(rec);
    } else {
      return json!({"harness_error": "bad step"});
    }
  }
  json!({ "rs": rs })
}
