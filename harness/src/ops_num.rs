//! FeelNumber operations observed directly at the public API (C02) and number rendering (C07).

use dmntk_common::Jsonify;
use dmntk_feel_number::FeelNumber;
use serde_json::{json, Value as J};
use std::str::FromStr;

fn dbg(n: &FeelNumber) -> J {
  json!(format!("{:?}", n))
}

fn opt(n: Option<FeelNumber>) -> J {
  match n {
    Some(n) => dbg(&n),
    None => J::Null,
  }
}

fn num_one(f: &str, a: &str, b: &str) -> J {
  let x = match FeelNumber::from_str(a) {
    Ok(x) => x,
    Err(e) => return json!({"harness_error": format!("operand a '{}': {}", a, e)}),
  };
  let unary = matches!(
    f,
    "neg" | "abs" | "floor" | "ceiling" | "sqrt" | "exp" | "ln" | "odd" | "even" | "is_integer" | "trunc" | "fract" | "square" | "show"
  );
  let y = if unary {
    FeelNumber::zero()
  } else {
    match FeelNumber::from_str(b) {
      Ok(y) => y,
      Err(e) => return json!({"harness_error": format!("operand b '{}': {}", b, e)}),
    }
  };
  match f {
    "add" => dbg(&(x + y)),
    "sub" => dbg(&(x - y)),
    "mul" => dbg(&(x * y)),
    "div" => dbg(&(x / y)),
    "rem" => dbg(&(x % y)),
    "pow" => opt(x.pow(&y)),
    "round" => dbg(&x.round(&y)),
    "neg" => dbg(&(-x)),
    "abs" => dbg(&x.abs()),
    "floor" => dbg(&x.floor()),
    "ceiling" => dbg(&x.ceiling()),
    "trunc" => dbg(&x.trunc()),
    "fract" => dbg(&x.fract()),
    "sqrt" => opt(x.sqrt()),
    "square" => opt(x.square()),
    "exp" => dbg(&x.exp()),
    "ln" => opt(x.ln()),
    "odd" => json!(x.odd()),
    "even" => json!(x.even()),
    "is_integer" => json!(x.is_integer()),
    "eq" => json!(x == y),
    "lt" => json!(x < y),
    "le" => json!(x <= y),
    "gt" => json!(x > y),
    "ge" => json!(x >= y),
    "show" => dbg(&x),
    _ => json!({"harness_error": format!("unknown num op {}", f)}),
  }
}

/// {op:"num", items:[[f,a,b],...]} -> {"rs":[...]}
pub fn op_num(case: &J) -> J {
  let empty = vec![];
  let items = case.get("items").and_then(|v| v.as_array()).unwrap_or(&empty);
  let mut rs = vec![];
  for it in items {
    let f = it.get(0).and_then(|v| v.as_str()).unwrap_or("");
    let a = it.get(1).and_then(|v| v.as_str()).unwrap_or("0");
    let b = it.get(2).and_then(|v| v.as_str()).unwrap_or("0");
    let r = std::panic::catch_unwind(|| num_one(f, a, b));
    match r {
      Ok(j) => rs.push(j),
      Err(_) => {
        let p = crate::LAST_PANIC.lock().ok().and_then(|mut g| g.take()).unwrap_or(json!({"msg": "<unknown>"}));
        rs.push(json!({ "panic": p }));
      }
    }
  }
  // `threads: K`: the same items once more from K threads at the same time (each starting at another item); every
  // result must be the one computed alone above (arithmetic must not depend on what other threads compute)
  let k = case.get("threads").and_then(|v| v.as_u64()).unwrap_or(0) as usize;
  if k > 1 {
    let items: std::sync::Arc<Vec<(String, String, String)>> = std::sync::Arc::new(
      items
        .iter()
        .map(|it| {
          (
            it.get(0).and_then(|v| v.as_str()).unwrap_or("").to_string(),
            it.get(1).and_then(|v| v.as_str()).unwrap_or("0").to_string(),
            it.get(2).and_then(|v| v.as_str()).unwrap_or("0").to_string(),
          )
        })
        .collect(),
    );
    let alone: std::sync::Arc<Vec<String>> = std::sync::Arc::new(rs.iter().map(|j| j.to_string()).collect());
    let barrier = std::sync::Arc::new(std::sync::Barrier::new(k));
    let rounds = case.get("rounds").and_then(|v| v.as_u64()).unwrap_or(2) as usize;
    let mut hs = vec![];
    for t in 0..k {
      let (items, alone, barrier) = (items.clone(), alone.clone(), barrier.clone());
      hs.push(std::thread::spawn(move || {
        let mut diffs = vec![];
        let mut checked = 0u64;
        barrier.wait();
        let n = items.len();
        for round in 0..rounds {
          for j in 0..n {
            let i = (j + t * 7 + round) % n;
            if alone[i].contains("\"panic\"") {
              continue;
            }
            let (f, a, b) = &items[i];
            if let Ok(v) = std::panic::catch_unwind(|| num_one(f, a, b)) {
              checked += 1;
              let got = v.to_string();
              if got != alone[i] && diffs.len() < 3 {
                diffs.push(json!({"thread": t, "item": [f, a, b], "alone": alone[i], "concurrent": got}));
              }
            }
          }
        }
        (diffs, checked)
      }));
    }
    let mut par_diffs = vec![];
    let mut par_checked = 0u64;
    for h in hs {
      if let Ok((d, c)) = h.join() {
        par_diffs.extend(d);
        par_checked += c;
      }
    }
    return json!({ "rs": rs, "par_diffs": par_diffs, "par_checked": par_checked });
  }
  json!({ "rs": rs })
}

/// Value of a plain decimal text as (negative, significant digits without leading/trailing zeros,
/// exponent of the last kept digit); None when the text is not of the form -?\d+(\.\d+)?.
pub fn plain_value(text: &str) -> Option<(bool, String, i64)> {
  let (neg, body) = match text.strip_prefix('-') {
    Some(rest) => (true, rest),
    None => (false, text),
  };
  let (int_part, frac_part) = match body.find('.') {
    Some(p) => (&body[..p], &body[p + 1..]),
    None => (body, ""),
  };
  if int_part.is_empty() || !int_part.bytes().all(|c| c.is_ascii_digit()) {
    return None;
  }
  if body.contains('.') && (frac_part.is_empty() || !frac_part.bytes().all(|c| c.is_ascii_digit())) {
    return None;
  }
  let mut digits = format!("{}{}", int_part, frac_part);
  let mut exp = -(frac_part.len() as i64);
  while digits.ends_with('0') && digits.len() > 1 {
    digits.pop();
    exp += 1;
  }
  let digits = digits.trim_start_matches('0').to_string();
  if digits.is_empty() {
    return Some((neg, "0".to_string(), 0));
  }
  Some((neg, digits, exp))
}

/// Value of (sign, coefficient digits, exponent) in the same normal form.
pub fn triple_value(neg: bool, coeff: &str, exp: i64) -> (bool, String, i64) {
  let mut digits = coeff.trim_start_matches('0').to_string();
  let mut e = exp;
  if digits.is_empty() {
    return (neg, "0".to_string(), 0);
  }
  while digits.ends_with('0') && digits.len() > 1 {
    digits.pop();
    e += 1;
  }
  (neg, digits, e)
}

fn same_value(a: &(bool, String, i64), b: &(bool, String, i64)) -> bool {
  if a.1 == "0" && b.1 == "0" {
    return true; // zero of either sign denotes zero
  }
  a == b
}

fn strict_json_number(text: &str) -> bool {
  // -?(0|[1-9]\d*)(\.\d+)?([eE][+-]?\d+)?
  let b = text.as_bytes();
  let mut i = 0;
  if i < b.len() && b[i] == b'-' {
    i += 1;
  }
  if i >= b.len() {
    return false;
  }
  if b[i] == b'0' {
    i += 1;
  } else if b[i].is_ascii_digit() {
    while i < b.len() && b[i].is_ascii_digit() {
      i += 1;
    }
  } else {
    return false;
  }
  if i < b.len() && b[i] == b'.' {
    i += 1;
    let st = i;
    while i < b.len() && b[i].is_ascii_digit() {
      i += 1;
    }
    if i == st {
      return false;
    }
  }
  if i < b.len() && (b[i] == b'e' || b[i] == b'E') {
    i += 1;
    if i < b.len() && (b[i] == b'+' || b[i] == b'-') {
      i += 1;
    }
    let st = i;
    while i < b.len() && b[i].is_ascii_digit() {
      i += 1;
    }
    if i == st {
      return false;
    }
  }
  i == b.len()
}

/// Checks one number given as (neg, coefficient digits, exponent); returns None when everything
/// agrees, or a description of the first disagreement.
fn check_render(neg: bool, coeff: &str, exp: i64, via_feel: bool) -> Option<J> {
  let lit = format!("{}{}E{}", if neg { "-" } else { "" }, coeff, exp);
  let want = triple_value(neg, coeff, exp);
  let n = match FeelNumber::from_str(&lit) {
    Ok(n) => n,
    Err(e) => return Some(json!({"kind": "from_str_rejects", "lit": lit, "err": e.to_string()})),
  };
  let shown = n.to_string();
  match plain_value(&shown) {
    None => return Some(json!({"kind": "not_plain_decimal", "lit": lit, "shown": clip(&shown)})),
    Some(got) => {
      if !same_value(&got, &want) {
        return Some(json!({"kind": "display_value", "lit": lit, "shown": clip(&shown)}));
      }
    }
  }
  let js = n.jsonify();
  if !strict_json_number(&js) {
    return Some(json!({"kind": "json_not_number", "lit": lit, "json": clip(&js)}));
  }
  match plain_value(&js) {
    Some(got) if same_value(&got, &want) => {}
    _ => return Some(json!({"kind": "json_value", "lit": lit, "json": clip(&js)})),
  }
  match FeelNumber::from_str(&shown) {
    Ok(back) => {
      if back != n {
        return Some(json!({"kind": "roundtrip_differs", "lit": lit, "shown": clip(&shown), "back": format!("{:?}", back)}));
      }
    }
    Err(e) => return Some(json!({"kind": "roundtrip_rejected", "lit": lit, "shown": clip(&shown), "err": e.to_string()})),
  }
  if via_feel {
    // the same value as a FEEL literal (plain spelling, as FEEL has no exponent syntax)
    let plain = plain_from_triple(neg, coeff, exp);
    let scope = dmntk_feel::Scope::default();
    match dmntk_feel_parser::parse_expression(&scope, &plain, false) {
      Ok(node) => match dmntk_feel_evaluator::evaluate(&scope, &node) {
        Ok(dmntk_feel::values::Value::Number(m)) => {
          if m != n {
            return Some(json!({"kind": "feel_literal_value", "lit": lit, "plain": clip(&plain), "got": format!("{:?}", m)}));
          }
        }
        Ok(other) => return Some(json!({"kind": "feel_literal_not_number", "lit": lit, "plain": clip(&plain), "got": clip(&other.to_string())})),
        Err(e) => return Some(json!({"kind": "feel_literal_eval_err", "lit": lit, "err": e.to_string()})),
      },
      Err(e) => return Some(json!({"kind": "feel_literal_parse_err", "lit": lit, "plain": clip(&plain), "err": clip(&e.to_string())})),
    }
    // typed input data conversion
    match dmntk_feel::values::Value::try_from_xsd_decimal(&plain) {
      Ok(dmntk_feel::values::Value::Number(m)) if m == n => {}
      other => return Some(json!({"kind": "xsd_decimal_value", "lit": lit, "got": clip(&format!("{:?}", other))})),
    }
    // xsd:double in both of its spellings (plain and with an exponent), xsd:integer for integers
    for (spelling, text) in [("plain", plain.as_str()), ("exponent", lit.as_str())] {
      match dmntk_feel::values::Value::try_from_xsd_double(text) {
        Ok(dmntk_feel::values::Value::Number(m)) if m == n => {}
        other => return Some(json!({"kind": format!("xsd_double_value:{}", spelling), "lit": lit, "text": clip(text), "got": clip(&format!("{:?}", other))})),
      }
    }
    if exp >= 0 {
      match dmntk_feel::values::Value::try_from_xsd_integer(&plain) {
        Ok(dmntk_feel::values::Value::Number(m)) if m == n => {}
        other => return Some(json!({"kind": "xsd_integer_value", "lit": lit, "got": clip(&format!("{:?}", other))})),
      }
    }
  }
  None
}

fn clip(s: &str) -> String {
  if s.len() > 120 {
    format!("{}…({} chars)…{}", &s[..50], s.len(), &s[s.len() - 50..])
  } else {
    s.to_string()
  }
}

/// Independent plain rendering by string arithmetic.
pub fn plain_from_triple(neg: bool, coeff: &str, exp: i64) -> String {
  let sign = if neg { "-" } else { "" };
  if exp >= 0 {
    format!("{}{}{}", sign, coeff, "0".repeat(exp as usize))
  } else {
    let k = (-exp) as usize;
    if coeff.len() > k {
      format!("{}{}.{}", sign, &coeff[..coeff.len() - k], &coeff[coeff.len() - k..])
    } else {
      format!("{}0.{}{}", sign, "0".repeat(k - coeff.len()), coeff)
    }
  }
}

/// {op:"numtext", items:[[neg,coeff,exp],...], feel:bool}: checks each and also returns what was
/// printed (clipped) so that the supervisor can cross-check a sample with an independent oracle.
pub fn op_numtext(case: &J) -> J {
  let empty = vec![];
  let items = case.get("items").and_then(|v| v.as_array()).unwrap_or(&empty);
  let via_feel = case.get("feel").and_then(|v| v.as_bool()).unwrap_or(true);
  let full = case.get("full").and_then(|v| v.as_bool()).unwrap_or(false);
  let mut bad = vec![];
  let mut shown = vec![];
  for it in items {
    let neg = it.get(0).and_then(|v| v.as_bool()).unwrap_or(false);
    let coeff = it.get(1).and_then(|v| v.as_str()).unwrap_or("0");
    let exp = it.get(2).and_then(|v| v.as_i64()).unwrap_or(0);
    let r = std::panic::catch_unwind(|| check_render(neg, coeff, exp, via_feel));
    match r {
      Ok(None) => {}
      Ok(Some(j)) => bad.push(j),
      Err(_) => {
        let p = crate::LAST_PANIC.lock().ok().and_then(|mut g| g.take()).unwrap_or(json!({"msg": "<unknown>"}));
        bad.push(json!({"kind": "panic", "lit": format!("{}{}E{}", if neg { "-" } else { "" }, coeff, exp), "panic": p}));
      }
    }
    if full {
      let lit = format!("{}{}E{}", if neg { "-" } else { "" }, coeff, exp);
      if let Ok(n) = FeelNumber::from_str(&lit) {
        shown.push(json!([n.to_string(), n.jsonify(), format!("{:?}", n)]));
      } else {
        shown.push(J::Null);
      }
    }
  }
  json!({"checked": items.len(), "bad": bad, "shown": shown})
}

/// {op:"numsweep", exp_lo, exp_hi, exp_step, lens:[..], seed}: for every exponent in the band and
/// every coefficient length, four coefficient shapes x two signs, checked in the driver.
pub fn op_numsweep(case: &J) -> J {
  let exp_lo = case.get("exp_lo").and_then(|v| v.as_i64()).unwrap_or(-6176);
  let exp_hi = case.get("exp_hi").and_then(|v| v.as_i64()).unwrap_or(6111);
  let exp_step = case.get("exp_step").and_then(|v| v.as_i64()).unwrap_or(1).max(1);
  let via_feel = case.get("feel").and_then(|v| v.as_bool()).unwrap_or(false);
  let mut seed = case.get("seed").and_then(|v| v.as_u64()).unwrap_or(1) | 1;
  let lens: Vec<usize> = case
    .get("lens")
    .and_then(|v| v.as_array())
    .map(|a| a.iter().filter_map(|x| x.as_u64()).map(|x| x as usize).collect())
    .unwrap_or_else(|| (1..=34).collect());
  let mut next = move || {
    seed ^= seed << 13;
    seed ^= seed >> 7;
    seed ^= seed << 17;
    seed
  };
  let mut checked = 0u64;
  let mut bad = vec![];
  let mut kinds = std::collections::BTreeMap::new();
  let mut e = exp_lo;
  while e <= exp_hi {
    for &len in &lens {
      // decimal128: exponent of the last digit q with -6176 <= q <= 6111 and len <= 34
      let mut shapes: Vec<String> = vec![];
      // random digits without trailing zero
      let mut r = String::new();
      for k in 0..len {
        let d = (next() % 10) as u8;
        let d = if (k == 0 || k == len - 1) && d == 0 { 1 + (next() % 9) as u8 } else { d };
        r.push((b'0' + d) as char);
      }
      shapes.push(r.clone());
      // trailing zeros
      if len > 1 {
        let keep = 1 + (next() as usize % (len - 1));
        let mut t = r[..keep].to_string();
        t.push_str(&"0".repeat(len - keep));
        shapes.push(t);
      }
      shapes.push("9".repeat(len));
      let mut p = "1".to_string();
      p.push_str(&"0".repeat(len - 1));
      shapes.push(p);
      for coeff in &shapes {
        for neg in [false, true] {
          checked += 1;
          let r = std::panic::catch_unwind(|| check_render(neg, coeff, e, via_feel));
          let finding = match r {
            Ok(None) => None,
            Ok(Some(j)) => Some(j),
            Err(_) => {
              let p = crate::LAST_PANIC.lock().ok().and_then(|mut g| g.take()).unwrap_or(json!({"msg": "<unknown>"}));
              Some(json!({"kind": "panic", "lit": format!("{}{}E{}", if neg { "-" } else { "" }, coeff, e), "panic": p}))
            }
          };
          if let Some(j) = finding {
            let kind = j.get("kind").and_then(|k| k.as_str()).unwrap_or("?").to_string();
            let key = format!("{}:neg={}:expsign={}", kind, neg, if e + (coeff.len() as i64) - 1 < 0 { "-" } else { "+" });
            let c = kinds.entry(key).or_insert(0u64);
            *c += 1;
            if *c <= 3 {
              bad.push(j);
            }
          }
        }
      }
    }
    e += exp_step;
  }
  json!({"checked": checked, "bad": bad, "kinds": kinds})
}
