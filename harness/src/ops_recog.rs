//! Decision tables drawn as Unicode text (C19): recognition (`recog`) and recognition followed by
//! evaluation (`dtext`).
//!
//! `recog`: {op:"recog", texts:[..]?, base:"..."?, edits:[[start,end,"replacement"],..]?, brief:bool?}
//!   Items are `texts` followed by one item per edit; an edit replaces the characters
//!   `[start,end)` (char indices, clamped) of `base` by `replacement` (this keeps the corruption
//!   workload compact; the supervisor applies the same edit to build replay files).
//!   -> {"rs":[ {"dt":{..}} | {"err":".."} | {"panic":{..}} , ..]}; with `brief` a recognised
//!   table is reported as {"ok":[n_inputs,n_outputs,n_annotations,n_rules]} only.
//! `dtext`: {op:"dtext", items:[{text, inputs:[ctx-entries,..]},..]}
//!   -> {"rs":[ {"err"} | {"build_err"} | {"panic","stage"} | {"dt":{..},"vs":[{"v"[,"nm"]}|{"panic"},..]} ]}
//!   The evaluator is built with `build_decision_table_evaluator` in the scope made of the first
//!   input context (names must be known to the parser) and applied to a scope per input context.

use crate::vj;
use dmntk_feel::context::FeelContext;
use dmntk_feel::Scope;
use dmntk_model::model::{BuiltinAggregator, DecisionTable, DecisionTableOrientation, HitPolicy};
use serde_json::{json, Value as J};

fn take_panic() -> J {
  crate::LAST_PANIC.lock().ok().and_then(|mut g| g.take()).unwrap_or(json!({"msg": "<unknown>"}))
}

fn clear_panic() {
  if let Ok(mut g) = crate::LAST_PANIC.lock() {
    *g = None;
  }
}

fn aggregator_name(a: &BuiltinAggregator) -> &'static str {
  match a {
    BuiltinAggregator::List => "LIST",
    BuiltinAggregator::Count => "COUNT",
    BuiltinAggregator::Sum => "SUM",
    BuiltinAggregator::Min => "MIN",
    BuiltinAggregator::Max => "MAX",
  }
}

/// Every field of the recognised decision table, in order.
fn table_json(dt: &DecisionTable) -> J {
  let (hp, hp_agg) = match dt.hit_policy {
    HitPolicy::Unique => ("U", None),
    HitPolicy::Any => ("A", None),
    HitPolicy::Priority => ("P", None),
    HitPolicy::First => ("F", None),
    HitPolicy::RuleOrder => ("R", None),
    HitPolicy::OutputOrder => ("O", None),
    HitPolicy::Collect(a) => ("C", Some(aggregator_name(&a))),
  };
  let orient = match dt.preferred_orientation {
    DecisionTableOrientation::RuleAsRow => "row",
    DecisionTableOrientation::RuleAsColumn => "col",
    DecisionTableOrientation::CrossTable => "cross",
  };
  let inputs: Vec<J> = dt.input_clauses.iter().map(|c| json!({"e": c.input_expression, "v": c.input_values})).collect();
  let outputs: Vec<J> = dt
    .output_clauses
    .iter()
    .map(|c| json!({"n": c.name, "v": c.output_values, "d": c.default_output_entry, "t": c.type_ref}))
    .collect();
  let anns: Vec<J> = dt.annotations.iter().map(|a| json!(a.name)).collect();
  let rules: Vec<J> = dt
    .rules
    .iter()
    .map(|r| {
      json!({
        "i": r.input_entries.iter().map(|e| e.text.clone()).collect::<Vec<String>>(),
        "o": r.output_entries.iter().map(|e| e.text.clone()).collect::<Vec<String>>(),
        "a": r.annotation_entries.iter().map(|e| e.text.clone()).collect::<Vec<String>>(),
      })
    })
    .collect();
  json!({
    "hp": hp,
    "hp_agg": hp_agg,
    "agg": dt.aggregation.as_ref().map(aggregator_name),
    "orient": orient,
    "name": dt.information_item_name,
    "label": dt.output_label,
    "inputs": inputs,
    "outputs": outputs,
    "anns": anns,
    "rules": rules,
  })
}

fn recognise_one(text: &str, brief: bool) -> J {
  clear_panic();
  match std::panic::catch_unwind(|| dmntk_recognizer::build(text)) {
    Ok(Ok(dt)) => {
      if brief {
        json!({"ok": [dt.input_clauses.len(), dt.output_clauses.len(), dt.annotations.len(), dt.rules.len()]})
      } else {
        json!({ "dt": table_json(&dt) })
      }
    }
    Ok(Err(e)) => json!({"err": e.to_string()}),
    Err(_) => json!({"panic": take_panic()}),
  }
}

pub fn op_recog(case: &J) -> J {
  let brief = case.get("brief").and_then(|v| v.as_bool()).unwrap_or(false);
  let empty = vec![];
  let mut rs = vec![];
  for t in case.get("texts").and_then(|v| v.as_array()).unwrap_or(&empty) {
    match t.as_str() {
      Some(text) => rs.push(recognise_one(text, brief)),
      None => return json!({"harness_error": "recog: text is not a string"}),
    }
  }
  if let Some(edits) = case.get("edits").and_then(|v| v.as_array()) {
    let base: Vec<char> = match case.get("base").and_then(|v| v.as_str()) {
      Some(b) => b.chars().collect(),
      None => return json!({"harness_error": "recog: edits without base"}),
    };
    for e in edits {
      let (start, end, rep) = match e.as_array() {
        Some(a) if a.len() == 3 => match (a[0].as_u64(), a[1].as_u64(), a[2].as_str()) {
          (Some(s), Some(e), Some(r)) => (s as usize, e as usize, r),
          _ => return json!({"harness_error": "recog: bad edit"}),
        },
        _ => return json!({"harness_error": "recog: bad edit"}),
      };
      let start = start.min(base.len());
      let end = end.max(start).min(base.len());
      let mut text = String::with_capacity(base.len() * 3 + rep.len());
      text.extend(base[..start].iter());
      text.push_str(rep);
      text.extend(base[end..].iter());
      rs.push(recognise_one(&text, brief));
    }
  }
  json!({ "rs": rs })
}

fn dtext_one(item: &J) -> J {
  let text = match item.get("text").and_then(|v| v.as_str()) {
    Some(t) => t,
    None => return json!({"harness_error": "dtext: item without text"}),
  };
  let empty = vec![];
  let mut ctxs: Vec<FeelContext> = vec![];
  for inp in item.get("inputs").and_then(|v| v.as_array()).unwrap_or(&empty) {
    match inp.as_array().map(|a| vj::to_context(a)) {
      Some(Ok(c)) => ctxs.push(c),
      Some(Err(e)) => return json!({ "harness_error": e }),
      None => return json!({"harness_error": "dtext: bad inputs entry"}),
    }
  }
  clear_panic();
  let dt = match std::panic::catch_unwind(|| dmntk_recognizer::build(text)) {
    Ok(Ok(dt)) => dt,
    Ok(Err(e)) => return json!({"err": e.to_string()}),
    Err(_) => return json!({"panic": take_panic(), "stage": "recognise"}),
  };
  let build_scope: Scope = ctxs.first().cloned().unwrap_or_default().into();
  clear_panic();
  let evaluator = match std::panic::catch_unwind(std::panic::AssertUnwindSafe(|| dmntk_model_evaluator::build_decision_table_evaluator(&build_scope, &dt))) {
    Ok(Ok(e)) => e,
    Ok(Err(e)) => return json!({"build_err": e.to_string(), "dt": table_json(&dt)}),
    Err(_) => return json!({"panic": take_panic(), "stage": "build", "dt": table_json(&dt)}),
  };
  let mut vs = vec![];
  for ctx in &ctxs {
    let scope: Scope = ctx.clone().into();
    // purity monitor (C13): the caller's scope before and after, and a second evaluation of the same evaluator
    let before = scope.to_string();
    clear_panic();
    match std::panic::catch_unwind(std::panic::AssertUnwindSafe(|| evaluator(&scope))) {
      Ok(v) => {
        let mut rec = json!({"v": vj::from_value(&v)});
        if let Some(m) = vj::null_msg(&v) {
          rec["nm"] = json!(m);
        }
        let after = scope.to_string();
        if after != before {
          rec["scope_changed"] = json!([before, after]);
        } else if let Ok(again) = std::panic::catch_unwind(std::panic::AssertUnwindSafe(|| evaluator(&scope))) {
          if vj::from_value(&again) != rec["v"] {
            rec["rep_diff"] = json!({"first": rec["v"].clone(), "later": vj::from_value(&again)});
          }
          if scope.to_string() != before {
            rec["scope_changed"] = json!([before, scope.to_string()]);
          }
        }
        vs.push(rec);
      }
      Err(_) => vs.push(json!({"panic": take_panic()})),
    }
  }
  json!({"dt": table_json(&dt), "vs": vs})
}

pub fn op_dtext(case: &J) -> J {
  let items = match case.get("items").and_then(|v| v.as_array()) {
    Some(a) => a,
    None => return json!({"harness_error": "dtext: no items"}),
  };
  let mut rs = vec![];
  for item in items {
    let r = dtext_one(item);
    if r.get("harness_error").is_some() {
      return r;
    }
    rs.push(r);
  }
  json!({ "rs": rs })
}
