use serde_json::{json, Value as J};
pub fn op_recog(_case: &J) -> J {
  json!({"harness_error": "not implemented"})
}
pub fn op_dtext(_case: &J) -> J {
  json!({"harness_error": "not implemented"})
}
