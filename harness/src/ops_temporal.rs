//! Temporal ops for C14 / C15.
//!
//! * `zones`     : the implementation's own zone table (`chrono_tz::TZ_VARIANTS`).
//! * `temporal`  : batch of `[kind, text]` items pushed through the real `TryFrom<&str>` / `FromStr`
//!                 / `Display` implementations (and the `xsd:*` input conversions), each item in its own
//!                 `catch_unwind`: parse, print, re-parse the print, compare, print again, components.
//! * `datesweep` : every (y, m, d) of a year range x m in 0..=13 x d in 0..=32 through the real
//!                 numeric constructor (`FeelDate::try_from((n, n, n))` and the FEEL built-in
//!                 `date(y, m, d)` evaluated over a scope) and through the literal; validity and
//!                 weekday per cell, compactly as one string per year.

use dmntk_feel::context::FeelContext;
use dmntk_feel::values::Value;
use dmntk_feel::{FeelDate, FeelDateTime, FeelDaysAndTimeDuration, FeelNumber, FeelTime, FeelYearsAndMonthsDuration, Name, Scope};
use serde_json::{json, Value as J};
use std::convert::TryFrom;
use std::str::FromStr;

fn take_panic() -> J {
  let p = crate::LAST_PANIC.lock().ok().and_then(|mut g| g.take()).unwrap_or(json!({"msg": "<unknown>"}));
  json!({ "panic": p })
}

fn guarded<F: FnOnce() -> J>(f: F) -> J {
  match std::panic::catch_unwind(std::panic::AssertUnwindSafe(f)) {
    Ok(j) => j,
    Err(_) => take_panic(),
  }
}

/// {op:"zones"} -> {"zones":[..]}
pub fn op_zones(_case: &J) -> J {
  let names: Vec<String> = chrono_tz::TZ_VARIANTS.iter().map(|z| z.name().to_string()).collect();
  json!({ "zones": names })
}

fn opt_b(b: Option<bool>) -> J {
  match b {
    Some(x) => json!(x),
    None => J::Null,
  }
}

fn one_date(text: &str) -> J {
  match FeelDate::try_from(text) {
    Err(_) => J::Null,
    Ok(v) => {
      let s1 = v.to_string();
      let comps = json!([v.year(), v.month(), v.day()]);
      match FeelDate::try_from(s1.as_str()) {
        Err(_) => json!({"s": s1, "c": comps, "re": false}),
        Ok(v2) => json!({"s": s1, "c": comps, "re": true, "eq": v == v2, "eq2": opt_b(v.equal(&v2)), "s2": v2.to_string()}),
      }
    }
  }
}

fn time_comps(v: &FeelTime) -> J {
  // the offset of a named zone depends on today's date for a time: not reported here
  json!([v.hour(), v.minute(), v.second(), v.feel_time_zone()])
}

fn one_time(text: &str) -> J {
  match FeelTime::from_str(text) {
    Err(_) => J::Null,
    Ok(v) => {
      let s1 = v.to_string();
      let comps = time_comps(&v);
      let off = if v.feel_time_zone().is_none() { json!(v.feel_time_offset()) } else { J::Null };
      match FeelTime::from_str(s1.as_str()) {
        Err(_) => json!({"s": s1, "c": comps, "o": off, "re": false}),
        Ok(v2) => json!({"s": s1, "c": comps, "o": off, "re": true, "eq": opt_b(v.equal(&v2)), "s2": v2.to_string()}),
      }
    }
  }
}

fn one_date_time(text: &str) -> J {
  match FeelDateTime::try_from(text) {
    Err(_) => J::Null,
    Ok(v) => {
      let s1 = v.to_string();
      let comps = json!([v.year(), v.month(), v.day(), v.hour(), v.minute(), v.second(), v.feel_time_zone()]);
      let off = if v.feel_time_zone().is_none() { json!(v.feel_time_offset()) } else { J::Null };
      match FeelDateTime::try_from(s1.as_str()) {
        Err(_) => json!({"s": s1, "c": comps, "o": off, "re": false}),
        Ok(v2) => {
          let eq = guarded(|| opt_b(v.equal(&v2)));
          json!({"s": s1, "c": comps, "o": off, "re": true, "eq": eq, "s2": v2.to_string()})
        }
      }
    }
  }
}

fn one_dtd(text: &str) -> J {
  match FeelDaysAndTimeDuration::try_from(text) {
    Err(_) => J::Null,
    Ok(v) => {
      let s1 = v.to_string();
      let comps = json!([v.get_days().to_string(), v.get_hours(), v.get_minutes(), v.get_seconds()]);
      match FeelDaysAndTimeDuration::try_from(s1.as_str()) {
        Err(_) => json!({"s": s1, "c": comps, "re": false}),
        Ok(v2) => json!({"s": s1, "c": comps, "re": true, "eq": v == v2, "s2": v2.to_string()}),
      }
    }
  }
}

fn one_ymd(text: &str) -> J {
  match FeelYearsAndMonthsDuration::try_from(text) {
    Err(_) => J::Null,
    Ok(v) => {
      let s1 = v.to_string();
      let comps = json!([v.years().to_string(), v.months().to_string(), v.as_months().to_string()]);
      match FeelYearsAndMonthsDuration::try_from(s1.as_str()) {
        Err(_) => json!({"s": s1, "c": comps, "re": false}),
        Ok(v2) => json!({"s": s1, "c": comps, "re": true, "eq": v == v2, "s2": v2.to_string()}),
      }
    }
  }
}

fn one_xsd(kind: &str, text: &str) -> J {
  let r = match kind {
    "xd" => Value::try_from_xsd_date(text),
    "xt" => Value::try_from_xsd_time(text),
    "xdt" => Value::try_from_xsd_date_time(text),
    _ => Value::try_from_xsd_duration(text),
  };
  match r {
    Err(_) => J::Null,
    Ok(v) => crate::vj::from_value(&v),
  }
}

/// {op:"temporal", items:[[kind, text], ...]} -> {"rs":[ null | {"s":print, "c":components, "re":reparse ok,
/// "eq":equal, "s2":second print, "o":offset seconds?} | {"panic":..} ]}
/// kinds: d, t, dt, dtd, ymd, dur (ymd first, then dtd: the order of `duration()`), xd, xt, xdt, xdur.
pub fn op_temporal(case: &J) -> J {
  let empty = vec![];
  let items = case.get("items").and_then(|v| v.as_array()).unwrap_or(&empty);
  let mut rs = Vec::with_capacity(items.len());
  for it in items {
    let kind = it.get(0).and_then(|v| v.as_str()).unwrap_or("");
    let text = it.get(1).and_then(|v| v.as_str()).unwrap_or("");
    let r = guarded(|| match kind {
      "d" => one_date(text),
      "t" => one_time(text),
      "dt" => one_date_time(text),
      "dtd" => one_dtd(text),
      "ymd" => one_ymd(text),
      "dur" => {
        let a = one_ymd(text);
        if a.is_null() {
          let mut b = one_dtd(text);
          if let J::Object(ref mut m) = b {
            m.insert("k".to_string(), json!("dtd"));
          }
          b
        } else {
          let mut a = a;
          if let J::Object(ref mut m) = a {
            m.insert("k".to_string(), json!("ymd"));
          }
          a
        }
      }
      "xd" | "xt" | "xdt" | "xdur" => one_xsd(kind, text),
      _ => json!({"harness_error": format!("unknown temporal kind '{}'", kind)}),
    });
    if r.get("harness_error").is_some() {
      return r;
    }
    rs.push(r);
  }
  json!({ "rs": rs })
}

fn num(n: i64) -> FeelNumber {
  FeelNumber::from_i128(n as i128)
}

/// {op:"datesweep", y0, y1} (inclusive) -> {"years":[[y, ctor, lit, ord_bad], ...]}
/// `ctor`: 14*33 characters, month-major (m in 0..=13, d in 0..=32): '.' rejected by both the tuple
///   constructor and the FEEL built-in, '1'..'7' accepted by both with components equal to the input and
///   that weekday, '?' accepted but weekday unavailable, 'X' accepted with different components,
///   'D' the tuple constructor and the built-in disagree, 'P' panic.
/// `lit`: same layout for the literal "YYYY-MM-DD": '.' rejected, '1' accepted with equal components,
///   'X' accepted with different components, 'P' panic.
/// `ord_bad`: consecutive constructor-accepted dates (in sweep order) for which `prev < cur` was not true
///   or `cur < prev`, `prev = cur` was not false: [[prev, cur, lt, gt, eq], ...] (at most 3).
pub fn op_datesweep(case: &J) -> J {
  let y0 = case.get("y0").and_then(|v| v.as_i64()).unwrap_or(2000);
  let y1 = case.get("y1").and_then(|v| v.as_i64()).unwrap_or(2000);
  let scope = Scope::default();
  {
    let mut ctx = FeelContext::default();
    ctx.set_entry(&Name::from("y"), Value::Number(num(0)));
    ctx.set_entry(&Name::from("m"), Value::Number(num(0)));
    ctx.set_entry(&Name::from("d"), Value::Number(num(0)));
    scope.push(ctx);
  }
  let node = match dmntk_feel_parser::parse_expression(&scope, "date(y, m, d)", false) {
    Ok(n) => n,
    Err(e) => return json!({"harness_error": format!("cannot parse date(y, m, d): {}", e)}),
  };
  let evaluator = match dmntk_feel_evaluator::prepare(&node) {
    Ok(e) => e,
    Err(e) => return json!({"harness_error": format!("cannot prepare date(y, m, d): {}", e)}),
  };
  let mut years = vec![];
  let mut cells: u64 = 0;
  for y in y0..=y1 {
    let mut ctor = String::with_capacity(14 * 33);
    let mut lit = String::with_capacity(14 * 33);
    let mut ord_bad = vec![];
    let mut prev: Option<FeelDate> = None;
    for m in 0..=13i64 {
      for d in 0..=32i64 {
        cells += 1;
        // numeric constructor, both ways
        let c = std::panic::catch_unwind(std::panic::AssertUnwindSafe(|| {
          let a = FeelDate::try_from((num(y), num(m), num(d))).ok();
          let sc = Scope::default();
          let mut ctx = FeelContext::default();
          ctx.set_entry(&Name::from("y"), Value::Number(num(y)));
          ctx.set_entry(&Name::from("m"), Value::Number(num(m)));
          ctx.set_entry(&Name::from("d"), Value::Number(num(d)));
          sc.push(ctx);
          let b = match evaluator(&sc) {
            Value::Date(x) => Some(x),
            _ => None,
          };
          (a, b)
        }));
        match c {
          Err(_) => {
            let _ = take_panic();
            ctor.push('P');
          }
          Ok((a, b)) => match (a, b) {
            (None, None) => ctor.push('.'),
            (Some(a), Some(b)) => {
              if a != b {
                ctor.push('D');
              } else if a.year() as i64 != y || a.month() as i64 != m || a.day() as i64 != d {
                ctor.push('X');
              } else {
                let wd = std::panic::catch_unwind(std::panic::AssertUnwindSafe(|| a.weekday()));
                match wd {
                  Err(_) => {
                    let _ = take_panic();
                    ctor.push('P');
                  }
                  Ok(Some(n)) if (1..=7).contains(&n) => ctor.push(char::from(b'0' + n as u8)),
                  Ok(_) => ctor.push('?'),
                }
                if let Some(p) = &prev {
                  let lt = p < &a;
                  let gt = p > &a;
                  let eq = p == &a;
                  if (!lt || gt || eq) && ord_bad.len() < 3 {
                    ord_bad.push(json!([p.to_string(), a.to_string(), lt, gt, eq]));
                  }
                }
                prev = Some(a);
              }
            }
            _ => ctor.push('D'),
          },
        }
        // literal
        let text = if y < 0 { format!("-{:04}-{:02}-{:02}", -y, m, d) } else { format!("{:04}-{:02}-{:02}", y, m, d) };
        let l = std::panic::catch_unwind(std::panic::AssertUnwindSafe(|| FeelDate::try_from(text.as_str()).ok()));
        match l {
          Err(_) => {
            let _ = take_panic();
            lit.push('P');
          }
          Ok(None) => lit.push('.'),
          Ok(Some(v)) => {
            if v.year() as i64 == y && v.month() as i64 == m && v.day() as i64 == d {
              lit.push('1');
            } else {
              lit.push('X');
            }
          }
        }
      }
    }
    years.push(json!([y, ctor, lit, ord_bad]));
  }
  json!({"years": years, "cells": cells})
}
