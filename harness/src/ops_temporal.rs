use serde_json::{json, Value as J};
pub fn op_temporal(_case: &J) -> J {
  json!({"harness_error": "not implemented"})
}
pub fn op_datesweep(_case: &J) -> J {
  json!({"harness_error": "not implemented"})
}
pub fn op_zones(_case: &J) -> J {
  json!({"harness_error": "not implemented"})
}
