#![no_main]
// Coverage-guided input generator for C05: the first byte picks the parser entry point and the scope,
// the rest is the text. A crash here is only a CANDIDATE: the check replays every artifact through the
// ordinary driver (dbg / rel / asan, 8 MiB worker stack) and that replay is the verdict.
use dmntk_feel::context::FeelContext;
use dmntk_feel::values::Value;
use dmntk_feel::{Name, Scope};
use libfuzzer_sys::fuzz_target;

fn scope(kind: u8) -> Scope {
  let mut ctx = FeelContext::default();
  if kind % 3 != 0 {
    for (n, t) in [("a", "1"), ("b", "2.5"), ("s", "\"abc\""), ("l", "[1, 2, 3]"), ("c", "{x: 1, y: {z: \"q\"}}"), ("d", "date(\"2021-03-04\")"), ("t", "null")] {
      let empty: Scope = FeelContext::default().into();
      if let Ok(node) = dmntk_feel_parser::parse_expression(&empty, t, false) {
        if let Ok(v) = dmntk_feel_evaluator::evaluate(&empty, &node) {
          ctx.set_entry(&Name::from(n), v);
        }
      }
    }
  }
  if kind % 3 == 2 {
    ctx.set_entry(&Name::new(&["net", "income"]), Value::Boolean(true));
    ctx.set_entry(&Name::new(&["net", "income", "/", "loss"]), Value::Boolean(false));
    ctx.set_entry(&Name::new(&["a", "-", "b"]), Value::Boolean(false));
  }
  ctx.into()
}

fuzz_target!(|data: &[u8]| {
  if data.len() < 2 || data.len() > 600 {
    return;
  }
  let text = match std::str::from_utf8(&data[1..]) {
    Ok(t) => t,
    Err(_) => return,
  };
  let sc = scope(data[0] >> 3);
  let r = match data[0] & 7 {
    0 | 6 | 7 => dmntk_feel_parser::parse_expression(&sc, text, false),
    1 => dmntk_feel_parser::parse_textual_expression(&sc, text, false),
    2 => dmntk_feel_parser::parse_textual_expressions(&sc, text, false),
    3 => dmntk_feel_parser::parse_boxed_expression(&sc, text, false),
    4 => dmntk_feel_parser::parse_context(&sc, text, false),
    _ => dmntk_feel_parser::parse_unary_tests(&sc, text, false),
  };
  if let Ok(node) = r {
    if let Ok(evaluator) = dmntk_feel_evaluator::prepare(&node) {
      let _ = evaluator(&sc);
    }
  }
  let _ = dmntk_feel_parser::parse_name(&sc, text, false);
  let _ = dmntk_feel_parser::parse_longest_name(text);
});
