#![no_main]
// Coverage-guided input generator for C12: the bytes are the model text. Candidates only; the check
// replays artifacts through the ordinary driver (op `model`), and that replay is the verdict.
use dmntk_feel::context::FeelContext;
use libfuzzer_sys::fuzz_target;

fuzz_target!(|data: &[u8]| {
  if data.len() > 20000 {
    return;
  }
  let text = match std::str::from_utf8(data) {
    Ok(t) => t,
    Err(_) => return,
  };
  if let Ok(definitions) = dmntk_model::parse(text) {
    if let Ok(evaluator) = dmntk_model_evaluator::ModelEvaluator::new(&definitions) {
      let input = FeelContext::default();
      for d in definitions.decisions() {
        let _ = evaluator.evaluate_invocable(dmntk_model::model::NamedElement::name(d), &input);
      }
      for b in definitions.business_knowledge_models() {
        let _ = evaluator.evaluate_invocable(dmntk_model::model::NamedElement::name(b), &input);
      }
      for s in definitions.decision_services() {
        let _ = evaluator.evaluate_invocable(dmntk_model::model::NamedElement::name(s), &input);
      }
    }
  }
});
