#![no_main]
// Coverage-guided input generator for C19 (no-panic clause): the bytes are the drawing. Candidates only;
// the check replays artifacts through the ordinary driver (op `dtext`), and that replay is the verdict.
use dmntk_feel::context::FeelContext;
use dmntk_feel::Scope;
use libfuzzer_sys::fuzz_target;

fuzz_target!(|data: &[u8]| {
  if data.len() > 6000 {
    return;
  }
  let text = match std::str::from_utf8(data) {
    Ok(t) => t,
    Err(_) => return,
  };
  if let Ok(table) = dmntk_recognizer::build(text) {
    let scope: Scope = FeelContext::default().into();
    if let Ok(evaluator) = dmntk_model_evaluator::build_decision_table_evaluator(&scope, &table) {
      let _ = evaluator(&scope);
    }
  }
});
