#!/usr/bin/env python3
"""Development aid: which functions of /repo do the checks' QUICK workloads never execute?
Builds the driver with -Cinstrument-coverage (variant `cov`, used in place of `dbg`), runs the quick tier of
the given checks (default: all) with evidence and work redirected to a scratch directory, merges the profiles
and prints, per source file of /repo, line coverage and the functions with no executed region.
usage: coverage.py [C01 C02 ...]      output: /verif/work/coverage/{report.txt, functions_never_run.txt}"""
import glob, json, os, re, subprocess, sys, shutil

VERIF = os.path.dirname(os.path.dirname(os.path.abspath(__file__)))
ids = sys.argv[1:] or ["C%02d" % k for k in range(1, 21)]
base = "/tmp/verif_cov"
shutil.rmtree(base, ignore_errors=True)
os.makedirs(base + "/prof")
env = dict(os.environ, VERIF_COVERAGE=base + "/prof", VERIF_WORK=base + "/work")
for i in ids:
    p = subprocess.run([os.path.join(VERIF, "check"), i, "--tier", "quick", "--seed", os.environ.get("VERIF_SEED", "1")], env=env, capture_output=True, text=True)
    last = [l for l in p.stdout.splitlines() if l.startswith("[" + i)]
    print(i, last[-1] if last else "rc=%d %s" % (p.returncode, p.stdout[-300:]), flush=True)
tool = glob.glob(os.path.expanduser("~/.rustup/toolchains/nightly-x86_64-unknown-linux-gnu/lib/rustlib/*/bin"))[0]
profs = glob.glob(base + "/prof/*.profraw")
print(len(profs), "profiles")
with open(base + "/list.txt", "w") as f:
    f.write("\n".join(profs))
subprocess.run([tool + "/llvm-profdata", "merge", "-sparse", "-f", base + "/list.txt", "-o", base + "/merged.profdata"], check=True)
binary = os.path.join(VERIF, "target", "cov", "debug", "dmntk-verif-driver")
out = os.path.join(VERIF, "work", "coverage")
os.makedirs(out, exist_ok=True)
rep = subprocess.run([tool + "/llvm-cov", "report", binary, "-instr-profile=" + base + "/merged.profdata", "--ignore-filename-regex=(registry|rustc|harness)"], capture_output=True, text=True).stdout
open(out + "/report.txt", "w").write(rep)
exp = subprocess.run([tool + "/llvm-cov", "export", binary, "-instr-profile=" + base + "/merged.profdata", "--ignore-filename-regex=(registry|rustc|harness)", "-skip-expansions"], capture_output=True, text=True).stdout
data = json.loads(exp)["data"][0]
never = {}
for fn in data["functions"]:
    if fn["count"] == 0 and fn["filenames"] and fn["filenames"][0].startswith("/repo/"):
        never.setdefault(fn["filenames"][0], set()).add(fn["name"])
try:
    dem = lambda n: subprocess.run(["rustfilt"], input=n, capture_output=True, text=True).stdout.strip()
    subprocess.run(["rustfilt", "--version"], capture_output=True)
except Exception:
    dem = lambda n: n
with open(out + "/functions_never_run.txt", "w") as f:
    for file in sorted(never):
        if "/tests/" in file or file.endswith("tests.rs"):
            continue
        f.write("%s\n" % file)
        for n in sorted(never[file]):
            f.write("    %s\n" % n)
# uncovered source lines of the non-test files (line|count|text as printed by llvm-cov show)
show = subprocess.run([tool + "/llvm-cov", "show", binary, "-instr-profile=" + base + "/merged.profdata", "--ignore-filename-regex=(registry|rustc|harness|/tests/)", "-show-line-counts"], capture_output=True, text=True).stdout
with open(out + "/uncovered_lines.txt", "w") as f:
    cur = None
    for line in show.splitlines():
        if line.startswith("/repo/") and line.endswith(":"):
            cur = line
            continue
        m = re.match(r"\s*(\d+)\|\s*0\|(.*)", line)
        if m and cur and m.group(2).strip() not in ("}", "", "{", "});", "})", "};"):
            if cur is not True:
                f.write(cur + "\n")
                cur = True
            f.write("  %5s| %s\n" % (m.group(1), m.group(2)[:160]))
        elif line.startswith("/") and line.endswith(":"):
            cur = None
print(rep[-1500:])
shutil.rmtree(base, ignore_errors=True)
