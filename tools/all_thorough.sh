#!/bin/bash
# runs every check's thorough tier in turn; prints one line per property
cd "$(dirname "$0")/.."
mkdir -p work
for i in ${IDS:-C01 C02 C03 C04 C06 C07 C08 C09 C10 C11 C12 C13 C14 C15 C16 C17 C18 C19 C20 C05}; do
  s=$(date +%s)
  ./check $i --tier thorough --seed ${VERIF_SEED:-1} > work/thorough_$i.log 2>&1
  rc=$?
  echo "$i rc=$rc wall=$(( $(date +%s) - s ))s $(grep -c '^VIOLATION' work/thorough_$i.log) violations; $(grep -E '^\[C' work/thorough_$i.log | tail -1)"
  grep -E '^VIOLATION|signature=' work/thorough_$i.log | cut -c1-400 | head -40
done
