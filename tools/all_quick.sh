#!/bin/bash
# runs every check's quick tier at the given seeds (default 1 2 3); one line per run
cd "$(dirname "$0")/.."
mkdir -p work
for s in ${SEEDS:-1 2 3}; do
  for i in ${IDS:-C01 C02 C03 C04 C05 C06 C07 C08 C09 C10 C11 C12 C13 C14 C15 C16 C17 C18 C19 C20}; do
    t=$(date +%s)
    ./check $i --tier quick --seed $s > work/quick_${i}_$s.log 2>&1
    rc=$?
    echo "$i seed=$s rc=$rc wall=$(( $(date +%s) - t ))s $(grep -c '^VIOLATION' work/quick_${i}_$s.log) violations; $(grep -E '^\[C|^INCONCLUSIVE' work/quick_${i}_$s.log | tail -1 | cut -c1-200)"
    grep -E '^VIOLATION|signature=' work/quick_${i}_$s.log | cut -c1-300 | head -10
  done
done
