#!/bin/bash
# round.sh <round> <ID> [more check IDs] : confirm_demo + try_seed for one seeded change (development aid)
r=$1; id=$2; shift 2
cd /verif
tools/confirm_demo.sh $r $id > logs/confirm_${r}_$id.log 2>&1
for c in $id "$@"; do tools/try_seed.sh /tmp/s${r}_$id $c > logs/try_${r}_${id}_$c.log 2>&1; done
echo "=== $id"; grep -h "^\[confirm" logs/confirm_${r}_$id.log | cut -c1-330; for c in $id "$@"; do cut -c1-330 logs/try_${r}_${id}_$c.log; done
