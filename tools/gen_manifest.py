#!/usr/bin/env python3
"""Regenerates /verif/MANIFEST.json from the claims table below (kept in one place so that the
manifest stays valid and consistent with what is actually built)."""
import json
import os
import subprocess

VERIF = os.path.dirname(os.path.dirname(os.path.abspath(__file__)))

ALL = ["C%02d" % k for k in range(1, 21)]

# property -> claim
CLAIMS = {
    "C01": {
        "category": "exploration",
        "technique": "reference-model oracle (R-FEEL interpreter) over observed evaluations of warm evaluators (first use over a decoy scope, pre-parse under a scope of another shape, repetition) + metamorphic scope padding",
        "text": "Seeded typed random expressions of the FEEL core fragment and a forced construct x construct matrix are parsed and evaluated by the real code in scopes bound programmatically; every observed value is compared structurally with an independent reference interpreter (decimal128 arithmetic, three-valued logic, filters, paths, for/some/every products, function invocation) and with the same evaluation in a scope padded with unrelated names and layers. Disagreements are minimised to the smallest closed sub-expression.",
        "note": "R-FEEL (lib/rfeel.py) is trusted; contested constructs (singleton filter results, non-boolean conditions, incomparable equality inside lists, inexact powers) are counted as undecided, never as violations. Parsing defects of operator nesting are left to C06 (the generator keeps boolean operators out of `between` operands and range end points).",
        "design_ref": "DESIGN.md §3 C01, §2 R-FEEL",
    },
    "C02": {
        "category": "exploration",
        "technique": "reference-model oracle (CPython decimal as decimal128 + exact rational arithmetic) over observed operations, replayed under AddressSanitizer with the decNumber C sources instrumented and (a slice) under valgrind memcheck",
        "text": "Operand tuples from every sign / coefficient-length / exponent-band / shape class, related operands and constructed exact ties are executed for all 21 operations both directly on FeelNumber and as FEEL expressions; each result is compared with the correctly rounded decimal128 result (2 ulp for exp, log, inexact powers), non-finite results and missing nulls are flagged; the workload is replayed on an ASan build (C writes + all Rust accesses instrumented) and a stride of it (quick 6 batches, thorough 160) under valgrind memcheck, which sees invalid reads and uninitialised values that reach Rust code.",
        "note": "Trusts libmpdec configured as decimal128 and Python Fraction. decNumber's deliberate <=3-byte over-reads of its own stack buffers are not instrumented (documented in lib/runner.py and DESIGN.md); memcheck's uninitialised-value reports whose innermost frame is a decNumber function are suppressed for the same reason (harness/valgrind.supp), address errors never. ASan-clean is not memory safety.",
        "design_ref": "DESIGN.md §3 C02",
    },
    "C03": {
        "category": "exploration",
        "technique": "reference-model oracle (R-DT, decision-table semantics transcribed from the statement) over observed evaluations through both implementation paths (DMN XML and recognised drawing)",
        "text": "Generated tables (1..5 inputs, 1..3 outputs, 1..8 rules, all 11 hit policy / aggregator markers, entries -, literals, comparisons, intervals, disjunctions, not(...), optional allowed input values, output values and default output) are written as DMN XML and as Unicode drawings, loaded by the real parser / recognizer and evaluated by ModelEvaluator and build_decision_table_evaluator for input tuples steered with the reference to match no rule, exactly one and several rules (equal and differing outputs); every observed value is compared with R-DT. Quick 6000 tables, thorough 120000.",
        "note": "R-DT (lib/props/c03.py) is trusted; priority policies without output values, output entries outside the allowed output values, compound defaults and aggregation over compound or non-numeric outputs are undecided. Table generator, entry specs, steering and writers are lib/gdraw.py (self-validated against the shipped drawings by C19). Negative end points are avoided in entries (the FEEL grammar of the repository rejects them in unary tests).",
        "design_ref": "DESIGN.md §3 C03",
    },
    "C04": {
        "category": "exploration",
        "technique": "reference-model oracle (topological evaluation of the generated requirement graph with R-FEEL) + metamorphic irrelevance monitor over observed evaluate_invocable calls",
        "text": "Generated acyclic requirement graphs (1-4 typed inputs, 2-8 decisions of every boxed kind: literal, context with and without result entry, invocation, relation, function, decision table; 0-3 knowledge models with literal / context / table bodies and BKM->BKM requirements, invoked by literal call and by boxed invocation; 0-2 decision services with input / encapsulated / output decisions, used as invocables and as functions; forced shapes diamond, BKM chain, service, decision required directly and through a service, several output decisions) are written as DMN XML and loaded by the real parser and ModelEvaluator; every invocable is called with 8 input contexts (full, partial, nulls, wrongly typed, empty) and with the same contexts padded by entries outside its requirement closure; each value is compared with the reference evaluation and the padded result with the unpadded one. Quick 3000 models (~290k calls), thorough 60000.",
        "note": "Reference = lib/gdrg.py + lib/rfeel.py; logic is drawn from an arithmetic / string / list fragment in which R-FEEL is unambiguous; non-conforming arguments for typed formal parameters are undecided; entries named like a required decision or knowledge model are not generated; entries named like the invoked element itself and like elements outside its closure are.",
        "design_ref": "DESIGN.md §3 C04",
    },
    "C05": {
        "category": "exploration",
        "technique": "crash/panic channel monitor (catch_unwind + panic hook + child-process death + watchdog) over hostile workloads, on debug and release builds in full and an ASan slice; thorough tier adds a libFuzzer (ASan, coverage-guided) slot whose artifacts and final corpus are replayed in the driver",
        "text": "Texts from a typed grammar generator, mutations of every string literal of the repository's FEEL tests and every <text> of the shipped models (harvested from the working tree at run time), every ordered pair of lexical tokens in several surroundings (and every pair after for/some/every), arbitrary Unicode, nesting to depth 200, iteration products below 4096, and every built-in x arities 0..6 (positional and named) plus every operator, property and filter over an extreme argument alphabet (2^63, 2^64-1, 10^+-3000, decimal128 edges, NUL and astral strings, huge lists, DST-gap and out-of-range temporals, maximal durations) are parsed through all six parser entry points + parse_name / parse_longest_name in three scopes and evaluated; any panic, process death, sanitizer report or failure to finish is a violation. Quick ~1.1 M executions, thorough tens of millions.",
        "note": "Termination is decided as bounded progress (a stalled case is re-run alone with a 300 s budget). Mutated texts whose iteration ranges exceed the property's size bound are left out. A returned error or null is never a violation.",
        "design_ref": "DESIGN.md §3 C05",
    },
    "C06": {
        "category": "exploration",
        "technique": "round-trip oracle on generated syntax trees: expected AstNode computed from the generator's tree and an independent precedence table; full / minimal / one-pair-removed / re-laid-out renderings parsed by the real parser",
        "text": "Syntax trees over 36 forms (every ordered pair of forms forced, forced triples, random trees to depth 5, a targeted family of multi-segment paths after brackets) are rendered fully parenthesised, minimally parenthesised (left/right exposure of every sub-form tracked), minimally with each strictly needed pair removed one at a time, and in token-preserving layouts (blanks, tabs, newlines, Unicode spaces, line and block comments); parse_expression must return exactly the expected tree for the first, second and fourth, and a different tree or an error for the third. String escapes (uXXXX, UXXXXXX and surrogate-pair forms) are swept over code-point classes against the Python-computed string; unary tests are checked through parse_unary_tests.",
        "note": "The precedence/associativity table in lib/props/c06.py is my restatement of the FEEL grammar cross-read with feel.y. Operand positions whose grammar limits are not restated (between bounds, iteration domains) are parenthesised conservatively and excluded from the removal test. All names are single words bound in the parsing scope (C10 owns the rest). Single-segment QualifiedName and Name nodes are identified.",
        "design_ref": "DESIGN.md §3 C06",
    },
    "C07": {
        "category": "exploration",
        "technique": "in-driver runtime oracle (digit-string arithmetic) over an exponent x length x shape sweep + independent Python Decimal / strict JSON cross-check, replayed under ASan and (a stride) under valgrind memcheck",
        "text": "For every exponent (thorough: all of -6176..6111; quick: bands around 0 and both range ends plus a stride) x coefficient length 1..34 x 4 shapes x both signs, the real FeelNumber is printed with to_string and jsonify and read back; the driver checks the text is a plain decimal / JSON number denoting exactly the value and round-trips; a seeded sample is also pushed through FEEL literals and xsd:decimal conversion and cross-checked in Python.",
        "note": "Expected values come from shifting the decimal point in the digit string, independent of the code under test; the ASan and memcheck replays watch the 43-byte string buffer and the C string conversions at the FFI boundary.",
        "design_ref": "DESIGN.md §3 C07",
    },
    "C09": {
        "category": "exploration",
        "technique": "runtime law monitor over observed evaluations by warm evaluators (exhaustive value alphabet + seeded random values; interval end points as names and as literals)",
        "text": "Every ordered pair of a 51-value alphabet (all value kinds) under all 8 operators and every same-kind triple of the ordered kinds under between / 4 interval forms / explicit comparisons is evaluated by the real parser+evaluator; the stated laws are checked between the observed results. Exhaustive over the alphabet, sampled beyond it.",
        "note": "Trusts only the law statements themselves; values outside the alphabet are sampled (seeded). Scope bindings are built programmatically.",
        "design_ref": "DESIGN.md §3 C09",
    },
}

CLAIMS["C11"] = {
    "category": "exploration",
    "technique": "reference-model oracle (Python transcription of the conformance/coercion statement) over observed model evaluations; exhaustive enumeration of item-definition trees",
    "text": "All 5240 item-definition trees to depth 3 (8 simple types x plain / allowedValues / reference / reference+allowedValues / component / isCollection, plus built-in typeRefs) are written as DMN XML, loaded by the real parser and ModelEvaluator and evaluated with one conforming and one violating value at every position of the tree; what reaches the decision logic through inputData (decision and decision-service route) and what a decision, BKM and decision service return through a typed output variable is compared with the statement's prescription (unchanged / component-null / null; unchanged / wrapped / unwrapped / null). Quick runs all per-type-closure trees plus a seeded 1-in-8 sample, thorough all trees (1.25M evaluations).",
    "note": "Oracle = lib/gitemdef.py conform()/coerce_result(). Null items inside collections and singleton conversions of inputs are undecided; missing / extra components are not generated; typeRef spellings are those of the shipped models. Built on dbg only.",
    "design_ref": "DESIGN.md §3 C11",
}

CLAIMS["C08"] = {
    "category": "exploration",
    "technique": "reference-model oracle (R-BIF, independent Python reference of the listed built-ins) over observed invocations by warm evaluators (first use over a decoy scope, repetition), arguments as names, literals and value-preserving expressions + metamorphic named-vs-positional monitor; 10 % replay on ASan in the thorough tier",
    "text": "(Size-boundary class: every list and string function also over lists and strings of 16-300 items / characters, all-strings, all-numbers, mixed, with duplicates.) Seeded and enumerated argument tuples are bound to scope names (partly spelled as literals) and invoked through the real parser and evaluator positionally and with named parameters in several orders: every start and length from -(L+2) to L+2 over ASCII/BMP/astral strings and lists of length 0..8 with nulls, nesting and duplicates; 1.0-style and fractional positions; values near 2^63/2^64; every function x arity 0..4 over 16 value kinds; regex, number() and equality grids. Every observed value is compared with R-BIF (written from DMN 1.3 tables 72-76, self-checked on 65 examples of those tables) and every named invocation with its positional twin; panics are violations. Quick ~0.4 M calls, thorough ~5 M.",
    "note": "R-BIF (lib/rbif.py) is trusted. Where the specification supports two readings (singleton-list conversion of arguments, explicit null for optional parameters, non-integer lengths) both results are accepted; regex functions are decided only on a validated subset common to XPath, Rust regex and Python re; string() of lists/contexts, custom sort orders and date min/max are undecided. Aggregates within 2 ulp.",
    "design_ref": "DESIGN.md §3 C08",
}
CLAIMS["C16"] = {
    "category": "exploration",
    "technique": "in-driver law monitor over an exhaustively observed relation matrix + independent DMN 10.3.2.9 reference with blame localisation + coercion rule oracle (direct and through FEEL invocations)",
    "text": "The driver builds the type universe on the real FeelType (10 simple types; list, range, context 0..2 entries, function 0..2 parameters), observes is_conformant and is_equivalent for every ordered pair by real calls, and decides reflexivity, top/bottom, symmetry, equivalence => mutual conformance, co/contra-variance, 'different results are not equivalent' on all pairs and transitivity on all triples (bit-row inclusion) plus seeded direct triples; every pair is also compared with an independent reference. Depth 1 (1261 types, 1.59 M pairs, 2.0e9 triples) is exhaustive; depth 2 is walked by seeded families and, in the thorough tier, exhaustively over reduced bases (up to 15251 types). coerced() is checked on 3809 inhabitant values x 2512 targets against the statement's rule, result-conforms-or-null, idempotence and type_of; the same rule is observed through 2 M real FEEL invocations (function(x: T) x)(v).",
    "note": "Held on what was enumerated: depth 2 is sampled except over reduced bases. The reference (mod reference in ops_types.rs) is trusted; context width, which the statement does not spell out, is undecided when the code rejects it. The coercion rule is decided with the implementation's own is_conformant (itself checked pair by pair).",
    "design_ref": "DESIGN.md §3 C16",
}
CLAIMS["C19"] = {
    "category": "exploration",
    "technique": "generated Unicode drawings with a field-by-field reference comparison; differential against the DMN XML twin; single-character text corruption (thorough: plus a libFuzzer slot) for totality; dbg, rel and ASan builds",
    "text": "Abstract tables (1..5 inputs, 1..3 outputs, 0..2 annotations, 1..8 rules, all 11 markers, both orientations, all optional-part combinations, multi-line and merged cells) are drawn by an independent renderer (validated each run by re-drawing the 70 shipped examples), recognised by the real dmntk_recognizer::build and compared field by field with what was drawn; each recognised table is evaluated and compared with its DMN-XML twin on inputs steered to match no, one and several rules; 114k (quick) / 2.2M (thorough) corruptions per build plus arbitrary texts must be recognised or rejected without panic, abort or hang on debug, release and a 10 % ASan slice, and debug and release must agree on accept vs reject.",
    "note": "Crosstab drawings are not generated (unimplemented in the recognizer); default output entries cannot be drawn; evaluator semantics shared by the text path and the XML twin are C03's subject. G-DRAW (lib/gdraw.py) is trusted as far as its self-validation on the shipped examples goes.",
    "design_ref": "DESIGN.md §3 C19",
}

CLAIMS["C14"] = {
    "category": "exploration",
    "technique": "reference-model monitor (independent literal grammar / validator / normal forms) over the real TryFrom / Display / xsd conversions and the FEEL parse+evaluate path",
    "text": "Every whole-minute offset -14:59..+14:59 and every zone id of the implementation's table on time and date-time, boundary grids of year/month/day/hour/minute/second, seeded random dates/times/date-times/durations (0..9+ fraction digits, components to 2^64-1) and single-character delete/replace/insert corruptions at every position of valid literals are classified by an independent validator and pushed through date()/time()/date and time()/duration()/@-literals/string()/xsd input; acceptance, denoted components, printed form (valid literal, equal on re-read, stable, durations normalised) are compared. Quick ~63k literals / 240k observations, thorough ~2.6M literals.",
    "note": "Trusts lib/rtemporal.py and the zone table as listed by chrono_tz::TZ_VARIANTS. Undecided classes (year 0000, lowercase z, >9 fraction digits, PT0.S, mixed durations, zone-id case, components beyond u64/i64) are counted, never violations. Offsets and zones are exhaustive, the rest sampled by seed.",
    "design_ref": "DESIGN.md §3 C14",
}
CLAIMS["C15"] = {
    "category": "exploration",
    "technique": "reference-model monitor: integer proleptic-Gregorian calendar and UTC-line instants (zoneinfo on both the system and the bundled tz database) against the real constructor, literal and FEEL evaluator; exhaustive in-driver calendar sweep",
    "text": "Exhaustive in both tiers: every (y,m,d), y in -1..2400, m in 0..13, d in 0..32 (1,109,724 cells) through date(y,m,d) (tuple constructor and built-in) and through the literal, weekday of all 877,313 valid dates, order of consecutive dates. Seeded: out-of-range components of date(y,m,d); date triples up to year +-999999999 under <,<=,>,>=,=,!=,between,in,unary tests and the properties; date-time triples with offsets and named zones under =,!=,unary tests,between,4 interval forms, subtraction both ways and all properties; time properties; whole months between dates; duration triples (add, negate, =, order, components).",
    "note": "Named zones decided for instants in 1980-2019 on which the system tz database and chrono-tz's bundled 2022a agree and whose local time is unambiguous in both (30% of the zoned groups lie within 16 h of a transition). Date-times ordered through between/in/unary tests only (the evaluator has no < for them). Undecided: year 0000 literal, end-of-month clipping in whole-months, hostile operands (only panics count).",
    "design_ref": "DESIGN.md §3 C15",
}
CLAIMS["C17"] = {
    "category": "exploration",
    "technique": "runtime invariant monitor at a read-only hook + reference-model (history) checker; breadth-first closure of the implementation's reachable states, literal enumeration of short histories, seeded long histories",
    "text": "Histories of add / replace / remove / clear / deploy over a 7-model alphabet (same namespace, same name, identical twin, disjoint, namespace equal to another model's name, one that fails to build) and 52 operations (every exact, cross and absent (namespace, name) remove pair) run on the real dmntk_workspace::Workspace. After every operation the verif_snapshot hook and evaluate_invocable probes are compared with a sequential model of the statement (I1 indexes = list, I2 add iff no clash, I3 remove/replace, I4 evaluators and content). The driver walks all reachable self-consistent snapshot states breadth-first (846 states, 44k transitions, frontier closed), each transition validated in Python; all histories of length <=4 (quick), <=5 over 19 operations and <=6 over 10 operations (thorough), and 6k / 60k random histories of length 7-40 are checked the same way.",
    "note": "Oracle = lib/wsmodel.py; the hook is trusted to read faithfully. Outcomes the statement leaves open are accepted (models sharing exactly one key with a cross-pair remove or a replaced model may stay or go; evaluators after an operation that changed nothing). List order is not compared. Inconsistent states are not expanded.",
    "design_ref": "DESIGN.md §3 C17",
}
CLAIMS["C18"] = {
    "category": "exploration",
    "technique": "black-box runtime monitoring of the real HTTP service on loopback: strict JSON parsing of every response, echo/round-trip value oracle, reference workspace model over the request history, fault injection with liveness probes; concurrent clients (with a writer) against the dbg build and against the ThreadSanitizer build of the service (Rust std, actix, dmntk, decNumber C instrumented)",
    "text": "The real dmntk_server::start_server runs inside the driver on 16 loopback ports. Seeded request histories mix definitions add / replace / remove / clear / deploy, evaluations of constant decisions, and echo decisions through /evaluate (FEEL literals) and /tck/evaluate (typed): 11 string classes (quotes, backslashes, control, non-ASCII, astral, injection, escape-needing AND multi-byte in one string), 10 number strata, booleans, nulls, nested lists, contexts with 6 key classes; every third definitions request carries its model in another XML spelling (lib/xmlvar.py), 5 temporal kinds; faults from 21 malformed-request classes. Every body must parse as strict JSON with a data or errors envelope and decode to the value sent; responses must follow the reference workspace model (replace substitutes the stored model); after every fault workers+4 valid probes on fresh connections must be answered (bounded wait, re-probed; only persistent failure counts). Quick 96 histories x 20-60 requests, thorough 1600 x 20-200.",
    "note": "Oracle = lib/wsmodel.py plus Python json in strict mode. Cross-pair removes are left to C17; replace with a one-key clash and evaluation after no-op mutations are undecided; responses to raw framing garbage are judged for liveness only. dbg build; the concurrent-clients phase also on the tsan build (skipped with a note in the evidence if that variant cannot be built).",
    "design_ref": "DESIGN.md §3 C18",
}

CLAIMS["C12"] = {
    "category": "fault_enumeration",
    "technique": "exhaustive single-fault injection over model texts (span-level XML mutator) + sampled fault pairs + character-level corruption, observed through the panic / crash / hang channel of the real loader and evaluator (thorough tier: plus documents from a libFuzzer slot seeded with the shipped models) on dbg, rel and an ASan slice",
    "text": "For each .dmn file shipped under /repo/examples (149, found at run time) and 15 generated DMN 1.3 models, every single structural fault at every position (element: delete / duplicate / empty / swap / delete-all-same-named; attribute: delete / empty / garble; text: empty / garbage / broken FEEL; href: missing id, own DRG element, every transitive requirer, XML ancestor, element of another kind; typeRef: missing, other simple type, own / ancestor / referencing item definition) - 177k faults in 1140 fault-kind x element-kind classes - is applied to the text and pushed through dmntk_model::parse -> ModelEvaluator::new -> evaluate_invocable(every invocable x 5 input contexts incl. wrongly typed ones) on an 8 MiB stack; plus sampled / designed fault pairs, seeded character corruptions and truncations and 21 hostile documents. Thorough runs all single faults on dbg, 20% on rel, 10% under ASan; quick a stride sample of ~7k covering every class. Any panic, process death, confirmed hang (re-run alone, 300 s) or poisoned lock is a violation.",
    "note": "Oracle is the channel only (values / nulls / errors are never judged). Pairs are sampled, corruption is seeded random. Crash signatures are fault kind x element (pairs attributed to the single fault that suffices, else to the cycle they build); panic signatures carry a hash of the source line at the panic location. Mutants of the shipped N_0088.dmn, which crashes unmodified, inherit its signature.",
    "design_ref": "DESIGN.md §3 C12",
}

CLAIMS["C10"] = {
    "category": "exploration",
    "technique": "reference-model oracle (R-FEEL over the generator's tree in which each intended name occurrence is one identifier) over observed parse+evaluate in programmatically built scopes (warm evaluators, pre-parse under another scope shape) and over histories on one scope object whose names are re-bound between parses",
    "text": "Seeded name sets (1-4 word names with and without the additional symbols . / - ' + *, non-ASCII words, and the adversarial families: a name that is a prefix of another; a, b and a-b / a+b / a*b / a/b all bound; a+b bound but b not; three-word symbol names) are bound through Name::new and used in 33 expression positions (operands of every arithmetic operator, comparisons, between, in, if, for / some / every domains and bodies, multi-word iteration variables and formal parameters, filters, context values and multi-word keys, path heads, positional and named invocation), each name occurrence written in random spellings (1-3 blanks, tabs, line breaks between words; blanks or not around symbols); the value must equal the reference value of the tree. Quick 250 rounds x 17 families (~254k evaluations), thorough 8000 rounds.",
    "note": "Words are never keywords, literals or built-in names; name sets in which two bound names joined by a symbol or a blank read as a third bound name arise only in the families built on purpose (there the longest bound name is the expected reading).",
    "design_ref": "DESIGN.md §3 C10",
}
CLAIMS["C13"] = {
    "category": "exploration",
    "technique": "runtime invariant monitors next to the observed state (scope snapshot before / after parse and evaluate, around decision-table evaluators, input-context snapshot around evaluate_invocable) + history checker over repeated interleaved evaluations (each compared with the same evaluation made alone on a freshly prepared evaluator) + parse histories on one long-lived scope object compared with the same text on a fresh scope object and thread",
    "text": "(Incl. built-ins over long arguments, 17-257 items, so that a change of algorithm with the size is under the repeatability monitors.) Expressions forced through the constructs that push temporary contexts (context literals, filters, for / some / every, invocations, unary tests, paths) are parsed and evaluated 3x in scopes of 1-4 layers while the driver renders the scope before the parse, after it and after every evaluation; successful parses through all six entry points are checked the same way; histories of 200-2000 steps evaluate 8 prepared evaluators over 4 long-lived scopes in random order and compare every observation with the first one of the same pair and the scope with its initial rendering; generated DMN models (boxed contexts, invocations, BKMs, services, tables) have every (invocable, input) pair called 3x interleaved in random order with the input context rendered before and after; parse histories (phase 6): 4-10 texts parsed (half of the introducers of local names parsed only) and evaluated one after the other over ONE long-lived scope object, each compared with the same text over a fresh scope object with the same bindings on a fresh thread.",
    "note": "The scope's Display rendering is taken as a faithful witness of its contents (what it does not show - a cache inside the scope object - is covered by the parse histories); values depending on the current date are not generated.",
    "design_ref": "DESIGN.md §3 C13",
}

CLAIMS["C20"] = {
    "category": "exploration",
    "technique": "concurrency stress (cold-start phase: first evaluations of every invocable made by all threads together on a fresh evaluator; free phase with hook-injected delays, hammer phase on one invocable with few identical inputs, rendezvous monitor), logical-clock event log checked against expectations computed for every call alone (fresh evaluator on a fresh thread), lock-poison probe, cross-talk tags; ThreadSanitizer build with the decNumber C sources instrumented",
    "text": "One Arc<ModelEvaluator> per model (regular-expression, numeric and temporal-with-zones decisions, a boxed context using a knowledge model, a decision service; generated graphs with nested decisions, BKM chains, tables and services) (plus a decision that calls a decision service as a function) is shared by 2, 3, 4, 8 and 16 threads; before the shared evaluators are used, each model is built afresh twice per repetition and the threads make the FIRST evaluation of each of its invocables together behind a barrier (what is prepared lazily on first use is prepared under contention); then the evaluators are shared by the threads released by a start barrier, each running a seeded permutation of 60-400 calls while the model-evaluator verification hook injects seeded yields / spins / sleeps after the read guards are taken; every call is logged against one logical clock and its result compared with the sequential result of the same (invocable, input); each repetition ends with rendezvous rounds in which the hook holds K = thread-count evaluations inside the evaluator simultaneously (impossible if any write lock were taken on the path), then the nine locks are probed for poison and the hook payloads for another call's tag. The same workload runs on a ThreadSanitizer build (std rebuilt, C sources instrumented); reports with dmntk or decNumber frames are violations. Quick 40 repetitions (~45k call events, ~280k overlapping pairs, concurrency up to 16), thorough 1500.",
    "note": "Only the interleavings that occurred are covered. Termination is bounded progress (gate 20 s, repetition 180 s, re-run alone 300 s). If the TSan build is unavailable the check says so and decides on the dbg build only.",
    "design_ref": "DESIGN.md §3 C20",
}

MIRRORED = {"C01", "C02", "C03", "C04", "C06", "C07", "C08", "C09", "C11", "C13", "C14", "C15", "C17"}
ENV_MIRRORED = MIRRORED - {"C09", "C15"}
ALONE_ONLY = {"C05", "C10", "C12", "C16", "C19"}


def mirror_note(pid):
    if pid in MIRRORED:
        parts = ["on the release build"]
        if pid in ENV_MIRRORED:
            parts.append("on the debug build in another process environment (time zone with a 30-minute daylight-saving shift, Turkish locale, other working directory)")
        parts.append("case by case in fresh processes")
        return "; differential replicas of the judged debug run (a stride of its driver cases is replayed " + ", ".join(parts) + "; the records must be identical)"
    if pid in ALONE_ONLY:
        return "; differential replica of the judged debug run (a stride of its driver cases is replayed case by case in fresh processes; the records must be identical)"
    return ""


NOT_YET = "check not built yet in this round (work in progress; see DESIGN.md for the planned monitor)"


def hook_commits():
    try:
        out = subprocess.run(["git", "-C", "/repo", "log", "--format=%h %s"], stdout=subprocess.PIPE, text=True).stdout
    except Exception:
        return []
    return [l.split()[0] for l in out.splitlines() if " hook:" in " " + l or l.split(" ", 1)[1].startswith("hook")]


def main():
    checks = []
    for pid in ALL:
        c = CLAIMS.get(pid)
        if not c:
            continue
        checks.append(
            {
                "property_id": pid,
                "quick_cmd": "./check %s --tier quick" % pid,
                "thorough_cmd": "./check %s --tier thorough" % pid,
                "evidence_file": "/verif/evidence/%s.json" % pid,
                "replay_cmd_template": "./check %s --replay {path}" % pid,
                "engine": "dmntk-verif-driver",
                "level_claimed": {"category": c["category"], "text": c["text"], "design_ref": c.get("design_ref", "DESIGN.md §3")},
                "level_note": c["note"],
                "technique": c["technique"] + mirror_note(pid),
            }
        )
    manifest = {
        "version": 1,
        "setup_cmd": "./setup",
        "hooks": {
            "guard": "--cfg dmntk_verif",
            "enable": "RUSTFLAGS=\"--cfg dmntk_verif\" (set by lib/runner.py for every driver build; the harness crate patches all dmntk-* crates to /repo/<dir>)",
            "baseline_off_cmd": "cd /repo && cargo test --workspace --no-fail-fast --offline",
            "source_commits": hook_commits(),
            "add_only": True,
        },
        "engines": [
            {
                "name": "dmntk-verif-driver",
                "path": "/verif/harness",
                "serves_properties": [c["property_id"] for c in checks],
                "kind_free_text": "Rust driver linking the real dmntk crates from /repo (dbg / rel / ASan / TSan builds) + Python supervisor with reference oracles, law checkers and history checkers (lib/)",
            }
        ],
        "checks": checks,
        "notes": "Runtime monitoring and sanitizers only. Exit 0 held / 1 VIOLATION / 3 INCONCLUSIVE (never a VIOLATION line). Known findings: /verif/known_findings/<ID>.json (status known | fixed; fixed entries suppress nothing). Seeded changes used to validate the checks: /verif/seeded (DESIGN.md section 8.5).",
        "not_applicable": [{"property_id": pid, "reason": NOT_YET} for pid in ALL if pid not in CLAIMS],
    }
    with open(os.path.join(VERIF, "MANIFEST.json"), "w") as f:
        json.dump(manifest, f, indent=1)
    print("MANIFEST.json: %d checks, %d not_applicable" % (len(checks), len(manifest["not_applicable"])))


if __name__ == "__main__":
    main()
