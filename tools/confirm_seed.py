#!/usr/bin/env python3
"""confirm_seed.py <ID> <round>: confirms a sub-agent's seeded change independently of its own worktree: fresh worktree
/tmp/d<round>_<ID> of /repo HEAD, `git apply seed/patch.diff`, then the command blocks of seed/demo/RUN.md (paths rewritten)
are run in order (with the change, without it); prints the result lines; log in /tmp/confirm/<ID>.log. Development aid."""
import os, re, shutil, subprocess, sys
pid = sys.argv[1]
rnd = sys.argv[2] if len(sys.argv) > 2 else "5"
src, wt, work = "/tmp/s%s_%s" % (rnd, pid), "/tmp/d%s_%s" % (rnd, pid), "/tmp/d%swork_%s" % (rnd, pid)
subprocess.run(["git", "-C", "/repo", "worktree", "remove", "--force", wt], capture_output=True)
shutil.rmtree(wt, ignore_errors=True); shutil.rmtree(work, ignore_errors=True)
subprocess.run(["git", "-C", "/repo", "worktree", "add", "-q", "--detach", wt, "HEAD"], check=True)
shutil.copytree(src + "/seed", wt + "/seed", ignore=shutil.ignore_patterns("target"))
for root, _, files in os.walk(wt + "/seed"):
    for f in files:
        p = os.path.join(root, f)
        try:
            t = open(p).read()
        except Exception:
            continue
        t2 = t.replace("s%s_%s" % (rnd, pid), "d%s_%s" % (rnd, pid)).replace("s%swork_%s" % (rnd, pid), "d%swork_%s" % (rnd, pid))
        if t2 != t:
            open(p, "w").write(t2)
ap = subprocess.run(["git", "-C", wt, "apply", "seed/patch.diff"], capture_output=True, text=True)
print("APPLY rc=%d %s" % (ap.returncode, ap.stderr.strip()[:300]))
if os.path.exists(src + "/Cargo.lock") and not os.path.exists(wt + "/Cargo.lock"):
    shutil.copy(src + "/Cargo.lock", wt + "/Cargo.lock")
os.makedirs(work, exist_ok=True)
run = open(wt + "/seed/demo/RUN.md").read()
blocks = re.findall(r"```[a-z]*\n(.*?)```", run, re.S)
if not blocks:
    cur = []
    for line in run.splitlines() + [""]:
        if line.startswith("    "):
            cur.append(line[4:])
        elif line.strip() == "" and cur:
            cur.append("")
        else:
            if cur:
                blocks.append("\n".join(cur) + "\n")
            cur = []
cmdstart = re.compile(r"^\s*((cd|mkdir|cp|git|cargo|RUST_BACKTRACE|CARGO_NET_OFFLINE|rm|echo|for|export|bash|sh)\b|[A-Z][A-Z_]*=|\(cd\b)")
script = ["set -x", "export CARGO_NET_OFFLINE=true RUST_BACKTRACE=0"]
n = 0
for b in blocks:
    first = [l for l in b.splitlines() if l.strip() and not l.strip().startswith("#")]
    if first and cmdstart.match(first[0]):
        n += 1
        script.append("echo '##### BLOCK %d'" % n)
        script.append(b)
open(work + "/confirm.sh", "w").write("\n".join(script) + "\n")
p = subprocess.run(["bash", work + "/confirm.sh"], capture_output=True, text=True, timeout=3600, cwd=wt)
log = p.stdout + "\n=====STDERR\n" + p.stderr
open("/tmp/confirm/%s.log" % pid, "w").write(log)
keep = [l for l in (p.stdout + p.stderr).splitlines() if re.search(r"##### BLOCK|^test result|^\+ git|FAIL|PASS|VIOLATED|holds|exit=|passed|panicked at|RESULT", l)]
print("\n".join(l[:200] for l in keep[:60]))
subprocess.run(["git", "-C", "/repo", "worktree", "remove", "--force", wt], capture_output=True)
shutil.rmtree(wt, ignore_errors=True); shutil.rmtree(work, ignore_errors=True)
