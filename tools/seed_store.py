#!/usr/bin/env python3
"""seed_store.py ID WORKTREE 'caught-by text' 'signatures seen' [note]
Copies <worktree>/seed/{patch.diff,demo,NOTES.md} to /verif/seeded/<ID>/ and writes meta.json."""
import json, os, shutil, sys, subprocess
pid, wt, caught, sigs = sys.argv[1:5]
note = sys.argv[5] if len(sys.argv) > 5 else ""
dst = os.path.join("/verif/seeded", pid + os.environ.get("SEED_SUFFIX", ""))
if os.path.isdir(dst):
    shutil.rmtree(dst)
os.makedirs(dst)
src = os.path.join(wt, "seed")
shutil.copy(os.path.join(src, "patch.diff"), dst)
if os.path.isdir(os.path.join(src, "demo")):
    shutil.copytree(os.path.join(src, "demo"), os.path.join(dst, "demo"), ignore=shutil.ignore_patterns("target", "Cargo.lock"))
if os.path.exists(os.path.join(src, "NOTES.md")):
    shutil.copy(os.path.join(src, "NOTES.md"), dst)
files = subprocess.run(["git", "-C", wt, "diff", "--stat", "HEAD", "--", ".", ":!seed"], capture_output=True, text=True).stdout.strip().splitlines()
meta = {"id": pid, "origin": "fresh sub-agent given only the property text and a scratch worktree", "base_commit": subprocess.run(["git", "-C", wt, "rev-parse", "HEAD"], capture_output=True, text=True).stdout.strip(),
        "files_changed": files, "caught_by": caught, "signatures": sigs, "note": note,
        "apply": "git -C /repo apply /verif/seeded/%s/patch.diff ; ./check %s ; git -C /repo checkout -- ." % (pid + os.environ.get("SEED_SUFFIX", ""), pid)}
json.dump(meta, open(os.path.join(dst, "meta.json"), "w"), indent=1)
print("stored", dst, os.listdir(dst))
