import re, json, glob, os, collections
txt = open('/verif/DESIGN.md').read()
sec = txt[txt.index('### 8.5'):]
rows = [l for l in sec.split('\n') if l.startswith('| round')]
tried = collections.defaultdict(list)
for r in rows:
    cells = r.split('|')[2:]
    body = ' ; '.join(cells)
    body = body.replace('**', '')
    # split at "; Cxx " or ". Cxx " boundaries
    parts = re.split(r'(?:(?<=[;.→])\s+|^\s*)(?=C\d\d(?:\s*/\s*C\d\d)?\s)', body)
    for p in parts:
        m = re.match(r'(C\d\d)(?:\s*/\s*(C\d\d))?\s+(.*)', p.strip(), re.S)
        if not m: continue
        t = m.group(3).strip().rstrip(';').strip()
        t = re.split(r'\s+[-–—]\s+(?:no |missed|every |the check|invisible|pads|rows|templates|variables|arguments|scopes|end points|layouts|one |element|string literals|generated|references|zones|knowledge-model|singletons|comment bodies|only)', t)[0]
        t = t.split('→')[0].strip()
        for pid in (m.group(1), m.group(2)):
            if pid and len(t) > 15:
                tried[pid].append(t[:260])
for m in sorted(glob.glob('/verif/seeded/*/meta.json')):
    j = json.load(open(m)); pid = j['id']
    n = j.get('needs_to_manifest')
    if n: tried[pid].append('(trigger used before) ' + n[:200])
json.dump(tried, open('/verif/seeded/tried.json', 'w'), indent=1, ensure_ascii=False)
for k in sorted(tried): print(k, len(tried[k]))
print('\n'.join(tried['C13']))
