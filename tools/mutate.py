#!/usr/bin/env python3
"""mutate.py --slot K --file <path in repo> --crate <cargo package> --checks C01,C13 [--max N] [--seed S] [--lines A-B]

Mechanical mutation of one source file of /repo in a scratch worktree (/tmp/mut_<K>), as a measurement of what the registered
quick checks see. A mutant counts only if the crate still compiles and the crate's own test-suite gives exactly the results it
gives at HEAD (the other crates link the registry copies and cannot see the change); each such *suite-surviving* mutant is then
handed to the listed checks (VERIF_REPO=<worktree> ./check <ID> --tier quick). Results are appended to
/verif/seeded/mutants/<slug>.jsonl. Development aid; never used by a registered command and never touches /repo.

Operators (line based, code before the first #[cfg(test)] only, comments and attribute lines skipped):
  rel   < <-> <=, > <-> >=          eq   == <-> !=            logic  && <-> ||        bool  true <-> false
  arith ' + ' <-> ' - ', '+ 1' <-> '- 1'                    const  integer literal n -> n+1 (n < 100)
  del   a statement line that is a call ending in ';' (scope.pop(), x.push(..), insert, remove, clear, set_entry, truncate, sort..) is deleted
  swap  'lhs' <-> 'rhs' / 'left' <-> 'right' identifiers swapped within the line
  rev   '.rev()' removed / '.iter()' -> '.iter().rev()' is NOT generated (too noisy)
  skip1 '.skip(1)' -> '.skip(0)', 'take(n)' untouched     unwrap_or: unwrap_or(true/false) flipped via bool
"""
import argparse, hashlib, json, os, random, re, subprocess, sys, time

ap = argparse.ArgumentParser()
ap.add_argument("--slot", required=True)
ap.add_argument("--file", required=True)
ap.add_argument("--crate", required=True)
ap.add_argument("--checks", required=True)
ap.add_argument("--max", type=int, default=20)
ap.add_argument("--seed", type=int, default=1)
ap.add_argument("--lines", default="")
ap.add_argument("--ops", default="")
ap.add_argument("--jobs", default="6")
args = ap.parse_args()

WT = "/tmp/mut_%s" % args.slot
WORK = "/tmp/mutwork_%s" % args.slot
os.makedirs(WORK, exist_ok=True)
if not os.path.isdir(WT):
    subprocess.check_call(["git", "-C", "/repo", "worktree", "add", "--detach", "-q", WT, "HEAD"])
subprocess.check_call(["git", "-C", WT, "checkout", "-q", "--", "."])
env = dict(os.environ, CARGO_NET_OFFLINE="true", RUST_BACKTRACE="0")
path = os.path.join(WT, args.file)
orig = open(path).read()
lines = orig.split("\n")


def suite():
    """(ok, summary): summary = sorted failed test names + the 'test result' lines"""
    p = subprocess.run(["cargo", "test", "--offline", "-j", args.jobs, "-p", args.crate, "--no-fail-fast", "--target-dir", WORK + "/target"],
                       cwd=WT, env=env, capture_output=True, text=True, timeout=1800)
    out = p.stdout + p.stderr
    if "error: could not compile" in out or re.search(r"^error(\[E\d+\])?:", out, re.M) and "test result" not in out:
        return None, out[-1500:]
    res = re.findall(r"^test result: .*?(\d+) passed; (\d+) failed; (\d+) ignored", out, re.M)
    failed = sorted(set(re.findall(r"^test (\S+) \.\.\. FAILED", out, re.M)))
    return True, json.dumps({"results": res, "failed": failed})


base_file = os.path.join(WORK, "baseline_%s.json" % args.crate)
if os.path.exists(base_file):
    BASE = open(base_file).read()
else:
    ok, BASE = suite()
    if not ok:
        print("baseline does not build", BASE)
        sys.exit(2)
    open(base_file, "w").write(BASE)
print("[mutate] baseline", BASE[:300], flush=True)

# ---------------------------------------------------------------------------------------------- candidates
end = len(lines)
for i, l in enumerate(lines):
    if l.strip().startswith("#[cfg(test)]"):
        end = i
        break
lo, hi = 0, end
if args.lines:
    a, b = args.lines.split("-")
    lo, hi = int(a) - 1, min(end, int(b))


def strip_strings(l):
    return re.sub(r'"(?:[^"\\]|\\.)*"', lambda m: '"' + "_" * (len(m.group(0)) - 2) + '"', l)


cands = []
for i in range(lo, hi):
    l = lines[i]
    s = l.strip()
    if not s or s.startswith("//") or s.startswith("#[") or s.startswith("use ") or s.startswith("///") or s.startswith("*") or s.startswith("/*"):
        continue
    code = strip_strings(l).split("//")[0]

    def sub(op, pat, rep, count=1):
        for m in re.finditer(pat, code):
            new = l[: m.start()] + m.expand(rep) + l[m.end():]
            if new != l:
                cands.append((i, op, new))

    sub("rel", r" < (?![^()]*>)", " <= ")
    sub("rel", r" <= ", " < ")
    sub("rel", r"(?<![-=]) > ", " >= ")
    sub("rel", r" >= ", " > ")
    sub("eq", r" == ", " != ")
    sub("eq", r" != ", " == ")
    sub("logic", r" && ", " || ")
    sub("logic", r" \|\| ", " && ")
    sub("bool", r"\btrue\b", "false")
    sub("bool", r"\bfalse\b", "true")
    sub("arith", r" \+ 1\b", " - 1")
    sub("arith", r" - 1\b", " + 1")
    sub("arith", r"(?<=[\w)\]]) \+ (?=[\w(])", " - ")
    sub("arith", r"(?<=[\w)\]]) - (?=[\w(])", " + ")
    for m in re.finditer(r"(?<![\w.])(\d{1,2})(?![\w.])", code):
        n = int(m.group(1))
        cands.append((i, "const", l[: m.start()] + str(n + 1) + l[m.end():]))
    if re.match(r"^\s*[\w.]+\.(pop|push|insert|remove|clear|set_entry|truncate|sort|sort_by|dedup|reverse|retain|extend|append|push_str|push_back|pop_back)\(.*\);\s*$", code):
        cands.append((i, "del", re.match(r"^\s*", l).group(0) + "// (deleted) " + s))
    for a, b in (("lhs", "rhs"), ("left", "right"), ("lh", "rh")):
        if re.search(r"\b%s\b" % a, code) and re.search(r"\b%s\b" % b, code):
            new = re.sub(r"\b(%s|%s)\b" % (a, b), lambda m: b if m.group(1) == a else a, l)
            cands.append((i, "swap", new))
    sub("skip1", r"\.skip\(1\)", ".skip(0)")
    sub("rev", r"\.rev\(\)", "")
if args.ops:
    keep = set(args.ops.split(","))
    cands = [c for c in cands if c[1] in keep]
rng = random.Random("%s|%s|%s" % (args.seed, args.file, args.lines))
rng.shuffle(cands)
# round-robin over operators so that a sample has all kinds
byop = {}
for c in cands:
    byop.setdefault(c[1], []).append(c)
order = []
while any(byop.values()):
    for op in sorted(byop):
        if byop[op]:
            order.append(byop[op].pop())
print("[mutate] %d candidates in %s lines %d-%d; trying until %d survive the suite" % (len(order), args.file, lo + 1, hi, args.max), flush=True)

slug = re.sub(r"[^A-Za-z0-9]+", "_", args.file)
os.makedirs("/verif/seeded/mutants", exist_ok=True)
outf = "/verif/seeded/mutants/%s.jsonl" % slug
done = set()
if os.path.exists(outf):
    for l in open(outf):
        j = json.loads(l)
        done.add((j["line"], j["after"]))
survived = 0
checks = args.checks.split(",")
try:
    for (i, op, new) in order:
        if survived >= args.max:
            break
        if (i + 1, new.strip()) in done:
            continue
        ml = list(lines)
        ml[i] = new
        open(path, "w").write("\n".join(ml))
        t0 = time.time()
        ok, summ = suite()
        rec = {"file": args.file, "line": i + 1, "op": op, "before": lines[i].strip(), "after": new.strip(), "base": subprocess.run(["git", "-C", WT, "rev-parse", "--short", "HEAD"], capture_output=True, text=True).stdout.strip()}
        if ok is None:
            rec["suite"] = "does-not-compile"
        elif summ != BASE:
            rec["suite"] = "killed-by-suite"
        else:
            rec["suite"] = "survived"
            survived += 1
            rec["checks"] = {}
            for cid in checks:
                p = subprocess.run(["./check", cid, "--tier", "quick", "--seed", str(args.seed)], cwd="/verif", env=dict(env, VERIF_REPO=WT), capture_output=True, text=True, timeout=3600)
                sigs = re.findall(r"signature=(\S+)", "\n".join(x for x in p.stdout.splitlines() if "KNOWN-FINDING" not in x))
                verdict = {0: "missed", 1: "CAUGHT", 3: "inconclusive"}.get(p.returncode, "rc=%d" % p.returncode)
                rec["checks"][cid] = {"verdict": verdict, "signatures": len(set(sigs)), "first": sorted(set(sigs))[:3]}
                if verdict not in ("missed", "CAUGHT"):
                    rec["checks"][cid]["tail"] = (p.stdout + p.stderr)[-600:]
        rec["wall"] = round(time.time() - t0)
        print("[mutate] %s:%d %s | %s  =>  %s | %s %s" % (args.file, i + 1, op, rec["before"][:70], rec["after"][:70], rec["suite"],
                                                          json.dumps({k: v["verdict"] for k, v in rec.get("checks", {}).items()})), flush=True)
        with open(outf, "a") as fh:
            fh.write(json.dumps(rec) + "\n")
finally:
    open(path, "w").write(orig)
print("[mutate] done: %d suite-surviving mutants" % survived)
