#!/usr/bin/env python3
"""make_brief.py ROUND ID [ID...] : creates a scratch worktree /tmp/s<ROUND>_<ID> of /repo HEAD and writes BRIEF.md into it
(the text a fresh sub-agent gets: the property record and the task, nothing from /verif's machinery). Development aid for the
seeded-change rounds; never used by a registered command. /tmp/tried.json (ideas of earlier rounds, extracted from DESIGN.md)
and the files touched by the stored seeds are listed so that a new round goes somewhere else."""
import json, os, subprocess, sys, glob, collections

rnd = sys.argv[1]
ids = sys.argv[2:]
props = {json.loads(l)["id"]: json.loads(l) for l in open("/verif/properties.jsonl")}
TRIED = "/verif/seeded/tried.json"
tried = json.load(open(TRIED)) if os.path.exists(TRIED) else {}
used = collections.defaultdict(set)
for m in glob.glob("/verif/seeded/*/meta.json"):
    j = json.load(open(m))
    pid = os.path.basename(os.path.dirname(m)).split("-")[0]
    for f in j.get("files_changed", []):
        if "|" in f:
            used[pid].add(f.split("|")[0].strip())

CRATES = ["common", "evaluator", "examples", "feel", "feel-grammar", "feel-evaluator", "feel-number", "feel-parser", "gendoc", "model",
          "model-evaluator", "recognizer", "server", "workspace"]

PREFS = {}
PREFS["8"] = """ (A) a change in a *supporting layer* that the anchored code relies on rather than in the anchored function itself, so that the
     property breaks only for inputs that travel through that layer in a particular way. Candidates (pick what fits the
     property): `feel/src/context.rs`, `feel/src/names.rs`, `feel/src/qualified_names.rs`, `feel/src/values.rs`, `feel/src/bif.rs`,
     `feel/src/function.rs`, `feel/src/ast.rs`, `feel-evaluator/src/bifs/positional.rs`, `feel-evaluator/src/bifs/named.rs`,
     `feel-evaluator/src/evaluators.rs`, `feel/src/temporal/time.rs`, `feel/src/temporal/date_time.rs`, `model/src/model/parser.rs`,
     `model/src/model/mod.rs`, `model-evaluator/src/builders/input_data*.rs`, `.../item_definition_context.rs`,
     `.../business_knowledge_model.rs`, `.../decision_service.rs`, `server/src/dto.rs`, `common/src/*.rs`, `recognizer/src/*.rs`;
 (B) a trigger that is a CONJUNCTION of two or three ordinary features, none unusual on its own (e.g. a particular optional part
     together with a particular kind of value in a particular position);
 (C) a boundary of a size or count: the N-th element, exactly equal lengths, the last of several, more than K entries, a value
     exactly on a limit;
 (D) a multi-step history (an earlier call leaves something behind that changes a LATER answer), or - for the properties about
     threads / the server - a particular interleaving.
"""
PREFS["9"] = """ (A) TWO COOPERATING SITES: two small edits in different functions (better: different files or crates), each of which is correct and
     harmless when read on its own (a helper whose contract is changed slightly + a caller that relied on the old contract; a
     value normalised in one place and compared raw in another; a default changed here and assumed there);
 (B) a rarely used public entry point, optional argument, optional XML attribute / element, flag or spelling that the property
     text names or implies but that everyday use hardly touches (read the property text for them), combined with an ordinary value;
 (C) a behaviour that differs only for a particular COMBINATION OF VALUE KINDS in a particular position (date vs date-and-time,
     a range of strings, a context with a null entry, a list of lists, a negative zero, an empty string, a function value ...);
 (D) a boundary of a size or count (the N-th element, exactly equal lengths, more than K entries, a value exactly on a limit);
 (E) a fault, error or early exit that is then handled wrongly (state left behind, a later answer changed), or a multi-step
     history; for the properties about threads / the server also a particular interleaving.
"""

PREFS["10"] = """ (A) behaviour that differs only in a particular BUILD or ENVIRONMENT, everything else unchanged: a release build versus a debug build
     (`cfg!(debug_assertions)`, a `debug_assert!` that guards a fast path, wrapping versus checked arithmetic, an `unsafe` / FFI
     shortcut whose effect depends on optimisation), another thread than the one that built the evaluator (thread-local state), a
     process that has been running for a while (a counter that wraps, a cache or pool that fills up, an id that is reused), the
     process environment (TZ, locale, current directory) - demonstrate it with the build / history / environment it needs;
 (B) TWO COOPERATING SITES IN DIFFERENT FILES: a helper whose contract is changed slightly (what it returns for an edge input, whether
     it normalises, whether it trims, which of two equal items it keeps) + a caller in another file that relied on the old contract.
     Each edit must be correct and harmless when read on its own; only together they break the property;
 (C) a change in how a DEPENDENCY is used (regex builder options and flags, chrono / chrono-tz API choice, roxmltree options and text
     handling, actix-web extractor / payload configuration, serde attributes on the DTOs) that is invisible for everyday inputs;
 (D) ORDER and STABILITY: a result that depends on the iteration order of a map or set, on sort stability, on which of two equal
     elements is kept by a dedup, on the order in which two independent checks are made when both fail;
 (E) an interaction of THREE ordinary features that must meet (e.g. a named parameter + a multi-word name + a null value).
"""

BENIGN_EXTRA = {"b10": """In THIS round the change must contain at least two of the following, all of them CORRECT (they must not change any result):
a cache or memo (thread-local or process-wide, behind a lock) keyed by EVERYTHING the cached result depends on, with a small capacity
and correct eviction; `debug_assert!` / `debug_assert_eq!` statements whose arguments have NO side effects; a `HashMap` / `HashSet`
used internally whose iteration order never reaches a result (sort before output, or use it for lookups only); a fast path for short
/ ASCII / small inputs next to the general path, both giving the same result; a per-thread scratch buffer that is cleared before every
use; reading an environment variable (e.g. `DMNTK_TRACE`) that only switches diagnostic printing to stderr; an object pool whose
objects are fully reset when taken. The point: code that has state, build-dependent statements and environment reads, yet is
observably identical in debug and release builds, in any environment, on any thread and after any history.
"""}

BRIEF = """# Brief: one realistic, hard-to-notice change that breaks a stated property

You are helping to test a verification tool by mutation: I need ONE realistic change to the Rust repository checked out in
`{wt}` (a scratch git worktree of dmntk.rs, a DMN decision-model toolkit: FEEL lexer/parser/evaluator, decimal numbers,
temporal types, DMN XML model parser and evaluator, decision-table recognizer, workspace, HTTP server) that BREAKS the property
below, while the code still compiles and the repository's existing tests give exactly the results they give now.
Work ONLY inside `{wt}` (sources) and `{work}` (build output, scratch crates). Do not read or write `/repo` or `/verif`.
No network: always `CARGO_NET_OFFLINE=true cargo ... --offline`, use `-j 4` (other people are building on this machine), and
ALWAYS pass `--target-dir {work}/target` so that nothing is built inside the worktree. `export RUST_BACKTRACE=0`.

## The property (this is all you get about what is being verified)

id: {id}
title: {title}

statement: {statement}

quantifier (the inputs / situations it ranges over): {quantifier}

why the existing unit tests cannot settle it: {why}

code it is anchored in: {anchors}

## What kind of change I am looking for (round {rnd})

A change a competent maintainer could plausibly make on an ordinary day (a refactoring, an optimisation, a clean-up, a
"harmless" generalisation, a well-meant conformance fix, a small cache, a changed default, a boundary written slightly
differently) and that a reviewer would wave through, NOT sabotage that is obvious on reading. It must need something specific
to manifest, so that ordinary use and the existing tests do not expose it. In this round I prefer, in this order:

{prefs}
The wrong behaviour should be SILENT (a wrong value, a wrong acceptance or rejection, a wrongly changed state) unless the
property itself is about crashes, hangs or aborts, in which case a panic / abort / endless loop on a specific input is the goal.

Source files already used by earlier rounds for this property (go somewhere else if the property can be broken elsewhere;
otherwise use a different function and a different kind of mistake): {used}

Ideas already used for this property in earlier rounds (do NOT repeat them or close variants):
{tried}

## Facts about this repository you need

* It is a cargo workspace, but every `dmntk-*` crate depends on the crates.io (registry, vendored offline) copy of its siblings
  (`dmntk-feel = "0.0.46"` ...), with no `[patch]`. So a change in crate X is seen by X's own tests only; crates above X keep
  linking the published X. Consequences: (1) "the existing tests still pass" means: run the tests of the crate(s) you changed
  (`cargo test --offline -j 4 -p <crate> --no-fail-fast --target-dir {work}/target`) BEFORE and AFTER the change and compare the
  `test result:` lines - they must be identical (some crates have a few failures at HEAD already; the set must not change);
  (2) a demonstration that goes through a higher crate (e.g. a change in `feel` shown through `dmntk-model-evaluator` or the
  server) needs a scratch crate with `[patch.crates-io]` pointing every dmntk crate at this worktree; a ready-made one is in
  `{work}/demo_crate` (Cargo.toml + Cargo.lock + src/main.rs stub; builds offline; run it with
  `cd {work}/demo_crate && CARGO_NET_OFFLINE=true cargo run --offline -j 4 --target-dir {work}/target`). If the change and the API
  you demonstrate with are in the same crate, an integration test file put temporarily into `<crate>/tests/` is simpler.
* Public entry points you can demonstrate with: `dmntk_feel_parser::{{parse_expression, parse_textual_expression, parse_unary_tests,
  parse_context, parse_name, parse_longest_name, parse_boxed_expression}}(&scope, text, false)`, `dmntk_feel_evaluator::{{prepare, evaluate,
  evaluate_context_node ...}}`, `dmntk_feel::{{Scope, FeelContext, values::Value, Name, FeelNumber ...}}`, `dmntk_model::parse(xml)`,
  `dmntk_model_evaluator::ModelEvaluator::new(&definitions)` + `evaluate_invocable(name, &input_ctx)`,
  `dmntk_recognizer::{{recognize, build}}`, `dmntk_workspace::Workspace`, `dmntk_server::start_server`. Look at the crates' own tests
  for usage.
* Files that are generated or vendored (`feel-parser/src/lalr.rs` tables, `feel-number/decnumber/*.c`) may be changed too, if the
  change looks like something a tool or a maintainer would produce.

## What to deliver (all under `{wt}/seed/`, which is NOT part of the change)

1. The worktree left WITH your source change applied and nothing else changed (no stray test files, no build output).
2. `seed/patch.diff` = `git -C {wt} diff -- . ':!seed' ':!BRIEF.md'` (source change only; must apply to a clean checkout with
   `git apply`). Keep it small: typically 3-40 changed lines.
3. `seed/demo/` = the demonstration: a test file or small program using only public APIs that FAILS (or prints a wrong value, or
   crashes) with the change and PASSES without it, plus `seed/demo/RUN.md` with the exact commands for both runs and the output
   you observed for both. You must actually run both.
4. `seed/NOTES.md`: what was changed and the cover story; why it breaks the property (quote the clause); exactly what is needed
   for it to manifest; why the existing tests do not see it (and the before/after `test result:` lines you observed); at least
   three further inputs / histories that trigger it and three near misses that do not.
5. Your final message: 10 lines at most - files changed, the trigger, the commands you ran and their outcome.

Budget: aim to finish within about 30-40 minutes. Do not polish beyond what is asked. If your first idea turns out to be visible
to the existing tests, pick another rather than editing tests (tests must stay unedited).
"""

DEMO_TOML = """[package]
name = "seed-demo"
version = "0.1.0"
edition = "2021"
publish = false

[dependencies]
dmntk-common = "0.0.46"
dmntk-feel = "0.0.46"
dmntk-feel-number = "0.0.46"
dmntk-feel-parser = "0.0.46"
dmntk-feel-evaluator = "0.0.46"
dmntk-model = "0.0.46"
dmntk-model-evaluator = "0.0.46"
dmntk-recognizer = "0.0.46"
dmntk-workspace = "0.0.46"
dmntk-server = "0.0.46"
dmntk-examples = "0.0.46"
actix-web = "3.3.2"

[patch.crates-io]
%s

[workspace]
"""

BENIGN = """# Brief: one substantial change that KEEPS a stated property

I am testing a verification tool for false alarms. I need ONE realistic, substantial change to the Rust repository checked out in
`{wt}` (a scratch git worktree of dmntk.rs, a DMN decision-model toolkit) that touches the code the property below is anchored in,
LOOKS risky to a reviewer, and yet keeps the property true for EVERY input: the observable behaviour the property talks about must
be exactly what it was. Work ONLY inside `{wt}` (sources) and `{work}` (build output, scratch crates). Do not read or write `/repo`
or `/verif`. No network: always `CARGO_NET_OFFLINE=true cargo ... --offline`, use `-j 4`, ALWAYS pass `--target-dir {work}/target`.
`export RUST_BACKTRACE=0`.

## The property

id: {id}
title: {title}

statement: {statement}

quantifier: {quantifier}

code it is anchored in: {anchors}

## What kind of change

Something a maintainer really does: rewrite a function in another style (loop -> iterator chain or the reverse, recursion -> explicit
stack, nested ifs -> match), change an internal representation (a map for a sorted vector, a String for a Vec<char>, an enum for
flags), split or merge functions, reorder independent statements or match arms, rename private items, hoist or inline helpers, add a
CORRECT cache or fast path (keyed by everything the result depends on), change the wording of error / diagnostic / null-reason
messages, change Debug output of internal types, change the order in which independent checks are made, tighten visibility, replace
an unwrap by proper error propagation where the error cannot happen. 40-200 changed lines are fine. Combine two or three of these.
What you must NOT change: any value, acceptance / rejection, printed form of a FEEL value, JSON body or state that the property
speaks about. Error and diagnostic TEXTS are not part of the property (only whether there is an error) - changing them is welcome.

{extra}
## Facts about this repository you need

* Cargo workspace in which every `dmntk-*` crate depends on the crates.io (vendored) copy of its siblings: a change in crate X is
  seen by X's own tests only. Run `cargo test --offline -j 4 -p <crate> --no-fail-fast --target-dir {work}/target` BEFORE and AFTER
  and compare the `test result:` lines - they must be identical (a few crates have failures at HEAD already).
* A scratch crate with `[patch.crates-io]` pointing every dmntk crate at this worktree is in `{work}/demo_crate` (for an equivalence
  test that goes through higher crates): `cd {work}/demo_crate && CARGO_NET_OFFLINE=true cargo run --offline -j 4 --target-dir {work}/target`.

## What to deliver (under `{wt}/seed/`, not part of the change)

1. The worktree left WITH your change applied, nothing else changed.
2. `seed/patch.diff` = `git -C {wt} diff -- . ':!seed' ':!BRIEF.md'`.
3. `seed/demo/` = an equivalence demonstration: a small program or test that runs at least 200 varied inputs relevant to the property
   through the public API and prints a digest of all results; run it WITHOUT the change (`git stash` or `git apply -R`) and WITH it and
   show the digests are identical. `seed/demo/RUN.md` with the commands and both outputs.
4. `seed/NOTES.md`: what was changed, why it looks risky, and your argument that the property is untouched for every input.
5. Final message: 8 lines at most.
Budget: about 30-40 minutes.
"""

for pid in ids:
    p = props[pid]
    wt = "/tmp/s%s_%s" % (rnd, pid)
    work = "/tmp/s%swork_%s" % (rnd, pid)
    if not os.path.isdir(wt):
        subprocess.check_call(["git", "-C", "/repo", "worktree", "add", "--detach", "-q", wt, "HEAD"])
    os.makedirs(os.path.join(work, "demo_crate", "src"), exist_ok=True)
    names = {"common": "dmntk-common", "evaluator": "dmntk-evaluator", "examples": "dmntk-examples", "feel": "dmntk-feel",
             "feel-grammar": "dmntk-feel-grammar", "feel-evaluator": "dmntk-feel-evaluator", "feel-number": "dmntk-feel-number",
             "feel-parser": "dmntk-feel-parser", "gendoc": "dmntk-gendoc", "model": "dmntk-model", "model-evaluator": "dmntk-model-evaluator",
             "recognizer": "dmntk-recognizer", "server": "dmntk-server", "workspace": "dmntk-workspace"}
    patch = "\n".join('%s = { path = "%s/%s" }' % (names[c], wt, c) for c in CRATES)
    open(os.path.join(work, "demo_crate", "Cargo.toml"), "w").write(DEMO_TOML % patch)
    subprocess.check_call(["cp", "/verif/harness/Cargo.lock", os.path.join(work, "demo_crate", "Cargo.lock")])
    # the lock file names the harness package; cargo rewrites that entry offline
    open(os.path.join(work, "demo_crate", "src", "main.rs"), "w").write(
        'use dmntk_feel::Scope;\n\nfn main() {\n  let scope = Scope::default();\n  let node = dmntk_feel_parser::parse_expression(&scope, "1 + 2", false).unwrap();\n'
        '  let value = dmntk_feel_evaluator::evaluate(&scope, &node).unwrap();\n  println!("{}", value);\n}\n')
    anchors = p["anchors"]
    if not isinstance(anchors, str):
        anchors = json.dumps(anchors, ensure_ascii=False)
    txt = (BENIGN if rnd.startswith("b") else BRIEF).format(wt=wt, work=work, id=pid, title=p["title"], statement=p["statement"], quantifier=(p["quantifier"].get("text") if isinstance(p["quantifier"], dict) else p["quantifier"]),
                       why=p["why_tests_cant"], anchors=anchors, rnd=rnd, prefs=PREFS.get(rnd, PREFS["8"]), extra=BENIGN_EXTRA.get(rnd, ""),
                       used=", ".join(sorted(used[pid])) or "(none)",
                       tried="\n".join("  - " + t for t in tried.get(pid, [])) or "  (none)")
    open(os.path.join(wt, "BRIEF.md"), "w").write(txt)
    os.makedirs(os.path.join(wt, "seed", "demo"), exist_ok=True)
    print("ready", wt)
