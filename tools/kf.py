#!/usr/bin/env python3
"""Maintains /verif/known_findings/<ID>.json.
  kf.py list ID
  kf.py fixed ID REGEX COMMIT "what failed"   : every status=known entry whose signature matches REGEX becomes status=fixed
"""
import json, re, sys, os
D = os.path.join(os.path.dirname(os.path.dirname(os.path.abspath(__file__))), "known_findings")
def load(pid):
    p = os.path.join(D, pid + ".json")
    return p, json.load(open(p))
cmd = sys.argv[1]
pid = sys.argv[2]
p, data = load(pid)
if cmd == "list":
    for f in data["findings"]:
        print(f["status"], f["signature"], "|", f.get("what_fails", "")[:100])
elif cmd == "fixed":
    rx, commit, what = re.compile(sys.argv[3]), sys.argv[4], sys.argv[5]
    n = 0
    for f in data["findings"]:
        if f["status"] == "known" and rx.search(f["signature"]):
            f["status"] = "fixed"
            f["commit"] = commit
            f["record"] = "fixed: property=%s %s %s" % (pid, commit, what)
            n += 1
    json.dump(data, open(p, "w"), indent=1)
    print("marked fixed:", n)
