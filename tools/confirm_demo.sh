#!/bin/bash
# confirm_demo.sh <round> <ID> : my own confirmation of a sub-agent's seeded change, in its scratch worktree /tmp/s<round>_<ID>:
#   1. seed/patch.diff is exactly the source change of the worktree and applies to a clean checkout
#   2. the changed crates' own test-suites give the same results with and without the change
#   3. the demonstration fails with the change and passes without it
# Prints one summary line per step. Development aid for the seeded-change rounds.
r=$1; id=$2
wt=/tmp/s${r}_$id; work=/tmp/s${r}work_$id
export CARGO_NET_OFFLINE=true RUST_BACKTRACE=0
J=${JOBS:-6}
cd $wt || exit 2
git diff -- . ':!seed' ':!BRIEF.md' > $work/actual.diff
if diff -q <(grep -v '^index ' $work/actual.diff) <(grep -v '^index ' seed/patch.diff) > /dev/null; then echo "[confirm $id] patch.diff == worktree change ($(grep -c '^[+-][^+-]' seed/patch.diff) changed lines; files: $(git diff --stat -- . ':!seed' ':!BRIEF.md' | head -n -1 | awk '{print $1}' | tr '\n' ' '))"; else echo "[confirm $id] WARNING patch.diff differs from the worktree change"; fi
crates=$(git diff --name-only -- . ':!seed' ':!BRIEF.md' | cut -d/ -f1 | sort -u)
suite() { for c in $crates; do (cd $c && cargo test --offline -j $J --no-fail-fast --target-dir $work/target 2>&1) | grep -E '^test result|^test .* FAILED|could not compile' | sed 's/; finished in.*//' | sort | tr '\n' ';'; done; }
demo() {
  mainrs=$(find seed/demo -name main.rs | head -1)
  testrs=$(ls seed/demo/*.rs 2>/dev/null | grep -v 'main.rs$' | head -1)
  if [ -n "$mainrs" ] && [ -z "$testrs" ]; then
    cp $mainrs $work/demo_crate/src/main.rs
    (cd $work/demo_crate && timeout 900 cargo run $DEMO_FLAGS --offline -j $J --target-dir $work/target > $work/demo.out 2>&1; echo "rc=$?")
  elif [ -n "$testrs" ]; then
    n=$(basename $testrs .rs)
    c=$(grep -ohE '[a-z-]+/tests' seed/demo/RUN.md | head -1 | cut -d/ -f1)
    [ -d "$c" ] || c=$(echo $crates | awk '{print $NF}')
    had=0; [ -d $c/tests ] && had=1
    mkdir -p $c/tests; cp $testrs $c/tests/
    (cd $c && timeout 1500 cargo test $DEMO_FLAGS --offline -j $J --test $n --target-dir $work/target > $work/demo.out 2>&1; echo "rc=$?")
    rm -f $c/tests/$n.rs
    [ $had = 0 ] && rmdir $c/tests 2>/dev/null
  else
    echo "rc=nodemo" ; : > $work/demo.out
  fi
}
# cargo does not re-run feel-number/build.rs for an edited C file (the cc crate prints rerun-if-env-changed lines): force it
cfix() { if git diff --name-only -- . ':!seed' ':!BRIEF.md' | grep -q decnumber/ || grep -q decnumber/ seed/patch.diff; then touch feel-number/build.rs; fi; }
cfix; with_s=$(suite); with_d=$(demo); cp $work/demo.out $work/demo_with.out
git apply -R seed/patch.diff || { echo "[confirm $id] patch does not reverse-apply"; exit 1; }
cfix; wo_s=$(suite); wo_d=$(demo); cp $work/demo.out $work/demo_without.out
git apply seed/patch.diff; cfix
[ "$with_s" = "$wo_s" ] && echo "[confirm $id] suite identical with/without: $wo_s" | cut -c1-400 || { echo "[confirm $id] SUITE DIFFERS"; echo "  with:    $with_s"; echo "  without: $wo_s"; }
echo "[confirm $id] demo with change: $with_d ; without: $wo_d  ($(tail -2 $work/demo_with.out | tr '\n' ' ' | cut -c1-160) | $(tail -2 $work/demo_without.out | tr '\n' ' ' | cut -c1-160))"
