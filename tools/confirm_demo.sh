#!/bin/bash
# confirm_demo.sh <round> <ID> : my own confirmation of a sub-agent's seeded change, in its scratch worktree /tmp/s<round>_<ID>:
#   1. seed/patch.diff is exactly the source change of the worktree and applies to a clean checkout
#   2. the changed crates' own test-suites give the same results with and without the change
#   3. the demonstration fails with the change and passes without it
# Prints one summary line per step. Development aid for the seeded-change rounds.
r=$1; id=$2
wt=/tmp/s${r}_$id; work=/tmp/s${r}work_$id
export CARGO_NET_OFFLINE=true RUST_BACKTRACE=0
J=${JOBS:-6}
cd $wt || exit 2
git diff -- . ':!seed' ':!BRIEF.md' > $work/actual.diff
if diff -q <(grep -v '^index ' $work/actual.diff) <(grep -v '^index ' seed/patch.diff) > /dev/null; then echo "[confirm $id] patch.diff == worktree change ($(grep -c '^[+-][^+-]' seed/patch.diff) changed lines; files: $(git diff --stat -- . ':!seed' ':!BRIEF.md' | head -n -1 | awk '{print $1}' | tr '\n' ' '))"; else echo "[confirm $id] WARNING patch.diff differs from the worktree change"; fi
crates=$(git diff --name-only -- . ':!seed' ':!BRIEF.md' | cut -d/ -f1 | sort -u)
suite() { for c in $crates; do p=$(grep -m1 '^name' $c/Cargo.toml | sed 's/.*"\(.*\)"/\1/'); cargo test --offline -j $J -p $p --no-fail-fast --target-dir $work/target 2>&1 | grep -E '^test result|^test .* FAILED|could not compile' | sed 's/; finished in.*//' | sort | tr '\n' ';'; done; }
demo() {
  if [ -f seed/demo/main.rs ]; then
    cp seed/demo/*.rs $work/demo_crate/src/ 2>/dev/null
    (cd $work/demo_crate && timeout 900 cargo run --offline -j $J --bin seed-demo --target-dir $work/target > $work/demo.out 2>&1; echo "rc=$?")
  else
    t=$(ls seed/demo/*.rs | head -1); n=$(basename $t .rs)
    p=$(grep -ohE -- '-p +dmntk[-a-z]*' seed/demo/RUN.md | head -1 | awk '{print $2}')
    c=$(grep -l "^name = \"$p\"" */Cargo.toml | head -1 | cut -d/ -f1)
    had=0; [ -d $c/tests ] && had=1
    mkdir -p $c/tests; cp seed/demo/*.rs $c/tests/
    (timeout 1500 cargo test --offline -j $J -p $p --test $n --target-dir $work/target > $work/demo.out 2>&1; echo "rc=$?")
    for f in seed/demo/*.rs; do rm -f $c/tests/$(basename $f); done
    [ $had = 0 ] && rmdir $c/tests 2>/dev/null
  fi
}
with_s=$(suite); with_d=$(demo); cp $work/demo.out $work/demo_with.out
git apply -R seed/patch.diff || { echo "[confirm $id] patch does not reverse-apply"; exit 1; }
wo_s=$(suite); wo_d=$(demo); cp $work/demo.out $work/demo_without.out
git apply seed/patch.diff
[ "$with_s" = "$wo_s" ] && echo "[confirm $id] suite identical with/without: $wo_s" | cut -c1-400 || { echo "[confirm $id] SUITE DIFFERS"; echo "  with:    $with_s"; echo "  without: $wo_s"; }
echo "[confirm $id] demo with change: $with_d ; without: $wo_d  ($(tail -2 $work/demo_with.out | tr '\n' ' ' | cut -c1-160) | $(tail -2 $work/demo_without.out | tr '\n' ' ' | cut -c1-160))"
