#!/bin/bash
# try_seed.sh <worktree> <ID> [tier] : runs ./check <ID> against a scratch worktree (VERIF_REPO), prints the verdict,
# then removes the scratch build. Development aid for seeded changes; never used by registered commands.
wt=$1; id=$2; tier=${3:-quick}
cd "$(dirname "$0")/.."
tag=$(python3 -c "import hashlib,sys;print(hashlib.sha1(sys.argv[1].encode()).hexdigest()[:10])" "$wt")
log=/tmp/try_$(basename $wt)_$id.log
t=$(date +%s)
VERIF_REPO=$wt ./check $id --tier $tier --seed ${VERIF_SEED:-1} > $log 2>&1
rc=$?
echo "== $(basename $wt) $id rc=$rc wall=$(( $(date +%s) - t ))s violations=$(grep -c '^VIOLATION' $log) $(grep -E '^\[C|^INCONCLUSIVE' $log | tail -1 | cut -c1-160)"
grep -E 'signature=' $log | grep -v KNOWN | cut -c1-260 | head -${SHOW:-4}
[ -n "$KEEP" ] || rm -rf /tmp/verif_alt_$tag
