#!/bin/bash
# benign.sh <round> <ID> <check IDs...> : runs the listed quick checks against a behaviour-preserving change (false-alarm probe)
r=$1; id=$2; shift 2
cd /verif
wt=/tmp/s${r}_$id
tag=$(python3 -c "import hashlib,sys;print(hashlib.sha1(sys.argv[1].encode()).hexdigest()[:10])" "$wt")
for c in "$@"; do KEEP=1 SHOW=6 tools/try_seed.sh $wt $c > logs/benign_${r}_${id}_$c.log 2>&1; echo "benign $id: $(head -1 logs/benign_${r}_${id}_$c.log | cut -c1-260)"; sed -n '2,7p' logs/benign_${r}_${id}_$c.log | cut -c1-300; done
rm -rf /tmp/verif_alt_$tag
