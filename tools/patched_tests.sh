#!/bin/bash
# Runs the repository's whole test-suite with every dmntk-* dependency patched to the local
# workspace members (the repo itself links registry copies of its siblings, so a change in one
# crate is invisible to its dependents' tests). Usage: patched_tests.sh [commit-ish]   (default: working tree of /repo)
set -u
SCR=/tmp/patched_tests_$$
rm -rf $SCR; mkdir -p $SCR
if [ $# -ge 1 ]; then git -C /repo archive "$1" | tar -x -C $SCR; else rsync -a --exclude target --exclude .git /repo/ $SCR/; fi
cat >> $SCR/Cargo.toml <<'T'

[patch.crates-io]
dmntk-common = { path = "common" }
dmntk-evaluator = { path = "evaluator" }
dmntk-examples = { path = "examples" }
dmntk-feel = { path = "feel" }
dmntk-feel-grammar = { path = "feel-grammar" }
dmntk-feel-evaluator = { path = "feel-evaluator" }
dmntk-feel-number = { path = "feel-number" }
dmntk-feel-parser = { path = "feel-parser" }
dmntk-gendoc = { path = "gendoc" }
dmntk-model = { path = "model" }
dmntk-model-evaluator = { path = "model-evaluator" }
dmntk-recognizer = { path = "recognizer" }
dmntk-server = { path = "server" }
dmntk-workspace = { path = "workspace" }
T
cd $SCR && CARGO_NET_OFFLINE=true cargo test --workspace --no-fail-fast --offline --target-dir /tmp/patched_tests_target 2>&1 | grep -E "^test result|^test .* FAILED|^error|failures:" | sort | uniq -c | sort -rn | head -40
cd /; rm -rf $SCR
