#!/usr/bin/env python3
"""Re-validates every seeded change against the CURRENT /repo HEAD without touching /repo:
for each /verif/seeded/<name>: scratch worktree of HEAD under /tmp, `git apply patch.diff`, run the
registered quick check of the property with VERIF_REPO=<worktree>, record whether it reports a
VIOLATION, remove the worktree and the scratch build. Writes /verif/seeded/RESULTS.md.
usage: run_seeds.py [-j N] [name ...]      (default: all, 1 worker; VERIF_SEED picks the seed, default 1)
A seeded change whose meta.json names other checks under "also_run" (e.g. C02-r6: ["C20"]) is tried with
those too; it counts as caught when any of them reports a violation."""
import json, os, re, shutil, subprocess, sys, time, hashlib
from concurrent.futures import ThreadPoolExecutor

VERIF = os.path.dirname(os.path.dirname(os.path.abspath(__file__)))
SEEDED = os.path.join(VERIF, "seeded")
args = sys.argv[1:]
jobs = 1
if args and args[0] == "-j":
    jobs = int(args[1])
    args = args[2:]
names = args or sorted(d for d in os.listdir(SEEDED) if re.match(r"C\d\d", d) and os.path.isdir(os.path.join(SEEDED, d)))
seed = os.environ.get("VERIF_SEED", "1")
head = subprocess.run(["git", "-C", "/repo", "rev-parse", "--short", "HEAD"], capture_output=True, text=True).stdout.strip()


def one(name):
    pid = name[:3]
    wt = "/tmp/seedrun_" + name
    subprocess.run(["git", "-C", "/repo", "worktree", "remove", "--force", wt], capture_output=True)
    shutil.rmtree(wt, ignore_errors=True)
    subprocess.run(["git", "-C", "/repo", "worktree", "add", "-q", "--detach", wt, "HEAD"], check=True)
    patch = os.path.join(SEEDED, name, "patch.diff")
    ap = subprocess.run(["git", "-C", wt, "apply", "--3way", patch], capture_output=True, text=True)
    status, sigs, wall, by = "", [], 0, []
    if ap.returncode != 0:
        status = "patch does not apply to %s: %s" % (head, ap.stderr.strip().splitlines()[-1] if ap.stderr.strip() else "?")
    else:
        try:
            also = json.load(open(os.path.join(SEEDED, name, "meta.json"))).get("also_run", [])
        except Exception:
            also = []
        env = dict(os.environ, VERIF_REPO=wt)
        t0 = time.time()
        last = []
        for cid in [pid] + [c for c in also if c != pid]:
            p = subprocess.run([os.path.join(VERIF, "check"), cid, "--tier", "quick", "--seed", seed], env=env, capture_output=True, text=True)
            found = re.findall(r"^VIOLATION property=\S+ replay=\S*/([^/]+)\.json", p.stdout, re.M)
            if found:
                by.append("%s: %d" % (cid, len(found)))
                sigs += found
            last = [l for l in p.stdout.splitlines() if l.startswith("[" + cid)] or ["rc=%d" % p.returncode]
        wall = time.time() - t0
        status = ("CAUGHT (%s signatures)" % ", ".join(by)) if sigs else "NOT CAUGHT: " + last[-1]
        try:
            if json.load(open(os.path.join(SEEDED, name, "meta.json"))).get("caught_by", "").startswith("NOT A VIOLATION"):
                status = ("silent, as it should be (the change does not break the property as stated): " + last[-1]) if not sigs else "REPORTED although the change does not break the property: " + ", ".join(by)
        except Exception:
            pass
    subprocess.run(["git", "-C", "/repo", "worktree", "remove", "--force", wt], capture_output=True)
    shutil.rmtree(wt, ignore_errors=True)
    shutil.rmtree("/tmp/verif_alt_" + hashlib.sha1(wt.encode()).hexdigest()[:10], ignore_errors=True)
    print("%-8s %s %s %.0fs" % (name, status, sigs[:2], wall), flush=True)
    return (name, status, sigs[:3], wall)


with ThreadPoolExecutor(max_workers=jobs) as ex:
    rows = list(ex.map(one, names))
subprocess.run(["git", "-C", "/repo", "worktree", "prune"])
if not args:
    with open(os.path.join(SEEDED, "RESULTS.md"), "w") as f:
        f.write("# Seeded changes re-applied to /repo HEAD %s, quick tier, seed %s\n\n| seeded change | verdict of ./check | first signatures | wall |\n|---|---|---|---|\n" % (head, seed))
        for name, status, sigs, wall in rows:
            f.write("| %s | %s | %s | %.0f s |\n" % (name, status, "; ".join("`%s`" % s for s in sigs), wall))
        n = sum(1 for r in rows if r[1].startswith("CAUGHT"))
        k = sum(1 for r in rows if r[1].startswith("silent, as it should"))
        f.write("\n%d of %d seeded changes are reported by the quick tier on this HEAD; %d that do not break their property stay silent.\n" % (n, len(rows) - k, k))
