#!/usr/bin/env python3
"""Re-validates every seeded change against the CURRENT /repo HEAD without touching /repo:
for each /verif/seeded/<name>: scratch worktree of HEAD under /tmp, `git apply patch.diff`, run the
registered quick check of the property with VERIF_REPO=<worktree>, record whether it reports a
VIOLATION, remove the worktree and the scratch build. Writes /verif/seeded/RESULTS.md.
usage: run_seeds.py [name ...]      (default: all; VERIF_SEED picks the seed, default 1)"""
import json, os, re, shutil, subprocess, sys, time, hashlib

VERIF = os.path.dirname(os.path.dirname(os.path.abspath(__file__)))
SEEDED = os.path.join(VERIF, "seeded")
names = sys.argv[1:] or sorted(d for d in os.listdir(SEEDED) if os.path.isdir(os.path.join(SEEDED, d)))
seed = os.environ.get("VERIF_SEED", "1")
head = subprocess.run(["git", "-C", "/repo", "rev-parse", "--short", "HEAD"], capture_output=True, text=True).stdout.strip()
rows = []
for name in names:
    pid = name[:3]
    wt = "/tmp/seedrun_" + name
    subprocess.run(["git", "-C", "/repo", "worktree", "remove", "--force", wt], capture_output=True)
    shutil.rmtree(wt, ignore_errors=True)
    subprocess.run(["git", "-C", "/repo", "worktree", "add", "-q", "--detach", wt, "HEAD"], check=True)
    patch = os.path.join(SEEDED, name, "patch.diff")
    ap = subprocess.run(["git", "-C", wt, "apply", "--3way", patch], capture_output=True, text=True)
    status, sigs, wall = "", [], 0
    if ap.returncode != 0:
        status = "patch does not apply to %s: %s" % (head, ap.stderr.strip().splitlines()[-1] if ap.stderr.strip() else "?")
    else:
        env = dict(os.environ, VERIF_REPO=wt)
        t0 = time.time()
        p = subprocess.run([os.path.join(VERIF, "check"), pid, "--tier", "quick", "--seed", seed], env=env, capture_output=True, text=True)
        wall = time.time() - t0
        sigs = re.findall(r"^VIOLATION property=\S+ replay=\S*/([^/]+)\.json", p.stdout, re.M)
        last = [l for l in p.stdout.splitlines() if l.startswith("[" + pid)]
        status = "CAUGHT (%d signatures)" % len(sigs) if sigs else "NOT CAUGHT: " + (last[-1] if last else "rc=%d" % p.returncode)
    rows.append((name, status, sigs[:3], wall))
    print("%-8s %s %s %.0fs" % (name, status, sigs[:2], wall), flush=True)
    subprocess.run(["git", "-C", "/repo", "worktree", "remove", "--force", wt], capture_output=True)
    shutil.rmtree(wt, ignore_errors=True)
    shutil.rmtree("/tmp/verif_alt_" + hashlib.sha1(wt.encode()).hexdigest()[:10], ignore_errors=True)
subprocess.run(["git", "-C", "/repo", "worktree", "prune"])
if not sys.argv[1:]:
    with open(os.path.join(SEEDED, "RESULTS.md"), "w") as f:
        f.write("# Seeded changes re-applied to /repo HEAD %s, quick tier, seed %s\n\n| seeded change | verdict of ./check | first signatures | wall |\n|---|---|---|---|\n" % (head, seed))
        for name, status, sigs, wall in rows:
            f.write("| %s | %s | %s | %.0f s |\n" % (name, status, "; ".join("`%s`" % s for s in sigs), wall))
