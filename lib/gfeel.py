"""Typed random generator of FEEL core-fragment expressions (tuple AST of rfeel.py) and of the
scopes binding their free names; construct x construct forcing for the pair matrix (C01, C13)."""
from decimal import Decimal

import rfeel

NUMS = ["0", "1", "2", "3", "5", "10", "0.5", "1.50", "2.25", "100", "7", "12.345", "0.1", "0.2", "1000000"]
STRS = ["", "a", "b", "ab", "abc", "A", "x y", "é", "\U0001F600", "q\"q", "back\\slash"]

# free names and their types; values are drawn per case
FREE = {
    "na": "num", "nb": "num", "nc": "num",
    "sa": "str", "sb": "str",
    "ba": "bool", "bb": "bool",
    "za": "null",
    "la": "numlist", "lb": "strlist", "lc": "ctxlist", "le": "emptylist", "ld": "numlist",
    "ca": "ctx", "cb": "ctx",
    "fa": "fn2", "fb": "fn1",
}

CONSTRUCTS = [
    "num", "str", "bool", "null", "name", "neg", "add", "sub", "mul", "div", "exp", "cmp", "and", "or", "if", "between",
    "in", "in_ut", "list", "ctx", "path", "filter", "for", "some", "every", "fundef", "call", "callnamed", "range",
]


class Gen:
    def __init__(self, rng, max_depth=4, wrong_rate=0.06):
        self.rng = rng
        self.max_depth = max_depth
        self.wrong_rate = wrong_rate
        self.bound = []  # stack of (name, type) for iteration variables / params / item
        self.force = []
        self.simple = 0  # >0: only arithmetic / leaves (operands of between and range endpoints: parsing of
        #                  boolean operators inside them is C06's subject, kept out of this evaluation workload)

    # ---- scope values -------------------------------------------------------------------
    def value_of(self, ty):
        r = self.rng
        if ty == "num":
            s = r.choice(NUMS)
            return Decimal(("-" if r.random() < 0.25 else "") + s)
        if ty == "str":
            return r.choice(STRS)
        if ty == "bool":
            return r.random() < 0.5
        if ty == "null":
            return None
        if ty == "numlist":
            return [self.value_of("num") for _ in range(r.choice([0, 1, 2, 3, 3, 4, 5]))]
        if ty == "strlist":
            return [self.value_of("str") for _ in range(r.choice([0, 1, 2, 3, 4]))]
        if ty == "emptylist":
            return []
        if ty == "ctx":
            c = {"a": self.value_of("num"), "b": self.value_of("str")}
            if r.random() < 0.5:
                c["c"] = {"d": self.value_of("num")}
            if r.random() < 0.2:
                c["a"] = None
            return c
        if ty == "ctxlist":
            return [{"a": self.value_of("num"), "b": self.value_of("str")} for _ in range(r.choice([0, 1, 2, 3, 4]))]
        if ty == "fn2":
            body = r.choice([("add", ("name", "p"), ("name", "q")), ("sub", ("name", "p"), ("name", "q")), ("cmp", "<", ("name", "p"), ("name", "q")), ("list", [("name", "q"), ("name", "p")])])
            return rfeel.Fn(["p", "q"], body, [])
        if ty == "fn1":
            body = r.choice([("mul", ("name", "p"), ("num", "2")), ("cmp", ">", ("name", "p"), ("num", "1")), ("ctx", [("a", ("name", "p"))])])
            return rfeel.Fn(["p"], body, [])
        raise ValueError(ty)

    def scope(self):
        """returns (frames as list of dicts bottom-first, the same as driver scope JSON)"""
        top = {n: self.value_of(t) for n, t in FREE.items()}
        frames = [top]
        if self.rng.random() < 0.4:
            # a lower layer with different bindings of some of the same names (shadowed)
            low = {n: self.value_of(FREE[n]) for n in self.rng.sample(sorted(FREE), 5)}
            frames = [low, top]
        return frames

    @staticmethod
    def scope_json(frames, pad=False):
        out = []
        if pad:
            out.append([["zzpad one", {"n": "41"}], ["zzq", {"s": "pad"}]])
        for fr in frames:
            entries = [[k, rfeel.to_json(v)] for k, v in fr.items()]
            if pad:
                entries.append(["zzunrelated", {"n": "99"}])
                entries.append(["zzother", [None, {"s": "pad"}]])
            out.append(entries)
        if pad:
            out.insert(1, [["zzmid", True]])
        return out

    # ---- helpers ------------------------------------------------------------------------
    def names_of(self, ty):
        out = [n for n, t in FREE.items() if t == ty or (ty == "numlist" and t == "emptylist") or (ty == "strlist" and t == "emptylist") or (ty == "ctxlist" and t == "emptylist")]
        out += [n for n, t in self.bound if t == ty]
        return out

    def pick_type(self):
        return self.rng.choice(["num", "num", "str", "bool", "bool", "numlist", "strlist", "ctx", "ctxlist"])

    def leaf(self, ty):
        r = self.rng
        names = self.names_of(ty)
        if names and r.random() < 0.55:
            return ("name", r.choice(names))
        if ty == "num":
            return ("num", r.choice(NUMS))
        if ty == "str":
            return ("str", r.choice(STRS))
        if ty == "bool":
            return ("bool", r.random() < 0.5)
        if ty == "numlist":
            return ("list", [("num", r.choice(NUMS)) for _ in range(r.choice([0, 1, 2, 3]))])
        if ty == "strlist":
            return ("list", [("str", r.choice(STRS)) for _ in range(r.choice([0, 1, 2, 3]))])
        if ty == "ctx":
            return ("ctx", [("a", ("num", r.choice(NUMS))), ("b", ("str", r.choice(STRS)))])
        if ty == "ctxlist":
            return ("list", [("ctx", [("a", ("num", r.choice(NUMS))), ("b", ("str", r.choice(STRS)))]) for _ in range(r.choice([0, 1, 2, 3]))])
        if ty == "any":
            return self.leaf(self.pick_type())
        return ("null",)

    def options(self, ty):
        """constructs able to produce type ty"""
        if self.simple:
            if ty == "num":
                return ["num", "name", "neg", "add", "sub", "mul", "div"]
            if ty == "str":
                return ["str", "name", "add"]
            return ["name"]
        common = ["name", "if", "call", "callnamed", "path_c"]
        if ty == "num":
            return ["num", "neg", "add", "sub", "mul", "div", "exp", "path", "filter_i", "name", "if", "call", "callnamed"]
        if ty == "str":
            return ["str", "add", "path", "filter_i", "name", "if"]
        if ty == "bool":
            return ["bool", "cmp", "cmp", "and", "or", "between", "in", "in_ut", "some", "every", "name", "if", "call"]
        if ty == "numlist":
            return ["list", "for", "for", "filter", "path", "name", "if", "call"]
        if ty == "strlist":
            return ["list", "for", "filter", "path", "name", "if"]
        if ty == "ctx":
            return ["ctx", "ctx", "filter_i", "name", "if", "call", "path"]
        if ty == "ctxlist":
            return ["list", "filter", "for", "name", "if"]
        if ty == "any":
            return ["null", "fundef", "range"] + self.options(self.pick_type())
        return ["null"]

    CAN = {
        "num": {"num", "neg", "add", "sub", "mul", "div", "exp", "path", "filter", "name", "if", "call", "callnamed"},
        "str": {"str", "add", "path", "filter", "name", "if"},
        "bool": {"bool", "cmp", "and", "or", "between", "in", "in_ut", "some", "every", "name", "if", "call"},
        "numlist": {"list", "for", "filter", "path", "name", "if", "call"},
        "strlist": {"list", "for", "filter", "path", "name", "if"},
        "ctx": {"ctx", "filter", "name", "if", "call", "path"},
        "ctxlist": {"list", "filter", "for", "name", "if"},
        "any": set(CONSTRUCTS),
    }

    # ---- main entry ---------------------------------------------------------------------
    def gen(self, ty, depth):
        r = self.rng
        if r.random() < self.wrong_rate and depth < self.max_depth:
            # deliberately ill-typed or null operand: exercises the null-propagation rules
            ty = r.choice(["any", "num", "str", "bool", "numlist", "ctx"])
            if r.random() < 0.3:
                return ("null",)
            if self.simple:
                return self.leaf(ty)
        forced = None
        if self.force and not self.simple:
            cand = self.force[0]
            key = cand if cand not in ("filter_i",) else "filter"
            if key in self.CAN.get(ty, ()):
                forced = self.force.pop(0)
        if forced is None and (depth >= self.max_depth or r.random() < 0.12 * depth):
            return self.leaf(ty)
        c = forced if forced is not None else r.choice(self.options(ty))
        if c == "filter" and ty in ("num", "str", "ctx"):
            c = "filter_i"
        if c == "path_c":
            c = "path"
        return self.make(c, ty, depth)

    def sub(self, ty, depth):
        return self.gen(ty, depth + 1)

    def make(self, c, ty, depth):
        r = self.rng
        d = depth
        if c in ("num", "str", "bool", "null"):
            if c == "null":
                return ("null",)
            return self.leaf({"num": "num", "str": "str", "bool": "bool"}[c]) if c != ty else self._lit(c)
        if c == "name":
            names = self.names_of(ty if ty != "any" else self.pick_type())
            return ("name", r.choice(names)) if names else self.leaf(ty)
        if c == "neg":
            return ("neg", self.sub("num", d))
        if c in ("add", "sub", "mul", "div"):
            if ty == "str" and c == "add":
                return ("add", self.sub("str", d), self.sub("str", d))
            return (c, self.sub("num", d), self.sub("num", d))
        if c == "exp":
            return ("exp", self.sub("num", d) if r.random() < 0.5 else ("num", r.choice(["2", "3", "10", "0.5", "1.5"])), ("num", r.choice(["0", "1", "2", "3", "-1", "-2"])))
        if c == "cmp":
            op = r.choice(["=", "!=", "<", "<=", ">", ">="])
            t = r.choice(["num", "num", "str", "bool", "numlist", "ctx", "any"]) if op in ("=", "!=") else r.choice(["num", "num", "str"])
            return ("cmp", op, self.sub(t, d), self.sub(t, d))
        if c in ("and", "or"):
            return (c, self.sub("bool", d), self.sub("bool", d))
        if c == "if":
            cond = self.sub("bool", d)
            return ("if", cond, self.sub(ty, d), self.sub(ty, d))
        if c == "between":
            t = r.choice(["num", "num", "str"])
            self.simple += 1
            try:
                return ("between", self.sub(t, d), self.sub(t, d), self.sub(t, d))
            finally:
                self.simple -= 1
        if c == "range":
            t = r.choice(["num", "num", "str"])
            return ("range", self.leaf(t), r.random() < 0.5, self.leaf(t), r.random() < 0.5)
        if c == "in":
            t = r.choice(["num", "num", "str"])
            which = r.random()
            if which < 0.45:
                rhs = ("range", self.leaf(t), r.random() < 0.5, self.leaf(t), r.random() < 0.5)
            elif which < 0.85:
                rhs = self.sub("numlist" if t == "num" else "strlist", d)
            else:
                rhs = self.sub(t, d)
            return ("in", self.sub(t, d), rhs)
        if c == "in_ut":
            t = r.choice(["num", "num", "str"])
            tests = []
            for _ in range(r.choice([1, 1, 2, 3])):
                k = r.random()
                if k < 0.4:
                    tests.append(("ut_cmp", r.choice(["<", "<=", ">", ">="]), self.leaf(t)))
                elif k < 0.7:
                    tests.append(("ut_val", self.leaf(t)))
                else:
                    tests.append(("ut_val", ("range", self.leaf(t), r.random() < 0.5, self.leaf(t), r.random() < 0.5)))
            return ("in_ut", self.sub(t, d), tests)
        if c == "list":
            et = {"numlist": "num", "strlist": "str", "ctxlist": "ctx"}.get(ty, "any")
            if et in ("num", "str") and r.random() < 0.02:
                # size boundary: a long list of leaves (an implementation may change algorithm with the size)
                return ("list", [self.leaf(et) for _ in range(r.choice([17, 32, 33, 40, 65, 130]))])
            return ("list", [self.sub(et, d) for _ in range(r.choice([0, 1, 2, 2, 3, 4]))])
        if c == "ctx":
            entries = []
            keys = ["a", "b", "c", "d"]
            n = r.choice([1, 2, 2, 3, 4])
            saved = len(self.bound)
            for k in keys[:n]:
                if k == "a":
                    v = self.sub("num", d)
                elif k == "b":
                    v = self.sub("str", d)
                    if r.random() < 0.4 and entries:
                        # refer to an earlier entry
                        v = ("if", ("cmp", ">", ("name", "a"), ("num", "1")), self.sub("str", d), ("str", "small"))
                elif k == "c":
                    v = ("add", ("name", "a"), self.sub("num", d)) if r.random() < 0.6 else self.sub(self.pick_type(), d)
                else:
                    v = self.sub(self.pick_type(), d)
                entries.append((k, v))
                self.bound.append((k, {"a": "num", "b": "str", "c": "num"}.get(k, "any")))
            del self.bound[saved:]
            return ("ctx", entries)
        if c == "path":
            if ty == "num":
                return ("path", self.sub("ctx", d), "a")
            if ty == "str":
                return ("path", self.sub("ctx", d), "b")
            if ty == "numlist":
                return ("path", self.sub("ctxlist", d), "a")
            if ty == "strlist":
                return ("path", self.sub("ctxlist", d), "b")
            if ty == "ctx":
                return ("path", ("name", r.choice(["ca", "cb"])), "c")
            return ("path", self.sub("ctx", d), r.choice(["a", "b", "c", "nosuch"]))
        if c == "filter_i":
            lt = {"num": "numlist", "str": "strlist", "ctx": "ctxlist"}.get(ty, "numlist")
            idx = r.choice([("num", "1"), ("num", "2"), ("neg", ("num", "1")), ("neg", ("num", "2")), ("num", "0"), ("num", "9"), ("num", "1.5"), self.sub("num", d + 1), ("num", "1.0")])
            return ("filter", self.sub(lt, d), idx, "index")
        if c == "filter":
            lt = ty if ty in ("numlist", "strlist", "ctxlist") else "numlist"
            saved = len(self.bound)
            if lt == "ctxlist":
                self.bound.append(("a", "num"))
                self.bound.append(("b", "str"))
                self.bound.append(("item", "ctx"))
            else:
                self.bound.append(("item", "num" if lt == "numlist" else "str"))
            lhs = None
            if lt == "ctxlist":
                pred = r.choice([
                    lambda: ("cmp", r.choice([">", "<", ">=", "=", "!="]), ("name", "a"), self.sub("num", d + 1)),
                    lambda: ("cmp", "=", ("name", "b"), self.sub("str", d + 1)),
                    lambda: ("cmp", r.choice([">", "<="]), ("path", ("name", "item"), "a"), self.sub("num", d + 1)),
                    lambda: self.sub("bool", d + 1),
                ])()
            elif lt == "numlist":
                pred = r.choice([
                    lambda: ("cmp", r.choice([">", "<", ">=", "<=", "=", "!="]), ("name", "item"), self.sub("num", d + 1)),
                    lambda: self._simple_between(("name", "item"), d),
                    lambda: ("in", ("name", "item"), ("range", self.leaf("num"), True, self.leaf("num"), False)),
                    lambda: self.sub("bool", d + 1),
                ])()
            else:
                pred = r.choice([
                    lambda: ("cmp", r.choice([">", "<", "=", "!="]), ("name", "item"), self.sub("str", d + 1)),
                    lambda: self.sub("bool", d + 1),
                ])()
            del self.bound[saved:]
            lhs = self.sub(lt, d)
            return ("filter", lhs, pred, "pred")
        if c == "for":
            nvars = r.choice([1, 1, 2, 2, 3])
            its = []
            saved = len(self.bound)
            vars_ = ["x", "y", "z"][:nvars]
            doms = []
            for v in vars_:
                k = r.random()
                if k < 0.55:
                    et = r.choice(["num", "num", "str"]) if ty != "ctxlist" else "ctx"
                    lt = {"num": "numlist", "str": "strlist", "ctx": "ctxlist"}[et]
                    dom = ("dom_list", self.sub(lt, d + 1) if r.random() < 0.8 else ("name", "le"))
                    vt = et
                else:
                    lo, hi = r.choice([("1", "3"), ("3", "1"), ("0", "0"), ("2", "4"), ("1", "1"), ("-1", "1")])
                    if nvars == 1 and r.random() < 0.06:
                        lo, hi = r.choice([("1", "33"), ("40", "1"), ("1", "65"), ("-20", "20"), ("1", "130"), ("17", "1"), ("0", "32")])  # size boundary
                    lo_e = ("num", lo) if not lo.startswith("-") else ("neg", ("num", lo[1:]))
                    dom = ("dom_range", lo_e, ("num", hi))
                    vt = "num"
                doms.append((v, dom, vt))
            for v, dom, vt in doms:
                its.append((v, dom))
            for v, dom, vt in doms:
                self.bound.append((v, vt))
            et = {"numlist": "num", "strlist": "str", "ctxlist": "ctx"}.get(ty, "any")
            if et == "num" and any(vt == "num" for _, _, vt in doms) and r.random() < 0.6:
                nv = [v for v, _, vt in doms if vt == "num"]
                body = (r.choice(["add", "mul", "sub"]), ("name", r.choice(nv)), self.sub("num", d + 1))
            elif r.random() < 0.25:
                body = ("list", [("name", v) for v in vars_])
            else:
                body = self.sub(et, d + 1)
            del self.bound[saved:]
            return ("for", its, body)
        if c in ("some", "every"):
            nvars = r.choice([1, 1, 2, 3])
            vars_ = ["x", "y", "z"][:nvars]
            its = []
            vts = []
            for v in vars_:
                et = r.choice(["num", "num", "str"])
                lt = {"num": "numlist", "str": "strlist"}[et]
                dom = self.sub(lt, d + 1) if r.random() < 0.85 else ("name", "le")
                its.append((v, dom))
                vts.append(et)
            saved = len(self.bound)
            for v, vt in zip(vars_, vts):
                self.bound.append((v, vt))
            k = r.randrange(len(vars_))
            if vts[k] == "num":
                body = ("cmp", r.choice([">", "<", "=", ">=", "!="]), ("name", vars_[k]), self.sub("num", d + 1))
            else:
                body = ("cmp", r.choice(["=", "!=", "<"]), ("name", vars_[k]), self.sub("str", d + 1))
            if len(vars_) > 1 and r.random() < 0.5:
                j = (k + 1) % len(vars_)
                if vts[j] == vts[k]:
                    body = (r.choice(["and", "or"]), body, ("cmp", r.choice(["<", "=", ">"]), ("name", vars_[j]), ("name", vars_[k])))
            del self.bound[saved:]
            return (c, its, body)
        if c == "fundef":
            saved = len(self.bound)
            self.bound.append(("p", "num"))
            body = self.sub("num", d)
            del self.bound[saved:]
            return ("fundef", ["p"], body)
        if c == "call" and ty == "num" and r.random() < 0.12:
            # a user-defined function bound under the NAME OF A BUILT-IN (by a context entry, a formal parameter or an
            # iteration variable) and invoked positionally: any binding shadows the built-in
            bif = r.choice(["abs", "floor", "ceiling", "count", "sum", "max", "min", "sqrt", "number", "not", "string length", "decimal"])
            saved = len(self.bound)
            self.bound.append(("p", "num"))
            body = ("add", self.sub("num", d + 1), ("name", "p"))
            del self.bound[saved:]
            fn = ("fundef", ["p"], body)
            arg = self.sub("num", d + 1)
            shape = r.randrange(3)
            if shape == 0:
                return ("path", ("ctx", [(bif, fn), ("r", ("call", ("name", bif), [arg]))]), "r")
            if shape == 1:
                return ("call", ("fundef", [bif, "zx"], ("call", ("name", bif), [("name", "zx")])), [fn, arg])
            return ("filter", ("for", [(bif, ("dom_list", ("list", [fn])))], ("call", ("name", bif), [arg])), ("num", "1"), "index")
        if c in ("call", "callnamed"):
            # function either bound in the scope (fa: 2 params p,q ; fb: 1 param p) or defined inline
            which = r.random()
            if which < 0.35:
                f, params = ("name", "fa"), ["p", "q"]
            elif which < 0.55:
                f, params = ("name", "fb"), ["p"]
            else:
                nparams = r.choice([0, 1, 2])
                params = ["p", "q"][:nparams]
                saved = len(self.bound)
                for p in params:
                    self.bound.append((p, "num"))
                bt = ty if ty in ("num", "bool", "numlist", "ctx") else "num"
                body = self.sub(bt, d + 1)
                del self.bound[saved:]
                f = ("fundef", params, body)
            nargs = len(params)
            wrong = r.random()
            if wrong < 0.08:
                nargs = max(0, nargs - 1)
            elif wrong < 0.16:
                nargs += 1
            args = [self.sub("num", d + 1) for _ in range(nargs)]
            if c == "call":
                return ("call", f, args)
            names = list(params)
            if wrong < 0.08 and names:
                names = names[:-1]
            elif wrong < 0.16:
                names = names + ["extra"]
            order = list(range(len(names)))
            r.shuffle(order)
            pairs = [(names[k], args[k] if k < len(args) else ("num", "1")) for k in order]
            return ("callnamed", f, pairs)
        return self.leaf(ty)

    def _simple_between(self, x, d):
        self.simple += 1
        try:
            return ("between", x, self.sub("num", d + 1), self.sub("num", d + 1))
        finally:
            self.simple -= 1

    def _lit(self, c):
        r = self.rng
        if c == "num":
            return ("num", r.choice(NUMS))
        if c == "str":
            return ("str", r.choice(STRS))
        return ("bool", r.random() < 0.5)


def constructs_in(e, acc_single=None, acc_pairs=None, parent=None):
    """walks the tree collecting construct names and parent->child construct pairs"""
    if acc_single is None:
        acc_single = set()
    if acc_pairs is None:
        acc_pairs = set()
    if not isinstance(e, tuple) or not e or not isinstance(e[0], str):
        return acc_single, acc_pairs
    t = e[0]
    if t in ("dom_list", "dom_range", "ut_val", "ut_cmp"):
        for x in e[1:]:
            _walk(x, acc_single, acc_pairs, parent)
        return acc_single, acc_pairs
    acc_single.add(t)
    if parent is not None:
        acc_pairs.add((parent, t))
    for x in e[1:]:
        _walk(x, acc_single, acc_pairs, t)
    return acc_single, acc_pairs


def _walk(x, s, p, parent):
    if isinstance(x, tuple) and x and isinstance(x[0], str) and (x[0] in CONSTRUCTS or x[0] in ("dom_list", "dom_range", "ut_val", "ut_cmp", "paren")):
        constructs_in(x, s, p, parent)
    elif isinstance(x, (list, tuple)):
        for y in x:
            _walk(y, s, p, parent)
