"""G-DRAW — Unicode decision-table renderer in the conventions of dmntk-recognizer (C19).

Conventions were derived from /repo/examples/src/examples/valid.rs (EX_0001..EX_0105), the
recognizer tests and recognizer/src/{canvas,plane,recognizer}.rs:

* A table is a grid of rectangular regions drawn with light box characters. Exactly one double
  line separates the clause header from the rules, one separates inputs from outputs and an
  optional one separates outputs from annotations. In the rules-as-rows orientation the header is
  on top (horizontal double line `╞═╪═╬═╡` below it), inputs | outputs | annotations are separated
  by vertical double lines (`╥ ║ ╫ ╟ ╢ ╬ ╨`); the rules-as-columns orientation is the exact
  transpose of that core (the recognizer pivots it back).
* Marker strip: rows -> first column: hit-policy cell spanning all header rows, then one
  rule-number cell per rule; columns -> last row: hit-policy cell spanning the header columns
  except the allowed-values column (which gets a blank cell), then the rule numbers.
* Header rows (columns when transposed), h = number of them:
    single output : h=1 output label (may be blank)           | h=2 label + allowed values
    several outputs: h=1 component names | h=2 label over component names (no allowed values) or
                     component names + allowed values | h=3 label, component names, allowed values
  Allowed values are all-or-nothing: every input and every output has a values cell or none has.
  An input expression spans all header rows except the values row; an annotation name spans the
  same rows and gets a blank cell in the values row.
* Identical adjacent input entries may be drawn as one merged cell (both orientations).
* The optional information item name is a box on top of the table, left aligned with it, whose
  right edge ends on the top edge of the table (`┴`, `┼` over a column separator, `┤` at the right
  end) but not on the `╥` of a double line and not beyond the table.
* Cell text may be padded freely and broken over several lines; lines are trimmed by the scanner,
  so any common indentation, blanks after the right edge and CRLF line ends are allowed; text
  before the first line starting with `┌` and after the line ending with `┘` is ignored.

The abstract table (what is drawn and what must be recognised) is a dict:
  {"marker": "U|A|P|F|R|O|C|C+|C<|C>|C#", "name": tokens|None, "label": tokens|None,
   "inputs": [{"expr": tokens, "values": tokens|None, "kind": "number"|"string"}],
   "outputs": [{"name": tokens|None, "values": tokens|None}], "anns": [tokens],
   "rules": [{"i": [tokens], "o": [tokens], "a": [tokens], "spec": [entry-spec]}]}
where `tokens` is a list of unbreakable text pieces; the text of a cell is the tokens joined by
blanks; line breaks are only placed between tokens.
"""
from decimal import Decimal
from xml.sax.saxutils import escape, quoteattr

MARKERS = ["U", "A", "P", "F", "R", "O", "C", "C+", "C<", "C>", "C#"]
HIT_POLICY_OF = {
    "U": ("U", None),
    "A": ("A", None),
    "P": ("P", None),
    "F": ("F", None),
    "R": ("R", None),
    "O": ("O", None),
    "C": ("C", "LIST"),
    "C+": ("C", "SUM"),
    "C<": ("C", "MIN"),
    "C>": ("C", "MAX"),
    "C#": ("C", "COUNT"),
}
XML_HIT_POLICY = {"U": "UNIQUE", "A": "ANY", "P": "PRIORITY", "F": "FIRST", "R": "RULE ORDER", "O": "OUTPUT ORDER", "C": "COLLECT"}

# junction characters by (up, down, left, right) for the four line-style combinations
_SS = {(0, 1, 0, 1): "┌", (0, 1, 1, 0): "┐", (1, 0, 0, 1): "└", (1, 0, 1, 0): "┘", (1, 1, 0, 1): "├", (1, 1, 1, 0): "┤", (0, 1, 1, 1): "┬", (1, 0, 1, 1): "┴", (1, 1, 1, 1): "┼", (1, 1, 0, 0): "│", (0, 0, 1, 1): "─"}
_DS = {(1, 1, 0, 0): "║", (1, 1, 1, 1): "╫", (1, 1, 0, 1): "╟", (1, 1, 1, 0): "╢", (0, 1, 1, 1): "╥", (1, 0, 1, 1): "╨"}  # vertical double, horizontal single
_SD = {(0, 0, 1, 1): "═", (1, 1, 1, 1): "╪", (0, 1, 1, 1): "╤", (1, 0, 1, 1): "╧", (1, 1, 0, 1): "╞", (1, 1, 1, 0): "╡"}  # horizontal double, vertical single
_DD = {(1, 1, 1, 1): "╬"}
_JUNCTION = {("s", "s"): _SS, ("d", "s"): _DS, ("s", "d"): _SD, ("d", "d"): _DD}

BOX_CHARS = "┌┐└┘├┤┬┴┼─│╞╡╪╤╧═╟╢╫╥╨║╬"


class NotDrawable(Exception):
    pass


def norm(x):
    """Whitespace-normal form of a cell text (tokens, raw recognised text or None)."""
    if x is None:
        return None
    if isinstance(x, (list, tuple)):
        x = " ".join(x)
    if '"' not in x:
        return " ".join(x.split())
    # white space INSIDE a string literal is part of the value: only what lies outside the quotes is normalised
    # (generated string literals never contain a quote or a backslash)
    parts = x.split('"')
    out = []
    for k, part in enumerate(parts):
        if k % 2 == 1 and k < len(parts) - 1:
            out.append(part)
        else:
            sp = " ".join(part.split())
            if part[:1].isspace() and k > 0 and sp:
                sp = " " + sp
            if part[-1:].isspace() and k < len(parts) - 1 and sp:
                sp = sp + " "
            if not sp and part and 0 < k < len(parts) - 1:
                sp = " "
            out.append(sp)
    return '"'.join(out).strip()


# --------------------------------------------------------------------------------------------
# layout
# --------------------------------------------------------------------------------------------
class Layout:
    def __init__(self, nrows, ncols, regions, vstyle, hstyle):
        self.nrows, self.ncols, self.regions, self.vstyle, self.hstyle = nrows, ncols, regions, vstyle, hstyle


def header_rows(t):
    no = len(t["outputs"])
    has_values = t["inputs"][0]["values"] is not None
    if no == 1:
        return 2 if has_values else 1
    return 1 + (1 if t["label"] is not None else 0) + (1 if has_values else 0)


def possible_merges(t):
    """All (input column, rule) pairs such that rule and rule+1 carry the identical entry."""
    out = []
    for c in range(len(t["inputs"])):
        for r in range(len(t["rules"]) - 1):
            if t["rules"][r]["i"][c] == t["rules"][r + 1]["i"][c]:
                out.append((c, r))
    return out


def build_layout(t, orientation, merges=()):
    """orientation: "row" (rules as rows) or "col" (rules as columns); merges: subset of possible_merges."""
    ni, no, na, n = len(t["inputs"]), len(t["outputs"]), len(t["anns"]), len(t["rules"])
    has_values = t["inputs"][0]["values"] is not None
    for inp in t["inputs"]:
        if (inp["values"] is not None) != has_values:
            raise NotDrawable("input values are all-or-nothing")
    for out in t["outputs"]:
        if (out["values"] is not None) != has_values:
            raise NotDrawable("output values are all-or-nothing")
        if (no > 1) != (out["name"] is not None):
            raise NotDrawable("component names iff several outputs")
    h = header_rows(t)
    v = 1 if has_values else 0
    regs = []

    def add(r0, c0, r1, c1, tokens, role):
        regs.append({"r0": r0, "c0": c0, "r1": r1, "c1": c1, "tokens": list(tokens or []), "role": role})

    for i, inp in enumerate(t["inputs"]):
        add(0, i, h - v, i + 1, inp["expr"], "iexpr")
        if v:
            add(h - 1, i, h, i + 1, inp["values"], "ival")
    c = ni
    if no == 1:
        add(0, c, 1, c + 1, t["label"], "label")
        if v:
            add(1, c, 2, c + 1, t["outputs"][0]["values"], "oval")
    else:
        r = 0
        if t["label"] is not None:
            add(0, c, 1, c + no, t["label"], "label")
            r = 1
        for k, out in enumerate(t["outputs"]):
            add(r, c + k, r + 1, c + k + 1, out["name"], "comp")
            if v:
                add(r + 1, c + k, r + 2, c + k + 1, out["values"], "oval")
    c = ni + no
    for k, ann in enumerate(t["anns"]):
        add(0, c + k, h - v, c + k + 1, ann, "ann")
        if v:
            add(h - 1, c + k, h, c + k + 1, [], "blank")
    merges = set(merges)
    for i in range(ni):
        r = 0
        while r < n:
            e = r
            while e < n - 1 and (i, e) in merges:
                if t["rules"][e]["i"][i] != t["rules"][e + 1]["i"][i]:
                    raise NotDrawable("only identical entries may be merged")
                e += 1
            add(h + r, i, h + e + 1, i + 1, t["rules"][r]["i"][i], "ientry")
            r = e + 1
    for r, rule in enumerate(t["rules"]):
        for k in range(no):
            add(h + r, ni + k, h + r + 1, ni + k + 1, rule["o"][k], "oentry")
        for k in range(na):
            add(h + r, ni + no + k, h + r + 1, ni + no + k + 1, rule["a"][k], "aentry")
    nrows, ncols = h + n, ni + no + na
    vstyle = ["s"] * (ncols + 1)
    vstyle[ni] = "d"
    if na:
        vstyle[ni + no] = "d"
    hstyle = ["s"] * (nrows + 1)
    hstyle[h] = "d"
    marker = t["marker"]
    if orientation == "row":
        for g in regs:
            g["c0"] += 1
            g["c1"] += 1
        add(0, 0, h, 1, [marker], "marker")
        for r in range(n):
            add(h + r, 0, h + r + 1, 1, [str(r + 1)], "rulenum")
        return Layout(nrows, ncols + 1, regs, ["s"] + vstyle, hstyle)
    if orientation == "col":
        for g in regs:
            g["r0"], g["c0"], g["r1"], g["c1"] = g["c0"], g["r0"], g["c1"], g["r1"]
        nrows, ncols = ncols, nrows
        vstyle, hstyle = hstyle, vstyle
        add(nrows, 0, nrows + 1, h - v, [marker], "marker")
        if v:
            add(nrows, h - 1, nrows + 1, h, [], "blank")
        for r in range(n):
            add(nrows, h + r, nrows + 1, h + r + 1, [str(r + 1)], "rulenum")
        return Layout(nrows + 1, ncols, regs, vstyle, hstyle + ["s"])
    raise ValueError(orientation)


# --------------------------------------------------------------------------------------------
# rendering
# --------------------------------------------------------------------------------------------
DEFAULT_STYLE = {
    "pad_small": 3,  # usual extra width 0..pad_small
    "pad_big_p": 0.08,  # probability of a wide cell (up to width 30)
    "multiline_p": 0.25,  # probability that a cell with several tokens is broken over lines
    "tall_p": 0.15,  # probability of extra blank lines in a cell
    "indent_max": 4,
    "preamble_p": 0.15,
    "trailer_p": 0.15,
    "trailing_blanks_p": 0.05,  # blanks after the right edge of the lines
    "crlf_p": 0.05,  # Windows line endings
}


def break_lines(tokens, rng, p):
    if not tokens:
        return []
    if len(tokens) == 1 or rng.random() >= p:
        return [" ".join(tokens)]
    k = rng.randint(2, min(3, len(tokens)))
    cuts = sorted(rng.sample(range(1, len(tokens)), k - 1))
    lines, prev = [], 0
    for cut in cuts + [len(tokens)]:
        lines.append(" ".join(tokens[prev:cut]))
        prev = cut
    return lines


def render(layout, rng, style=None, name_tokens=None):
    """Returns the drawing as text; `layout.info` then tells what was drawn (multi-line cells, widest cell)."""
    st = dict(DEFAULT_STYLE)
    if style:
        st.update(style)
    nrows, ncols = layout.nrows, layout.ncols
    owner = [[None] * ncols for _ in range(nrows)]
    for k, g in enumerate(layout.regions):
        for r in range(g["r0"], g["r1"]):
            for c in range(g["c0"], g["c1"]):
                if owner[r][c] is not None:
                    raise NotDrawable("overlapping regions")
                owner[r][c] = k
    if any(o is None for row in owner for o in row):
        raise NotDrawable("grid not covered")
    # text lines and wanted inner sizes
    want = []
    for g in layout.regions:
        lines = break_lines(g["tokens"], rng, st["multiline_p"])
        g["lines"] = lines
        need_w = max([len(x) for x in lines] + [1])
        need_h = max(len(lines), 1)
        if rng.random() < st["pad_big_p"]:
            w = max(need_w, rng.randint(1, 30))
        else:
            w = need_w + rng.randint(0, st["pad_small"])
        hh = need_h + (rng.randint(1, 2) if rng.random() < st["tall_p"] else 0)
        want.append((w, hh))
    colw = [1] * ncols
    rowh = [1] * nrows
    order = sorted(range(len(layout.regions)), key=lambda k: (layout.regions[k]["c1"] - layout.regions[k]["c0"], k))
    for k in order:
        g = layout.regions[k]
        span = list(range(g["c0"], g["c1"]))
        have = sum(colw[c] for c in span) + len(span) - 1
        if have < want[k][0]:
            deficit = want[k][0] - have
            if len(span) == 1:
                colw[span[0]] += deficit
            else:
                for _ in range(deficit):
                    colw[rng.choice(span)] += 1
    order = sorted(range(len(layout.regions)), key=lambda k: (layout.regions[k]["r1"] - layout.regions[k]["r0"], k))
    for k in order:
        g = layout.regions[k]
        span = list(range(g["r0"], g["r1"]))
        have = sum(rowh[r] for r in span) + len(span) - 1
        if have < want[k][1]:
            deficit = want[k][1] - have
            if len(span) == 1:
                rowh[span[0]] += deficit
            else:
                for _ in range(deficit):
                    rowh[rng.choice(span)] += 1
    name_lines = None
    if name_tokens is not None:
        name_lines = break_lines(name_tokens, rng, st["multiline_p"]) or [""]
        need = max(len(x) for x in name_lines) + 2
        total = sum(colw) + ncols + 1
        if total < need:
            colw[rng.randrange(ncols)] += need - total
    xs = [0]
    for c in range(ncols):
        xs.append(xs[-1] + colw[c] + 1)
    ys = [0]
    for r in range(nrows):
        ys.append(ys[-1] + rowh[r] + 1)
    width, height = xs[-1] + 1, ys[-1] + 1
    grid = [[" "] * width for _ in range(height)]

    def vseg(c, r):  # segment of vertical separator c alongside row r
        return c == 0 or c == ncols or owner[r][c - 1] != owner[r][c]

    def hseg(r, c):  # segment of horizontal separator r alongside column c
        return r == 0 or r == nrows or owner[r - 1][c] != owner[r][c]

    for c in range(ncols + 1):
        ch = "║" if layout.vstyle[c] == "d" else "│"
        for r in range(nrows):
            if vseg(c, r):
                for y in range(ys[r] + 1, ys[r + 1]):
                    grid[y][xs[c]] = ch
    for r in range(nrows + 1):
        ch = "═" if layout.hstyle[r] == "d" else "─"
        for c in range(ncols):
            if hseg(r, c):
                for x in range(xs[c] + 1, xs[c + 1]):
                    grid[ys[r]][x] = ch
    for r in range(nrows + 1):
        for c in range(ncols + 1):
            up = 1 if r > 0 and vseg(c, r - 1) else 0
            down = 1 if r < nrows and vseg(c, r) else 0
            left = 1 if c > 0 and hseg(r, c - 1) else 0
            right = 1 if c < ncols and hseg(r, c) else 0
            key = (up, down, left, right)
            if key == (0, 0, 0, 0):
                continue
            vs = layout.vstyle[c] if (up or down) else "s"
            hs = layout.hstyle[r] if (left or right) else "s"
            ch = _JUNCTION[(vs, hs)].get(key)
            if ch is None:
                raise NotDrawable("no box character for junction %s with styles %s/%s" % (key, vs, hs))
            grid[ys[r]][xs[c]] = ch
    for g in layout.regions:
        lines = g["lines"]
        if not lines:
            continue
        x0, x1 = xs[g["c0"]] + 1, xs[g["c1"]]  # inner columns [x0, x1)
        y0, y1 = ys[g["r0"]] + 1, ys[g["r1"]]
        w, hh = x1 - x0, y1 - y0
        if rng.random() < 0.2:
            rows = sorted(rng.sample(range(hh), len(lines)))
        else:
            off = rng.randint(0, hh - len(lines))
            rows = list(range(off, off + len(lines)))
        align = rng.choice("lcrx")
        for line, ry in zip(lines, rows):
            free = w - len(line)
            if align == "l":
                off = min(free, 1) if rng.random() < 0.7 else 0
            elif align == "r":
                off = free - (min(free, 1) if rng.random() < 0.7 else 0)
            elif align == "c":
                off = free // 2
            else:
                off = rng.randint(0, free)
            for k, chx in enumerate(line):
                grid[y0 + ry][x0 + off + k] = chx
    out_lines = ["".join(row) for row in grid]
    if name_lines is not None:
        need_w = max(len(x) for x in name_lines)
        top = grid[0]
        cands = [x for x in range(need_w + 1, width) if top[x] in "─┬┐"]
        if not cands:
            raise NotDrawable("no place for the information item name box")
        bx = rng.choice(cands)
        top = list(top)
        top[0] = "├"
        top[bx] = {"─": "┴", "┬": "┼", "┐": "┤"}[top[bx]]
        out_lines[0] = "".join(top)
        inner = bx - 1
        extra_above = rng.randint(0, 1) if rng.random() < st["tall_p"] else 0
        extra_below = rng.randint(0, 1) if rng.random() < st["tall_p"] else 0
        box = ["┌" + "─" * inner + "┐"]
        body = [""] * extra_above + name_lines + [""] * extra_below
        align = rng.choice("lcrx")
        for line in body:
            free = inner - len(line)
            if align == "l":
                off = min(free, 1)
            elif align == "r":
                off = free - min(free, 1)
            elif align == "c":
                off = free // 2
            else:
                off = rng.randint(0, free)
            box.append("│" + " " * off + line + " " * (free - off) + "│")
        out_lines = box + out_lines
    indent = " " * rng.randint(0, st["indent_max"])
    out_lines = [indent + x for x in out_lines]
    pre, post = [], []
    if rng.random() < st["preamble_p"]:
        pre = rng.choice([["Decision table"], ["", "  some text before the table: U | 1 | 2", ""], ["% comment"], ["", ""]])
    if rng.random() < st["trailer_p"]:
        post = rng.choice([["% { a: 1 }, 2"], ["", "trailing text ┌─┐"], [""], ["% ┌───┘"]])
    layout.info = {
        "multiline_cells": sum(1 for g in layout.regions if len(g["lines"]) > 1) + (1 if name_lines and len(name_lines) > 1 else 0),
        "widest_cell": max(colw),
        "tallest_cell": max(rowh),
        "width": width,
        "height": len(out_lines),
    }
    all_lines = [""] + pre + out_lines + post + [""]
    if rng.random() < st["trailing_blanks_p"]:
        all_lines = [x + " " * rng.randint(0, 3) for x in all_lines]
    eol = "\r\n" if rng.random() < st["crlf_p"] else "\n"
    layout.info["crlf"] = eol != "\n"
    return eol.join(all_lines)


def draw(t, orientation, rng, style=None, merge_p=0.5):
    """Returns (text, info); info: merged (number of merged pairs of input entries), multiline_cells, widest_cell, ..."""
    pm = possible_merges(t)
    merges = [m for m in pm if rng.random() < merge_p]
    layout = build_layout(t, orientation, merges)
    text = render(layout, rng, style, t["name"])
    info = dict(layout.info)
    info["merged"] = len(merges)
    return text, info


# --------------------------------------------------------------------------------------------
# expected recognition result and comparison
# --------------------------------------------------------------------------------------------
def expected(t, orientation):
    hp, agg = HIT_POLICY_OF[t["marker"]]
    no = len(t["outputs"])
    return {
        "hp": hp,
        "hp_agg": agg,
        "agg": agg,
        "orient": orientation,
        "name": norm(t["name"]),
        "label": norm(t["label"]) if no > 1 else (norm(t["label"]) or ""),
        "inputs": [{"e": norm(i["expr"]), "v": norm(i["values"])} for i in t["inputs"]],
        "outputs": [{"n": norm(o["name"]), "v": norm(o["values"]), "d": None, "t": None} for o in t["outputs"]],
        "anns": [norm(a) for a in t["anns"]],
        "rules": [{"i": [norm(x) for x in r["i"]], "o": [norm(x) for x in r["o"]], "a": [norm(x) for x in r["a"]]} for r in t["rules"]],
    }


def normalise_recognised(dt):
    no = len(dt["outputs"])
    return {
        "hp": dt["hp"],
        "hp_agg": dt["hp_agg"],
        "agg": dt["agg"],
        "orient": dt["orient"],
        "name": norm(dt["name"]),
        "label": norm(dt["label"]) if no > 1 else (norm(dt["label"]) or ""),
        "inputs": [{"e": norm(i["e"]), "v": norm(i["v"])} for i in dt["inputs"]],
        "outputs": [{"n": norm(o["n"]), "v": norm(o["v"]), "d": norm(o["d"]), "t": norm(o["t"])} for o in dt["outputs"]],
        "anns": [norm(a) for a in dt["anns"]],
        "rules": [{"i": [norm(x) for x in r["i"]], "o": [norm(x) for x in r["o"]], "a": [norm(x) for x in r["a"]]} for r in dt["rules"]],
    }


def diff_fields(exp, got):
    """List of (field-class, detail) differences between an expected and a normalised recognised table."""
    out = []
    for f in ("hp", "hp_agg", "agg", "orient", "name", "label"):
        if exp[f] != got[f]:
            out.append((f, "%s: drawn %r, recognised %r" % (f, exp[f], got[f])))
    for f, sub in (("inputs", ("e", "v")), ("outputs", ("n", "v", "d", "t"))):
        if len(exp[f]) != len(got[f]):
            out.append((f + "-count", "%s: drawn %d, recognised %d" % (f, len(exp[f]), len(got[f]))))
            continue
        for k, (a, b) in enumerate(zip(exp[f], got[f])):
            for s in sub:
                if a[s] != b[s]:
                    out.append(("%s.%s" % (f, s), "%s[%d].%s: drawn %r, recognised %r" % (f, k, s, a[s], b[s])))
    if exp["anns"] != got["anns"]:
        out.append(("anns", "annotations: drawn %r, recognised %r" % (exp["anns"], got["anns"])))
    if len(exp["rules"]) != len(got["rules"]):
        out.append(("rules-count", "rules: drawn %d, recognised %d" % (len(exp["rules"]), len(got["rules"]))))
    else:
        for k, (a, b) in enumerate(zip(exp["rules"], got["rules"])):
            for s in ("i", "o", "a"):
                if a[s] != b[s]:
                    out.append(("rules.%s" % s, "rule %d %s-entries: drawn %r, recognised %r" % (k + 1, s, a[s], b[s])))
    return out


def table_from_recognised(dt):
    """Abstract table carrying the content of a recognised drawing (used to re-draw shipped examples)."""
    no = len(dt["outputs"])
    marker = {None: "", "LIST": "", "SUM": "+", "MIN": "<", "MAX": ">", "COUNT": "#"}[dt["hp_agg"]]
    tok = lambda s: None if s is None else s.split()  # noqa: E731
    label = tok(dt["label"])
    if no == 1 and label is None:
        label = []
    return {
        "marker": dt["hp"] + marker,
        "name": tok(dt["name"]),
        "label": label,
        "inputs": [{"expr": tok(i["e"]), "values": tok(i["v"]), "kind": "string"} for i in dt["inputs"]],
        "outputs": [{"name": tok(o["n"]), "values": tok(o["v"])} for o in dt["outputs"]],
        "anns": [tok(a) for a in dt["anns"]],
        "rules": [{"i": [tok(x) for x in r["i"]], "o": [tok(x) for x in r["o"]], "a": [tok(x) for x in r["a"]], "spec": None} for r in dt["rules"]],
    }


# --------------------------------------------------------------------------------------------
# random abstract tables with evaluable content
# --------------------------------------------------------------------------------------------
INPUT_NAMES = [
    ["Customer"], ["Order", "size"], ["Age"], ["Risk", "category"], ["Medical", "history"], ["Applicant", "age"], ["Region"], ["Score"],
    ["Years", "of", "service"], ["Channel"], ["Amount"], ["Loyalty", "level"],
]
COMPONENT_NAMES = [["Discount"], ["Priority"], ["Rate", "code"], ["Special", "offer"], ["Routing"], ["Fee"], ["Approval", "status"]]
LABELS = [["Order", "options"], ["Sell", "options"], ["Result"], ["Applicant", "risk", "rating"], ["Decision", "outcome"]]
ITEM_NAMES = [["Discount"], ["Order", "options"], ["Applicant", "risk", "rating"], ["information", "item", "name"], ["Routing", "rules", "for", "orders"], ["X"]]
ANN_NAMES = [["Description"], ["Reference"], ["Remarks"], ["Additional", "acceptance"], ["Uwagi", "zażółć"]]
ANN_WORDS = ["Small", "order", "Large", "All", "orders", "Ref", "1", "2", "see", "§", "4.2", "n/a", "-", "łódź", "中文", "ok", "check", "twice", "No", "Yes", "(legacy)", "x"]
STRINGS = ["Business", "Private", "Government", "Low", "Medium", "High", "good", "bad", "A", "B", "b c", "Zażółć", "中文", "N/A", "x-1", ""]


def _num_text(d):
    return format(d, "f")


def _rand_number(rng):
    k = rng.random()
    if k < 0.6:
        return Decimal(rng.randint(-5, 100))
    if k < 0.9:
        return Decimal(rng.randint(-500, 10000)) / Decimal(100)
    return Decimal(rng.randint(0, 30)) / Decimal(10)


def _lit(kind, v):
    return _num_text(v) if kind == "number" else '"%s"' % v


def _list_tokens(kind, vals):
    toks = [_lit(kind, v) for v in vals]
    return [x + "," for x in toks[:-1]] + [toks[-1]]


def random_entry(kind, pool, rng):
    """(tokens, spec) of an input entry over the column's value pool."""
    k = rng.random()
    if k < 0.22:
        return ["-"], ("any",)
    if kind == "number":
        # dmntk's FEEL grammar rejects negative endpoints in comparisons and ranges (`< -5`, `[-1..2]`), in text and
        # XML alike; such entries would only yield undecided comparisons, so negative values appear in lists only
        nonneg = [v for v in pool if v >= 0]
        if not nonneg:
            k = 0.8
        a = rng.choice(nonneg or pool)
        if k < 0.5:
            op = rng.choice(["<", "<=", ">", ">="])
            sep = rng.choice(["", " "])
            return [op + sep + _num_text(a)] if not sep else [op, _num_text(a)], ("cmp", op, a)
        if k < 0.7:
            b = rng.choice(nonneg)
            lo, hi = min(a, b), max(a, b)
            lc, hc = rng.random() < 0.6, rng.random() < 0.6
            return ["%s%s..%s%s" % ("[" if lc else "(", _num_text(lo), _num_text(hi), "]" if hc else ")")], ("rng", lo, lc, hi, hc)
        if k < 0.85:
            vals = rng.sample(pool, min(len(pool), rng.randint(1, 3)))
            return _list_tokens(kind, vals), ("in", tuple(vals))
        if k < 0.93 and nonneg:
            # negation of comparisons / an interval / a mixed list: not(< 2, > 7), not([1..3]), not(5, >= 9)
            parts, toks = [], []
            for _ in range(rng.randint(1, 2)):
                j = rng.random()
                x = rng.choice(nonneg)
                if j < 0.5:
                    op = rng.choice(["<", "<=", ">", ">="])
                    parts.append(("cmp", op, x))
                    toks.append(op + " " + _num_text(x))
                elif j < 0.8:
                    y = rng.choice(nonneg)
                    lo, hi = min(x, y), max(x, y)
                    lc, hc = rng.random() < 0.6, rng.random() < 0.6
                    parts.append(("rng", lo, lc, hi, hc))
                    toks.append("%s%s..%s%s" % ("[" if lc else "(", _num_text(lo), _num_text(hi), "]" if hc else ")"))
                else:
                    parts.append(("in", (x,)))
                    toks.append(_num_text(x))
            toks = [t + "," for t in toks[:-1]] + [toks[-1]]
            toks[0] = "not(" + toks[0]
            toks[-1] = toks[-1] + ")"
            return toks, ("notany", tuple(parts))
        vals = rng.sample(pool, min(len(pool), rng.randint(1, 2)))
        toks = _list_tokens(kind, vals)
        toks[0] = "not(" + toks[0]
        toks[-1] = toks[-1] + ")"
        return toks, ("notin", tuple(vals))
    if k < 0.8:
        vals = rng.sample(pool, min(len(pool), rng.choice([1, 1, 1, 2, 3])))
        return _list_tokens(kind, vals), ("in", tuple(vals))
    vals = rng.sample(pool, min(len(pool), rng.randint(1, 2)))
    toks = _list_tokens(kind, vals)
    toks[0] = "not(" + toks[0]
    toks[-1] = toks[-1] + ")"
    return toks, ("notin", tuple(vals))


def entry_matches(spec, v):
    k = spec[0]
    if k == "any":
        return True
    if k == "cmp":
        op, a = spec[1], spec[2]
        return {"<": v < a, "<=": v <= a, ">": v > a, ">=": v >= a}[op]
    if k == "rng":
        _, lo, lc, hi, hc = spec
        return (v >= lo if lc else v > lo) and (v <= hi if hc else v < hi)
    if k == "in":
        return v in spec[1]
    if k == "notin":
        return v not in spec[1]
    if k == "notany":
        return not any(entry_matches(p, v) for p in spec[1])
    raise ValueError(spec)


def random_table(rng, marker=None, shape=None):
    """shape: optional dict forcing ni/no/na/n/name/label/values."""
    shape = shape or {}
    marker = marker or rng.choice(MARKERS)
    ni = shape.get("ni") or rng.choice([1, 1, 2, 2, 2, 3, 3, 4, 5])
    no = shape.get("no") or rng.choice([1, 1, 1, 2, 2, 3])
    na = shape["na"] if "na" in shape else rng.choice([0, 0, 0, 1, 1, 2])
    n = shape.get("n") or rng.randint(1, 8)
    if "n" not in shape and rng.random() < 0.03:
        n = rng.choice([9, 16, 17, 32, 33, 40, 65])  # size boundary: many rules (and, with few distinct pool values, many hits)
    has_name = shape["name"] if "name" in shape else rng.random() < 0.5
    has_values = shape["values"] if "values" in shape else rng.random() < 0.5
    has_label = shape["label"] if "label" in shape else rng.random() < 0.5
    numeric_out = marker in ("C+", "C<", "C>")
    in_names = [list(x) for x in rng.sample(INPUT_NAMES, ni)]
    if rng.random() < shape.get("marker_like_p", 0.03):
        # a valid FEEL name that reads like a hit policy marker
        in_names[rng.randrange(ni)] = [rng.choice(["A", "C", "F", "O", "P", "R", "U"])]
    inputs = []
    pools = []
    for name in in_names:
        kind = rng.choice(["number", "string"])
        if kind == "number":
            pool = sorted({_rand_number(rng) for _ in range(rng.randint(2, 5))})
        else:
            pool = rng.sample(STRINGS, rng.randint(2, 5))
        pools.append(pool)
        values = None
        if has_values:
            if kind == "number" and rng.random() < 0.5:
                lo, hi = max(Decimal(0), min(pool) - rng.randint(0, 3)), max(Decimal(0), max(pool)) + rng.randint(0, 3)
                values = ["[%s..%s]" % (_num_text(lo), _num_text(hi))]
            else:
                allowed = [v for v in pool if rng.random() < 0.85] or [pool[0]]
                values = _list_tokens(kind, allowed)
        inputs.append({"expr": list(name), "values": values, "kind": kind})
    outputs = []
    out_pools = []
    comp_names = rng.sample(COMPONENT_NAMES, no)
    for k in range(no):
        kind = "number" if numeric_out or rng.random() < 0.5 else "string"
        if kind == "number":
            pool = sorted({_rand_number(rng) for _ in range(rng.randint(2, 4))})
        else:
            pool = rng.sample([s for s in STRINGS if s], rng.randint(2, 4))
        out_pools.append((kind, pool))
        values = None
        if has_values:
            order = list(pool)
            rng.shuffle(order)
            if rng.random() < 0.2 and len(order) > 1:
                order = order[:-1]  # an output entry outside the allowed values
            values = _list_tokens(kind, order)
        outputs.append({"name": list(comp_names[k]) if no > 1 else None, "values": values})
    if no == 1:
        label = list(rng.choice(LABELS)) if has_label else []
    else:
        label = list(rng.choice(LABELS)) if has_label else None
    anns = [list(a) for a in rng.sample(ANN_NAMES, na)]
    rules = []
    number_inputs = [i for i in inputs if i["kind"] == "number"]
    for r in range(n):
        ient, spec = [], []
        for c in range(ni):
            if r > 0 and rng.random() < 0.3:
                ient.append(list(rules[r - 1]["i"][c]))
                spec.append(rules[r - 1]["spec"][c])
            else:
                toks, sp = random_entry(inputs[c]["kind"], pools[c], rng)
                ient.append(toks)
                spec.append(sp)
        oent = []
        for kind, pool in out_pools:
            k = rng.random()
            v = rng.choice(pool)
            if k < 0.85 or has_values:
                oent.append([_lit(kind, v)])
            elif kind == "number" and number_inputs and k < 0.93:
                oent.append(list(rng.choice(number_inputs)["expr"]) + [rng.choice("+*-"), _num_text(v)])
            elif kind == "number":
                oent.append([_num_text(v), rng.choice("+*-"), _num_text(rng.choice(pool))])
            else:
                oent.append([_lit(kind, v), "+", _lit(kind, rng.choice(pool))])
        aent = [[rng.choice(ANN_WORDS) for _ in range(rng.randint(0, 4))] for _ in range(na)]
        rules.append({"i": ient, "o": oent, "a": aent, "spec": spec})
    return {
        "marker": marker,
        "name": list(rng.choice(ITEM_NAMES)) if has_name else None,
        "label": label,
        "inputs": inputs,
        "outputs": outputs,
        "anns": anns,
        "rules": rules,
        "pools": pools,
    }


def _allowed(inp, v):
    """Python reading of the allowed input values (steering only)."""
    if inp["values"] is None:
        return True
    text = " ".join(inp["values"])
    if text.startswith("["):
        lo, hi = text[1:-1].split("..")
        return Decimal(lo) <= v <= Decimal(hi)
    if inp["kind"] == "number":
        return v in [Decimal(x.strip()) for x in text.split(",")]
    return v in [x.strip()[1:-1] for x in text.split(",")]


def matching_rules(t, tup):
    if not all(_allowed(i, v) for i, v in zip(t["inputs"], tup)):
        return 0
    return sum(1 for r in t["rules"] if all(entry_matches(s, v) for s, v in zip(r["spec"], tup)))


SPACINGS = ["  ", "   ", "\t", " \t ", "\u00a0", "\u00a0 ", " \u2003"]


def space_strings(t, rng, drawable=False):
    """Rewrites every string value of the table into one whose white space is significant (a run of blanks, a tab, a no-break
    space inside it, a blank at its start or end) - consistently in entries, specs, allowed / output values and pools, so that
    the table means the same with the new strings. XML path only (`raw` writer): a drawing cannot carry such cells."""
    used = set()
    m = {}

    def mapped(sv):
        if sv not in m:
            for _ in range(50):
                k = rng.random()
                sp = rng.choice(SPACINGS)
                if drawable:
                    # what a drawing can carry on one line of a cell: runs of ordinary blanks inside the literal
                    sp = rng.choice(["  ", "   ", " "])
                    if len(sv) >= 2 and k < 0.8:
                        j = rng.randint(1, len(sv) - 1)
                        new = sv[:j] + sp + sv[j:]
                        if k < 0.2 and len(sv) >= 4:
                            new = new + "  " + "y"
                    else:
                        new = sv + "  " + "x"
                elif k < 0.5 and len(sv) >= 2:
                    j = rng.randint(1, len(sv) - 1)
                    new = sv[:j] + sp + sv[j:]
                elif k < 0.7:
                    new = rng.choice([" ", "  ", "\t"]) + sv
                elif k < 0.9:
                    new = sv + rng.choice([" ", "  ", "\t", "\u00a0"])
                else:
                    new = sv + sp + "x"
                if new not in used and (" ".join(new.split()) != new or (drawable and " " in new)):
                    break
            used.add(new)
            m[sv] = new
        return m[sv]

    def tok(x):
        # tokens: "s"   "s",   not("s",   "s")   (string literals never contain a quote)
        if '"' not in x:
            return x
        a = x.index('"')
        b = x.rindex('"')
        return x[:a + 1] + mapped(x[a + 1:b]) + x[b:]

    def spec(sp):
        k = sp[0]
        if k in ("in", "notin"):
            return (k, tuple(mapped(v) if isinstance(v, str) else v for v in sp[1]))
        if k == "notany":
            return (k, tuple(spec(p) for p in sp[1]))
        return sp

    for inp, pool in zip(t["inputs"], t["pools"]):
        if inp["kind"] == "string":
            pool[:] = [mapped(v) for v in pool]
            if inp["values"] is not None:
                inp["values"] = [tok(x) for x in inp["values"]]
    for out in t["outputs"]:
        if out["values"] is not None:
            out["values"] = [tok(x) for x in out["values"]]
    for r in t["rules"]:
        r["i"] = [[tok(x) for x in e] for e in r["i"]]
        r["o"] = [[tok(x) for x in e] for e in r["o"]]
        r["spec"] = [spec(sp) for sp in r["spec"]]
    t["spaced"] = True
    return t


def steer_inputs(t, rng, per_class=2, tries=60):
    """Input tuples probing the table with no / one / several matching rules (when they exist).
    Returns [(tuple, n_matching)]."""
    cands = []
    for inp, pool in zip(t["inputs"], t["pools"]):
        if inp["kind"] == "number":
            c = set(pool)
            for v in pool:
                step = Decimal(1) if v == v.to_integral_value() else Decimal("0.01")
                c.add(v - step)
                c.add(v + step)
            c.add(Decimal(100000))
            c.add(Decimal(-100000))
        else:
            c = set(pool)
            c.add("zzz")
        cands.append(sorted(c, key=str))
    seen = {}
    ni = len(t["inputs"])
    for k in range(tries):
        tup = [rng.choice(c) for c in cands]
        if k % 2 == 0 and t["rules"]:
            rule = rng.choice(t["rules"])
            for c in range(ni):
                ok = [v for v in cands[c] if entry_matches(rule["spec"][c], v) and _allowed(t["inputs"][c], v)]
                if ok:
                    tup[c] = rng.choice(ok)
        key = tuple(tup)
        if key not in seen:
            seen[key] = matching_rules(t, tup)
    by = {0: [], 1: [], 2: []}
    for key in sorted(seen, key=str):
        by[min(seen[key], 2)].append(key)
    out = []
    for cls in (0, 1, 2):
        rng.shuffle(by[cls])
        out.extend((tup, seen[tup]) for tup in by[cls][:per_class])
    return out


def value_json(kind, v):
    if kind != "number":
        return {"s": v}
    # the same number in another SPELLING for three values out of four (trailing zeros, an exponent): numbers that are equal
    # are equal whatever their scale, an entry `1.5` accepts the input 1.50
    import zlib

    text = _num_text(v)
    k = zlib.crc32(text.encode()) % 4
    if k == 1:
        text = text + ("0" if "." in text else ".0")
    elif k == 2:
        text = text + ("000" if "." in text else ".000")
    elif k == 3 and "E" not in text and "e" not in text:
        d = Decimal(text)
        sign, digits, exp = d.as_tuple()
        text = "%s%sE%d" % ("-" if sign else "", "".join(map(str, digits)) + "0", exp - 1)
    return {"n": text}


def input_context(t, tup):
    return [[norm(i["expr"]), value_json(i["kind"], v)] for i, v in zip(t["inputs"], tup)]


# --------------------------------------------------------------------------------------------
# G-XML twin: one decision holding the same table
# --------------------------------------------------------------------------------------------
def to_dmn_xml(t, orientation, raw=False):
    """raw: cell texts are written token by token with one blank between tokens and NO white-space normalisation, so that
    string literals keep the white space inside them (tables made by space_strings)"""
    if raw:
        keep = norm
        try:
            globals()["norm"] = lambda x: None if x is None else (" ".join(x) if isinstance(x, (list, tuple)) else x)
            return to_dmn_xml(t, orientation)
        finally:
            globals()["norm"] = keep
    hp, agg = HIT_POLICY_OF[t["marker"]]
    no = len(t["outputs"])
    name = norm(t["name"]) or "Drawn table"
    p = []
    p.append('<?xml version="1.0" encoding="UTF-8"?>')
    p.append('<definitions namespace="https://verif/c19" name="c19" id="_defs" xmlns="https://www.omg.org/spec/DMN/20191111/MODEL/">')
    p.append("  <decision name=%s id=\"_dec\">" % quoteattr(name))
    p.append("    <variable name=%s id=\"_dec_var\"/>" % quoteattr(name))
    for k in range(len(t["inputs"])):
        p.append('    <informationRequirement id="_ir%d"><requiredInput href="#_in%d"/></informationRequirement>' % (k, k))
    attrs = ' hitPolicy="%s"' % XML_HIT_POLICY[hp]
    if hp == "C" and agg != "LIST":
        attrs += ' aggregation="%s"' % agg
    label = norm(t["label"])
    if label:
        attrs += " outputLabel=%s" % quoteattr(label)
    attrs += ' preferredOrientation="%s"' % ("Rule-as-Row" if orientation == "row" else "Rule-as-Column")
    p.append('    <decisionTable id="_dt"%s>' % attrs)
    for k, inp in enumerate(t["inputs"]):
        p.append('      <input id="_i%d"><inputExpression typeRef="%s"><text>%s</text></inputExpression>' % (k, inp["kind"], escape(norm(inp["expr"]))))
        if inp["values"] is not None:
            p.append("        <inputValues><text>%s</text></inputValues>" % escape(norm(inp["values"])))
        p.append("      </input>")
    for k, out in enumerate(t["outputs"]):
        nm = (" name=%s" % quoteattr(norm(out["name"]))) if no > 1 else ""
        p.append('      <output id="_o%d"%s>' % (k, nm))
        if out["values"] is not None:
            p.append("        <outputValues><text>%s</text></outputValues>" % escape(norm(out["values"])))
        p.append("      </output>")
    for k, a in enumerate(t["anns"]):
        p.append("      <annotation name=%s/>" % quoteattr(norm(a)))
    for r, rule in enumerate(t["rules"]):
        p.append('      <rule id="_r%d">' % r)
        for k, e in enumerate(rule["i"]):
            p.append('        <inputEntry id="_r%di%d"><text>%s</text></inputEntry>' % (r, k, escape(norm(e))))
        for k, e in enumerate(rule["o"]):
            p.append('        <outputEntry id="_r%do%d"><text>%s</text></outputEntry>' % (r, k, escape(norm(e))))
        for e in rule["a"]:
            p.append("        <annotationEntry><text>%s</text></annotationEntry>" % escape(norm(e)))
        p.append("      </rule>")
    p.append("    </decisionTable>")
    p.append("  </decision>")
    for k, inp in enumerate(t["inputs"]):
        nm = quoteattr(norm(inp["expr"]))
        p.append('  <inputData name=%s id="_in%d"><variable name=%s typeRef="%s" id="_in%d_var"/></inputData>' % (nm, k, nm, inp["kind"], k))
    p.append("</definitions>")
    return "\n".join(p), name
