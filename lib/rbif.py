"""R-BIF — independent reference of the 35 FEEL built-in functions named by property C08.

Written from DMN 1.3 section 10.3.4 (tables 72-76) as restated in the property:
positions count Unicode characters (code points) from 1, negative positions count from the end,
null outside the domain, every wrong arity -> null. Nothing in this file looks at the
implementation; it is pure Python over `decimal`, `re` and the standard containers.

Value model
    null -> None, boolean -> bool, number -> decimal.Decimal, string -> str, list -> list,
    context -> Ctx, anything else (date, duration, range, function ...) -> Opaque.

Reference results
    a plain value      the implementation must return exactly this (numbers compared numerically)
    Approx(x, tol)     a number within `tol` (absolute) of the exact value x
    NumText(x)         a string that is a plain FEEL numeric literal denoting exactly x
    Bag(items)         a list with exactly these items in any order
    Amb([r1, r2, ..])  the specification text supports several readings; any of them is accepted
    UNDECIDED          the reference does not decide this call (never a violation)
"""
import itertools
import re
from decimal import ROUND_HALF_EVEN, Context, Decimal

D128 = Context(prec=34, rounding=ROUND_HALF_EVEN, Emax=6144, Emin=-6143, clamp=1)
HI = Context(prec=150, rounding=ROUND_HALF_EVEN, Emax=999999, Emin=-999999)


# ------------------------------------------------------------------------------------------------
# values
# ------------------------------------------------------------------------------------------------
class Ctx:
    """FEEL context: ordered (name, value) entries; equality ignores order."""

    __slots__ = ("entries",)

    def __init__(self, entries):
        self.entries = [(k, v) for k, v in entries]

    def get(self, name, default=None):
        for k, v in self.entries:
            if k == name:
                return v
        return default

    def has(self, name):
        return any(k == name for k, _ in self.entries)

    def __repr__(self):
        return "Ctx(%r)" % (self.entries,)


class Opaque:
    """A value of a type the reference does not model (date, duration, range, function)."""

    __slots__ = ("kind", "json", "tag")

    def __init__(self, kind, json_form, tag=None):
        self.kind = kind
        self.json = json_form
        self.tag = tag  # for functions: "lt" | "gt" | None

    def __repr__(self):
        return "Opaque(%s,%r)" % (self.kind, self.json)


class _Undecided:
    def __repr__(self):
        return "UNDECIDED"


UNDECIDED = _Undecided()


class Undecided(Exception):
    """Raised inside a reference function when it refuses to decide."""


class Amb:
    def __init__(self, alts):
        flat = []
        for a in alts:
            if isinstance(a, Amb):
                flat.extend(a.alts)
            else:
                flat.append(a)
        self.alts = flat

    def __repr__(self):
        return "Amb(%r)" % (self.alts,)


class Approx:
    def __init__(self, exact, tol):
        self.exact = exact
        self.tol = tol

    def __repr__(self):
        return "Approx(%s +- %s)" % (self.exact, self.tol)


class NumText:
    def __init__(self, value):
        self.value = value

    def __repr__(self):
        return "NumText(%s)" % (self.value,)


class Bag:
    def __init__(self, items):
        self.items = list(items)

    def __repr__(self):
        return "Bag(%r)" % (self.items,)


ABSENT = object()


def kind(v):
    if v is None:
        return "null"
    if isinstance(v, bool):
        return "boolean"
    if isinstance(v, Decimal):
        return "number"
    if isinstance(v, str):
        return "string"
    if isinstance(v, list):
        return "list"
    if isinstance(v, Ctx):
        return "context"
    if isinstance(v, Opaque):
        return v.kind
    return "?"


def isnum(v):
    return isinstance(v, Decimal)


def is_int(d):
    return HI.compare(d, HI.to_integral_value(d)) == 0


def to_json(v):
    if v is None or isinstance(v, bool):
        return v
    if isinstance(v, Decimal):
        return {"n": str(v)}
    if isinstance(v, str):
        return {"s": v}
    if isinstance(v, list):
        return [to_json(x) for x in v]
    if isinstance(v, Ctx):
        return {"c": [[k, to_json(x)] for k, x in v.entries]}
    if isinstance(v, Opaque):
        return v.json
    raise TypeError("no json form for %r" % (v,))


def from_json(j):
    if j is None or isinstance(j, bool):
        return j
    if isinstance(j, list):
        return [from_json(x) for x in j]
    if isinstance(j, dict):
        if "n" in j:
            return Decimal(j["n"])
        if "s" in j:
            return j["s"]
        if "c" in j:
            return Ctx([(k, from_json(x)) for k, x in j["c"]])
        for key, knd in (("d", "date"), ("t", "time"), ("dt", "date and time"), ("dtd", "days and time duration"), ("ymd", "years and months duration"), ("r", "range"), ("fn", "function"), ("bif", "function")):
            if key in j:
                return Opaque(knd, j)
    return Opaque("other", j)


def feel_eq(a, b):
    """FEEL equality (10.3.2.15 as used by the list functions): True / False / None (not comparable)."""
    if a is None and b is None:
        return True
    if a is None or b is None:
        return False
    ka, kb = kind(a), kind(b)
    if ka != kb:
        return None
    if ka == "number":
        return HI.compare(a, b) == 0
    if ka in ("string", "boolean"):
        return a == b
    if ka == "list":
        if len(a) != len(b):
            return False
        return all(feel_eq(x, y) is True for x, y in zip(a, b))
    if ka == "context":
        if len(a.entries) != len(b.entries):
            return False
        for k, x in a.entries:
            if not b.has(k):
                return False
            if feel_eq(x, b.get(k)) is not True:
                return False
        return True
    if isinstance(a, Opaque):
        if a.json == b.json:
            return True
        raise Undecided("equality of two %s values" % ka)
    return None


def same_elem(a, b):
    """Equality as the list functions use it: not comparable counts as different."""
    return feel_eq(a, b) is True


# ------------------------------------------------------------------------------------------------
# comparing a reference result with an observed value
# ------------------------------------------------------------------------------------------------
NUM_LITERAL = re.compile(r"-?(?:[0-9]+(?:\.[0-9]+)?|\.[0-9]+)\Z")


def agrees(expected, observed):
    """True when the observed value (already converted by from_json) is what the reference allows."""
    if isinstance(expected, Amb):
        return any(agrees(a, observed) for a in expected.alts)
    if isinstance(expected, Approx):
        if not isnum(observed) or not observed.is_finite():
            return False
        return HI.subtract(observed, expected.exact).copy_abs() <= expected.tol
    if isinstance(expected, NumText):
        if not isinstance(observed, str) or not NUM_LITERAL.match(observed):
            return False
        return HI.compare(Decimal(observed), expected.value) == 0
    if isinstance(expected, Bag):
        if not isinstance(observed, list) or len(observed) != len(expected.items):
            return False
        rest = list(observed)
        for e in expected.items:
            for k, o in enumerate(rest):
                if agrees(e, o):
                    del rest[k]
                    break
            else:
                return False
        return True
    if expected is None:
        return observed is None
    if isinstance(expected, bool):
        return isinstance(observed, bool) and observed == expected
    if isinstance(expected, Decimal):
        return isnum(observed) and observed.is_finite() and HI.compare(observed, expected) == 0
    if isinstance(expected, str):
        return isinstance(observed, str) and observed == expected
    if isinstance(expected, list):
        return isinstance(observed, list) and len(observed) == len(expected) and all(agrees(e, o) for e, o in zip(expected, observed))
    if isinstance(expected, Ctx):
        if not isinstance(observed, Ctx) or len(observed.entries) != len(expected.entries):
            return False
        return all(observed.has(k) and agrees(v, observed.get(k)) for k, v in expected.entries)
    if isinstance(expected, Opaque):
        if expected.kind == "function":
            return isinstance(observed, Opaque) and observed.kind == "function"
        return isinstance(observed, Opaque) and observed.json == expected.json
    return False


def same_observation(a, b):
    """Two observed values are the same FEEL value (numbers numerically)."""
    if isinstance(a, (Amb, Approx, NumText, Bag)):
        return False
    return agrees(a, b)


def show(v):
    """Compact text of a value or reference result for messages."""
    if isinstance(v, (Amb, Approx, NumText, Bag, _Undecided)):
        if isinstance(v, Amb):
            return "one of {" + " | ".join(show(a) for a in v.alts) + "}"
        if isinstance(v, Bag):
            return "any order of " + show(v.items)
        return repr(v)
    if v is None:
        return "null"
    if isinstance(v, bool):
        return "true" if v else "false"
    if isinstance(v, Decimal):
        return str(v)
    if isinstance(v, str):
        return '"' + v.encode("unicode_escape").decode("ascii").replace('"', '\\"') + '"'
    if isinstance(v, list):
        return "[" + ", ".join(show(x) for x in v) + "]"
    if isinstance(v, Ctx):
        return "{" + ", ".join("%s: %s" % (k, show(x)) for k, x in v.entries) + "}"
    if isinstance(v, Opaque):
        return "<%s %s>" % (v.kind, v.json)
    return repr(v)


# ------------------------------------------------------------------------------------------------
# string functions (table 72)
# ------------------------------------------------------------------------------------------------
def _slice_by_position(seq, start, length):
    """Shared by substring / sublist. start: Decimal; length: Decimal | None | ABSENT.

    Domain (footnotes of tables 72 and 74): start is a non-zero integer in [-L..L]; length is in
    [1..E] with E = L - start + 1 for positive start and -start otherwise.
    """
    L = len(seq)
    if not is_int(start) or start == 0 or start.copy_abs() > L:
        return None
    st = int(start)
    idx = st - 1 if st > 0 else L + st
    if length is ABSENT:
        return seq[idx:]
    E = L - st + 1 if st > 0 else -st
    if not is_int(length):
        # the footnote gives a range for length but does not say "integer": either null, or the
        # length is first truncated to an integer and then has to be in range
        whole = int(length)
        if 1 <= whole <= E:
            return Amb([None, seq[idx : idx + whole]])
        return None
    if length < 1 or length > E:
        return None
    return seq[idx : idx + int(length)]


def f_substring(args):
    s, start = args[0], args[1]
    length = args[2] if len(args) > 2 else ABSENT
    if not isinstance(s, str) or not isnum(start):
        return None
    if length is None:
        # an explicit null for the optional parameter: "absent" or "not a number"
        return Amb([None, f_substring([s, start])])
    if length is not ABSENT and not isnum(length):
        return None
    return _slice_by_position(s, start, length)


def f_string_length(args):
    return Decimal(len(args[0])) if isinstance(args[0], str) else None


def _two_strings(args):
    return isinstance(args[0], str) and isinstance(args[1], str)


def f_contains(args):
    return (args[1] in args[0]) if _two_strings(args) else None


def f_starts_with(args):
    return args[0].startswith(args[1]) if _two_strings(args) else None


def f_ends_with(args):
    return args[0].endswith(args[1]) if _two_strings(args) else None


def f_substring_before(args):
    if not _two_strings(args):
        return None
    k = args[0].find(args[1])
    return "" if k < 0 else args[0][:k]


def f_substring_after(args):
    if not _two_strings(args):
        return None
    k = args[0].find(args[1])
    return "" if k < 0 else args[0][k + len(args[1]) :]


# ---- regular expressions: decided only on a subset on which XPath/XSD, Rust `regex` and Python `re` agree
_LIT_SAFE = set("abcdefghijklmnopqrstuvwxyzABCDEFGHIJKLMNOPQRSTUVWXYZ0123456789 ;,:_=!@%<>/'\"-") | set("é中😀")
_CLASS_SAFE = set("abcdefghijklmnopqrstuvwxyzABCDEFGHIJKLMNOPQRSTUVWXYZ0123456789 ;,_=!@%<>/") | set("é中😀")
_ESC_ATOM = {"w": r"\w", "W": r"\W", "d": r"\d", "s": r"\s", "D": r"\D", "S": r"\S", ".": r"\.", "*": r"\*", "+": r"\+", "?": r"\?", "(": r"\(", ")": r"\)", "|": r"\|", "\\": "\\\\"}


class _Rx:
    """Recursive-descent validator of the decided regex subset; rebuilds the pattern for Python."""

    def __init__(self, text):
        self.t = text
        self.i = 0
        self.groups = 0
        self.has_dot = False
        self.has_anchor = False
        self.group_nullable_inner = False  # a capturing group whose body can match empty
        self.has_space_class = False
        self.has_word_class = False

    def reject(self, why):
        raise Undecided("regex outside the decided subset: " + why)

    def peek(self):
        return self.t[self.i] if self.i < len(self.t) else ""

    def parse(self):
        if self.t == "":
            self.reject("empty pattern")
        out, nullable = self.alt(top=True)
        if self.i != len(self.t):
            self.reject("unbalanced ')'")
        return out, nullable

    def alt(self, top=False):
        parts = []
        nullable = False
        while True:
            txt, nl, n_items = self.seq(top)
            if n_items == 0:
                self.reject("empty alternative")
            parts.append(txt)
            nullable = nullable or nl
            if self.peek() == "|":
                self.i += 1
                continue
            break
        return "|".join(parts), nullable

    def seq(self, top):
        out = []
        nullable = True
        n = 0
        while self.i < len(self.t) and self.peek() not in "|)":
            txt, nl = self.quantified(top)
            out.append(txt)
            nullable = nullable and nl
            n += 1
        return "".join(out), nullable, n

    def quantified(self, top):
        start = self.i
        txt, nl, is_anchor = self.atom(top, start)
        c = self.peek()
        if c and c in "*+?{":
            if is_anchor:
                self.reject("quantified anchor")
            if c == "{":
                m = re.compile(r"\{([0-9]{1,2}),?([0-9]{1,2})?\}").match(self.t, self.i)
                if not m:
                    self.reject("malformed bounded repeat")
                raw = m.group(0)
                lo = int(m.group(1))
                if "," in raw:
                    if m.group(2) is not None and int(m.group(2)) < lo:
                        self.reject("repeat bounds out of order")
                elif m.group(2) is not None:
                    self.reject("malformed bounded repeat")
                self.i = m.end()
                txt += raw
                nl = nl or lo == 0
            else:
                self.i += 1
                txt += c
                nl = nl or c in "*?"
            if self.peek() and self.peek() in "*+?{":
                self.reject("stacked / lazy / possessive quantifier")
        return txt, nl

    def atom(self, top, pos):
        c = self.peek()
        if c == "(":
            self.i += 1
            if self.peek() == "?":
                self.reject("(? group")
            self.groups += 1
            inner, nl = self.alt()
            if self.peek() != ")":
                self.reject("unbalanced '('")
            self.i += 1
            if nl:
                self.group_nullable_inner = True
            return "(" + inner + ")", nl, False
        if c == "[":
            return self.klass(), False, False
        if c == ".":
            self.i += 1
            self.has_dot = True
            return ".", False, False
        if c == "\\":
            e = self.t[self.i + 1] if self.i + 1 < len(self.t) else ""
            if e not in _ESC_ATOM:
                self.reject("escape \\%s" % e)
            self.i += 2
            if e in "sS":
                self.has_space_class = True
            if e in "wW":
                self.has_word_class = True
            return _ESC_ATOM[e], False, False
        if c == "^":
            if not (top and pos == 0):
                self.reject("'^' not at the start")
            self.i += 1
            self.has_anchor = True
            return "^", True, True
        if c == "$":
            if not (top and self.i == len(self.t) - 1):
                self.reject("'$' not at the end")
            self.i += 1
            self.has_anchor = True
            return r"\Z", True, True
        if c in _LIT_SAFE:
            self.i += 1
            return re.escape(c), False, False
        self.reject("character %r" % c)

    def klass(self):
        self.i += 1  # [
        out = "["
        if self.peek() == "^":
            out += "^"
            self.i += 1
        n = 0
        while True:
            c = self.peek()
            if c == "":
                self.reject("unterminated class")
            if c == "]":
                break
            if c == "\\":
                e = self.t[self.i + 1] if self.i + 1 < len(self.t) else ""
                if e not in "ds":
                    self.reject("class escape \\%s" % e)
                out += "\\" + e
                if e == "s":
                    self.has_space_class = True
                self.i += 2
                n += 1
                continue
            if c not in _CLASS_SAFE:
                self.reject("class character %r" % c)
            self.i += 1
            if self.peek() == "-":
                hi = self.t[self.i + 1] if self.i + 1 < len(self.t) else ""
                if hi not in _CLASS_SAFE or hi == " " or c == " " or not (c < hi) or not (c.isalnum() and hi.isalnum() and ord(hi) < 128 and ord(c) < 128):
                    self.reject("class range")
                out += c + "-" + hi
                self.i += 2
            else:
                out += re.escape(c)
            n += 1
        if n == 0:
            self.reject("empty class")
        self.i += 1  # ]
        return out + "]"


def _uncased(s):
    return all(ord(ch) < 128 or ch.lower() == ch.upper() for ch in s)


def rx_compile(pattern, flags, subject):
    """Returns (compiled Python regex, validator) or raises Undecided."""
    fl = 0
    if flags is not ABSENT and flags is not None:
        if len(set(flags)) != len(flags):
            raise Undecided("repeated flag")
        for ch in flags:
            if ch not in "ismx":
                raise Undecided("flag %r" % ch)
    flagset = set(flags) if isinstance(flags, str) else set()
    text = pattern
    if "x" in flagset:
        if "#" in text or re.search(r"\[[^\]]*\s", text):
            raise Undecided("x flag with '#' or whitespace in a class")
        text = re.sub(r"\s+", "", text)
    elif any(ch.isspace() and ch != " " for ch in text):
        raise Undecided("control whitespace in pattern")
    if "\r" in subject or any(0xD800 <= ord(ch) <= 0xDFFF for ch in subject):
        raise Undecided("subject with CR / surrogate")
    rx = _Rx(text)
    pytext, nullable = rx.parse()
    if rx.has_space_class and any(ch.isspace() and ch not in " \t\n" for ch in subject):
        raise Undecided("\\s over whitespace on which the engines' definitions differ")
    if rx.has_word_class and not all((ch.isascii() and (ch.isalnum() or ch in " ;,.:=!@%<>/'\"-\t\n")) or ch in "é中" for ch in subject):
        # XPath \\w is [^\\p{P}\\p{Z}\\p{C}] (symbols and emoji are word characters, '_' is not); Rust and Python say the opposite
        raise Undecided("\\w over characters on which the engines' definitions differ")
    if "\n" in subject and (rx.has_anchor or "m" in flagset):
        raise Undecided("anchors with a newline in the subject")
    if "i" in flagset:
        fl |= re.I
        if not _uncased(subject) or not _uncased(text):
            raise Undecided("case-insensitive match over cased non-ASCII text")
    if "s" in flagset:
        fl |= re.S
    # 'm' only changes ^ and $ at line boundaries; without newlines in the subject it changes nothing
    rx.nullable = nullable
    return re.compile(pytext, fl), rx


def _flags_arg(args, pos):
    return args[pos] if len(args) > pos else ABSENT


def f_matches(args):
    s, p = args[0], args[1]
    flags = _flags_arg(args, 2)
    if not isinstance(s, str) or not isinstance(p, str):
        return None
    if flags is None:
        return Amb([None, f_matches([s, p])])
    if flags is not ABSENT and not isinstance(flags, str):
        return None
    cre, _ = rx_compile(p, flags, s)
    return cre.search(s) is not None


def _replacement_fn(repl, ngroups):
    """XPath fn:replace replacement string: $N is group N; anything exotic is not decided."""
    parts = []
    i = 0
    while i < len(repl):
        c = repl[i]
        if c == "\\":
            raise Undecided("backslash in replacement")
        if c == "$":
            d = repl[i + 1] if i + 1 < len(repl) else ""
            if d == "" or d not in "123456789":
                raise Undecided("'$' not followed by 1-9 in replacement")
            nxt = repl[i + 2] if i + 2 < len(repl) else ""
            if nxt.isdigit():
                raise Undecided("multi-digit group reference")
            parts.append(int(d))
            i += 2
            continue
        parts.append(c)
        i += 1

    def fn(m):
        out = []
        for p in parts:
            if isinstance(p, int):
                out.append((m.group(p) or "") if p <= ngroups else "")
            else:
                out.append(p)
        return "".join(out)

    return fn, any(isinstance(p, int) for p in parts)


def f_replace(args):
    s, p, r = args[0], args[1], args[2]
    flags = _flags_arg(args, 3)
    if not isinstance(s, str) or not isinstance(p, str) or not isinstance(r, str):
        return None
    if flags is None:
        return Amb([None, f_replace([s, p, r])])
    if flags is not ABSENT and not isinstance(flags, str):
        return None
    cre, rx = rx_compile(p, flags, s)
    if rx.nullable or cre.search("") is not None:
        raise Undecided("pattern matches the empty string (an error in XPath fn:replace)")
    fn, uses_groups = _replacement_fn(r, rx.groups)
    if uses_groups and rx.group_nullable_inner:
        raise Undecided("group reference to a group that can match empty")
    return cre.sub(fn, s)


def f_split(args):
    s, p = args[0], args[1]
    if not isinstance(s, str) or not isinstance(p, str):
        return None
    cre, rx = rx_compile(p, ABSENT, s)
    if rx.nullable or cre.search("") is not None:
        raise Undecided("delimiter matches the empty string")
    if s == "":
        raise Undecided("split of the empty string (XPath tokenize gives an empty sequence)")
    out = []
    last = 0
    for m in cre.finditer(s):
        out.append(s[last : m.start()])
        last = m.end()
    out.append(s[last:])
    return out


# ------------------------------------------------------------------------------------------------
# list functions (table 74) and numeric aggregates
# ------------------------------------------------------------------------------------------------
def _items(args):
    """f(list) or f(c1, .., cN), N > 0."""
    if len(args) == 1 and isinstance(args[0], list):
        return args[0]
    return list(args)


def _ordering_ambiguous(strings):
    # code-point order and UTF-16 order differ only between U+E000..U+FFFF and the astral planes
    if any(0xE000 <= ord(ch) <= 0xFFFF for s in strings for ch in s):
        raise Undecided("string order differs between code-point and UTF-16 collation")


def f_count(args):
    return Decimal(len(args[0])) if isinstance(args[0], list) else None


def _extreme(args, pick):
    items = _items(args)
    if items and all(isinstance(x, Opaque) for x in items) and len(set(x.kind for x in items)) == 1:
        raise Undecided("items of one type the reference does not model (dates and durations are comparable)")
    if not items:
        return None
    if all(isnum(x) for x in items):
        best = items[0]
        for x in items[1:]:
            c = HI.compare(x, best)
            if (pick == "min" and c < 0) or (pick == "max" and c > 0):
                best = x
        return best
    if all(isinstance(x, str) for x in items):
        _ordering_ambiguous(items)
        return min(items) if pick == "min" else max(items)
    return None


def f_min(args):
    return _extreme(args, "min")


def f_max(args):
    return _extreme(args, "max")


def _numbers(args):
    items = _items(args)
    if not all(isnum(x) for x in items):
        return None
    return items


def _ulp(x):
    if x == 0:
        return Decimal(0)
    return Decimal(1).scaleb(x.adjusted() - 33)


def _exact_sum(nums):
    total = Decimal(0)
    for x in nums:
        total = HI.add(total, x)
    return total


def f_sum(args):
    nums = _numbers(args)
    if nums is None or not nums:
        return None
    t = _exact_sum(nums)
    return Approx(t, 2 * _ulp(t))


def f_mean(args):
    nums = _numbers(args)
    if nums is None or not nums:
        return None
    m = HI.divide(_exact_sum(nums), Decimal(len(nums)))
    return Approx(m, 2 * _ulp(m))


def f_median(args):
    nums = _numbers(args)
    if nums is None or not nums:
        return None
    srt = sorted(nums, key=lambda d: d)
    n = len(srt)
    if n % 2 == 1:
        return srt[n // 2]
    m = HI.divide(HI.add(srt[n // 2 - 1], srt[n // 2]), Decimal(2))
    return Approx(m, 2 * _ulp(m))


def f_mode(args):
    nums = _numbers(args)
    if nums is None:
        return None
    if not nums:
        return []
    groups = []  # [value, count]
    for x in sorted(nums):
        if groups and HI.compare(groups[-1][0], x) == 0:
            groups[-1][1] += 1
        else:
            groups.append([x, 1])
    top = max(c for _, c in groups)
    return [v for v, c in groups if c == top]


def f_stddev(args):
    nums = _numbers(args)
    if nums is None or not nums:
        return None
    if len(nums) < 2:
        return None  # table 76 examples: stddev([47]) = null, stddev(47) = null
    n = Decimal(len(nums))
    mean = HI.divide(_exact_sum(nums), n)
    ss = Decimal(0)
    for x in nums:
        d = HI.subtract(x, mean)
        ss = HI.add(ss, HI.multiply(d, d))
    sd = HI.sqrt(HI.divide(ss, HI.subtract(n, Decimal(1))))
    biggest = max(x.copy_abs() for x in nums)
    # two-pass decimal128 evaluation: the rounded mean perturbs every deviation by <= 1 ulp(mean)
    tol = HI.add(HI.multiply(Decimal("1E-31"), biggest), 10 * _ulp(sd))
    return Approx(sd, tol)


def f_all(args):
    items = _items(args)
    if any(x is False for x in items):
        if any(x is not None and not isinstance(x, bool) for x in items):
            return Amb([False, None])  # "list of Boolean items" vs "false if any item is false"
        return False
    if all(x is True for x in items):
        return True
    return None


def f_sublist(args):
    lst, start = args[0], args[1]
    length = args[2] if len(args) > 2 else ABSENT
    if not isinstance(lst, list) or not isnum(start):
        return None
    if length is None:
        return Amb([None, f_sublist([lst, start])])
    if length is not ABSENT and not isnum(length):
        return None
    return _slice_by_position(lst, start, length)


def f_append(args):
    if not isinstance(args[0], list):
        return None
    return list(args[0]) + list(args[1:])


def f_concatenate(args):
    if not all(isinstance(a, list) for a in args):
        return None
    out = []
    for a in args:
        out.extend(a)
    return out


def _position_index(lst, position):
    """position is a non-zero integer in [-L..L] (footnote 1 of table 74) -> 0-based index or None."""
    L = len(lst)
    if not is_int(position) or position == 0 or position.copy_abs() > L:
        return None
    p = int(position)
    return p - 1 if p > 0 else L + p


def f_insert_before(args):
    lst, position, item = args
    if not isinstance(lst, list) or not isnum(position):
        return None
    k = _position_index(lst, position)
    if k is None:
        return None
    return lst[:k] + [item] + lst[k:]


def f_remove(args):
    lst, position = args
    if not isinstance(lst, list) or not isnum(position):
        return None
    k = _position_index(lst, position)
    if k is None:
        return None
    return lst[:k] + lst[k + 1 :]


def f_reverse(args):
    return list(reversed(args[0])) if isinstance(args[0], list) else None


def f_index_of(args):
    lst, match = args
    if not isinstance(lst, list):
        return None
    return [Decimal(k + 1) for k, x in enumerate(lst) if same_elem(x, match)]


def _distinct(items):
    out = []
    for x in items:
        if not any(same_elem(x, y) for y in out):
            out.append(x)
    return out


def f_union(args):
    if not all(isinstance(a, list) for a in args):
        return None
    return _distinct([x for a in args for x in a])


def f_distinct_values(args):
    return _distinct(args[0]) if isinstance(args[0], list) else None


def _flatten(lst, out):
    for x in lst:
        if isinstance(x, list):
            _flatten(x, out)
        else:
            out.append(x)
    return out


def f_flatten(args):
    return _flatten(args[0], []) if isinstance(args[0], list) else None


def f_sort(args):
    lst, precedes = args
    if not isinstance(lst, list):
        return None
    if kind(precedes) != "function":
        return None
    if precedes.tag not in ("lt", "gt"):
        raise Undecided("sort with a precedes function the reference does not model")
    if not lst:
        return []
    if all(isnum(x) for x in lst):
        return sorted(lst, reverse=(precedes.tag == "gt"))
    if all(isinstance(x, str) for x in lst):
        _ordering_ambiguous(lst)
        return sorted(lst, reverse=(precedes.tag == "gt"))
    raise Undecided("sort of items the precedes function does not order")


def f_list_contains(args):
    lst, element = args
    if not isinstance(lst, list):
        return None
    return any(same_elem(x, element) for x in lst)


# ------------------------------------------------------------------------------------------------
# context, boolean, conversion functions
# ------------------------------------------------------------------------------------------------
def f_get_value(args):
    m, key = args
    if not isinstance(m, Ctx) or not isinstance(key, str):
        return None
    return m.get(key, None)


def f_get_entries(args):
    m = args[0]
    if not isinstance(m, Ctx):
        return None
    # the binding of a context through the driver does not preserve entry order -> any order
    return Bag([Ctx([("key", k), ("value", v)]) for k, v in m.entries])


def f_not(args):
    return (not args[0]) if isinstance(args[0], bool) else None


def f_number(args):
    frm, grouping, decimal = args
    if not isinstance(frm, str):
        return None
    if grouping is not None and not (isinstance(grouping, str) and grouping in (" ", ",", ".")):
        return None
    if decimal is not None and not (isinstance(decimal, str) and decimal in (".", ",")):
        return None
    if grouping is not None and grouping == decimal:
        return None
    t = frm
    if grouping is not None:
        t = t.replace(grouping, "")
    stray_period = decimal == "," and "." in t
    if decimal is not None:
        t = t.replace(decimal, ".")
    if not NUM_LITERAL.match(t):
        return None  # does not conform to grammar rule 37 (numeric literal)
    value = Decimal(t)
    if len(value.as_tuple().digits) > 34:
        raise Undecided("more than 34 digits")
    if stray_period:
        return Amb([value, None])
    return value


def f_string(args):
    v = args[0]
    if v is None:
        return None
    if isinstance(v, str):
        return v
    if isinstance(v, bool):
        return "true" if v else "false"
    if isnum(v):
        return NumText(v)
    raise Undecided("string() of a %s: the rendering is not fixed by the specification text" % kind(v))


# ------------------------------------------------------------------------------------------------
# signatures: parameter names as in DMN 1.3 tables 72-76 ; type is the declared parameter type
# ------------------------------------------------------------------------------------------------
class Spec:
    def __init__(self, name, params, fn, optional=0, variadic=None, named=True):
        self.name = name
        self.params = params  # [(parameter name, type)]
        self.fn = fn
        self.optional = optional  # number of trailing optional parameters
        self.variadic = variadic  # None | "items" (f(list) | f(c1..cN)) | "append" | "lists"
        self.named = named  # has a named form

    def arities(self):
        """(min, max) with max None for unbounded."""
        if self.variadic == "items" or self.variadic == "lists":
            return 1, None
        if self.variadic == "append":
            return 2, None
        return len(self.params) - self.optional, len(self.params)


S, N, B, L, C, F, A = "string", "number", "boolean", "list", "context", "function", "any"

SPECS = [
    Spec("substring", [("string", S), ("start position", N), ("length", N)], f_substring, optional=1),
    Spec("string length", [("string", S)], f_string_length),
    Spec("contains", [("string", S), ("match", S)], f_contains),
    Spec("starts with", [("string", S), ("match", S)], f_starts_with),
    Spec("ends with", [("string", S), ("match", S)], f_ends_with),
    Spec("substring before", [("string", S), ("match", S)], f_substring_before),
    Spec("substring after", [("string", S), ("match", S)], f_substring_after),
    Spec("matches", [("input", S), ("pattern", S), ("flags", S)], f_matches, optional=1),
    Spec("replace", [("input", S), ("pattern", S), ("replacement", S), ("flags", S)], f_replace, optional=1),
    Spec("split", [("string", S), ("delimiter", S)], f_split),
    Spec("count", [("list", L)], f_count),
    Spec("min", [("list", L)], f_min, variadic="items"),
    Spec("max", [("list", L)], f_max, variadic="items"),
    Spec("sum", [("list", L)], f_sum, variadic="items"),
    Spec("mean", [("list", L)], f_mean, variadic="items"),
    Spec("median", [("list", L)], f_median, variadic="items"),
    Spec("mode", [("list", L)], f_mode, variadic="items"),
    Spec("stddev", [("list", L)], f_stddev, variadic="items"),
    Spec("all", [("list", L)], f_all, variadic="items"),
    Spec("sublist", [("list", L), ("start position", N), ("length", N)], f_sublist, optional=1),
    Spec("append", [("list", L), ("item", A)], f_append, variadic="append", named=False),
    Spec("concatenate", [("list", L)], f_concatenate, variadic="lists", named=False),
    Spec("insert before", [("list", L), ("position", N), ("newItem", A)], f_insert_before),
    Spec("remove", [("list", L), ("position", N)], f_remove),
    Spec("reverse", [("list", L)], f_reverse),
    Spec("index of", [("list", L), ("match", A)], f_index_of),
    Spec("union", [("list", L)], f_union, variadic="lists", named=False),
    Spec("distinct values", [("list", L)], f_distinct_values),
    Spec("flatten", [("list", L)], f_flatten),
    Spec("sort", [("list", L), ("precedes", F)], f_sort),
    Spec("list contains", [("list", L), ("element", A)], f_list_contains),
    Spec("get value", [("m", C), ("key", S)], f_get_value),
    Spec("get entries", [("m", C)], f_get_entries),
    Spec("not", [("negand", B)], f_not),
    Spec("number", [("from", S), ("grouping separator", S), ("decimal separator", S)], f_number),
    Spec("string", [("from", A)], f_string),
]
BY_NAME = {s.name: s for s in SPECS}
assert len(SPECS) == 36  # the 35 functions of the property; substring before/after counted as two


def _param_type(spec, k, nargs):
    if spec.variadic == "lists":
        return L
    if spec.variadic == "append":
        return L if k == 0 else A
    if spec.variadic == "items":
        return A  # f(list) | f(c1..cN): a single non-list argument is the c1 form
    return spec.params[k][1]


def _candidates(ptype, value):
    """The value as passed, plus the value after the implicit conversions of 10.3.2.9.4 that an
    invocation MAY apply (to / from singleton list) when the type does not conform."""
    if ptype == A or value is None:
        return [value]
    k = kind(value)
    if ptype == L:
        if k == "list":
            return [value]
        return [value, [value]]  # to singleton list
    if k == "list" and len(value) == 1:
        return [value] + _candidates(ptype, value[0])[0:1] if kind(value[0]) != "list" else [value]
    return [value]


def reference(fname, args):
    """Reference result of the positional invocation fname(args...)."""
    spec = BY_NAME[fname]
    lo, hi = spec.arities()
    n = len(args)
    if n < lo or (hi is not None and n > hi):
        return None  # wrong arity
    cand = [_candidates(_param_type(spec, k, n), a) for k, a in enumerate(args)]
    results = []
    try:
        for combo in itertools.product(*cand):
            results.append(spec.fn(list(combo)))
    except Undecided:
        return UNDECIDED
    except RecursionError:
        return UNDECIDED
    if len(results) == 1:
        return results[0]
    amb = Amb(results)
    if all(a is None for a in amb.alts):
        return None
    return amb


# ------------------------------------------------------------------------------------------------
# the examples printed in DMN 1.3 tables 72-76: the reference must reproduce every one of them
# ------------------------------------------------------------------------------------------------
def _d(x):
    return Decimal(str(x))


def _l(*xs):
    return [(_d(x) if isinstance(x, (int, float)) and not isinstance(x, bool) else x) for x in xs]


SPEC_EXAMPLES = [
    ("substring", ["foobar", _d(3)], "obar"),
    ("substring", ["foobar", _d(3), _d(3)], "oba"),
    ("substring", ["foobar", _d(-2), _d(1)], "a"),
    ("substring", ["\U0001F40Eab", _d(2)], "ab"),
    ("string length", ["foo"], _d(3)),
    ("string length", ["\U0001F40Eab"], _d(3)),
    ("substring before", ["foobar", "bar"], "foo"),
    ("substring before", ["foobar", "xyz"], ""),
    ("substring after", ["foobar", "ob"], "ar"),
    ("substring after", ["", "a"], ""),
    ("replace", ["abcd", "(ab)|(a)", "[1=$1][2=$2]"], "[1=ab][2=]cd"),
    ("contains", ["foobar", "of"], False),
    ("starts with", ["foobar", "fo"], True),
    ("ends with", ["foobar", "r"], True),
    ("matches", ["foobar", "^fo*b"], True),
    ("split", ["John Doe", "\\s"], ["John", "Doe"]),
    ("split", ["a;b;c;;", ";"], ["a", "b", "c", "", ""]),
    ("list contains", [_l(1, 2, 3), _d(2)], True),
    ("count", [_l(1, 2, 3)], _d(3)),
    ("min", [_l(1, 2, 3)], _d(1)),
    ("min", _l(1, 2, 3), _d(1)),
    ("max", [_l(1, 2, 3)], _d(3)),
    ("max", _l(1, 2, 3), _d(3)),
    ("min", [_l(1)], _d(1)),
    ("min", [[]], None),
    ("sum", [_l(1, 2, 3)], _d(6)),
    ("sum", _l(1, 2, 3), _d(6)),
    ("sum", [[]], None),
    ("mean", [_l(1, 2, 3)], _d(2)),
    ("mean", [[]], None),
    ("all", [[False, None, True]], False),
    ("all", [True], True),
    ("all", [[True]], True),
    ("all", [[]], True),
    ("all", [_d(0)], None),
    ("sublist", [_l(4, 5, 6), _d(1), _d(2)], _l(4, 5)),
    ("append", [_l(1), _d(2), _d(3)], _l(1, 2, 3)),
    ("concatenate", [_l(1, 2), _l(3)], _l(1, 2, 3)),
    ("insert before", [_l(1, 3), _d(1), _d(2)], _l(2, 1, 3)),
    ("remove", [_l(1, 2, 3), _d(2)], _l(1, 3)),
    ("reverse", [_l(1, 2, 3)], _l(3, 2, 1)),
    ("index of", [_l(1, 2, 3, 2), _d(2)], _l(2, 4)),
    ("union", [_l(1, 2), _l(2, 3)], _l(1, 2, 3)),
    ("distinct values", [_l(1, 2, 3, 2, 1)], _l(1, 2, 3)),
    ("flatten", [[_l(1, 2), [_l(3)], _d(4)]], _l(1, 2, 3, 4)),
    ("median", _l(8, 2, 5, 3, 4), _d(4)),
    ("median", [_l(6, 1, 2, 3)], _d("2.5")),
    ("median", [[]], None),
    ("stddev", _l(2, 4, 7, 5), Approx(Decimal("2.081665999466132735282297706979931"), Decimal("1E-30"))),
    ("stddev", [_l(47)], None),
    ("stddev", _l(47), None),
    ("stddev", [[]], None),
    ("mode", _l(6, 3, 9, 6, 6), _l(6)),
    ("mode", [_l(6, 1, 9, 6, 1)], _l(1, 6)),
    ("mode", [[]], []),
    ("sort", [_l(3, 1, 4, 5, 2), Opaque("function", {"feel": "function(x,y) x < y"}, tag="lt")], _l(1, 2, 3, 4, 5)),
    ("get value", [Ctx([("key1", "value1")]), "key1"], "value1"),
    ("get value", [Ctx([("key1", "value1")]), "unexistent-key"], None),
    ("get entries", [Ctx([("key1", "value1"), ("key2", "value2")])], [Ctx([("key", "key1"), ("value", "value1")]), Ctx([("key", "key2"), ("value", "value2")])]),
    ("number", ["1 000,0", " ", ","], _d("1000.0")),
    ("number", ["1,000.0", ",", "."], _d("1000.0")),
    ("string", [_d("1.1")], "1.1"),
    ("string", [None], None),
    ("not", [True], False),
    ("not", [None], None),
]


def selftest():
    """Returns the list of specification examples the reference does not reproduce (must be empty)."""
    bad = []
    for fname, args, want in SPEC_EXAMPLES:
        got = reference(fname, args)
        if got is UNDECIDED:
            bad.append("%s%s: undecided" % (fname, show(args)))
            continue
        if isinstance(want, Approx):
            ok = isinstance(got, Approx) and (got.exact - want.exact).copy_abs() <= want.tol
        else:
            ok = agrees(got, want)
        if not ok:
            bad.append("%s%s: reference %s, specification %s" % (fname, show(args), show(got), show(want)))
    return bad
