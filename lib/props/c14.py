"""C14 — temporal literals denote exactly what is written and print back losslessly.

Oracle: lib/rtemporal.py (reference grammar + validator + normal forms, stdlib only; zone validity is
defined by the implementation's own zone table, listed by the driver op `zones`).
Observation: (a) the real `TryFrom<&str>` / `FromStr` / `Display` of FeelDate / FeelTime / FeelDateTime /
both durations and the xsd:* input conversions (driver op `temporal`), (b) the same literals through the
FEEL parser + evaluator: `date(s)`, `time(s)`, `date and time(s)`, `duration(s)`, `@"..."`, `string(v)`,
property access and `=`, (c) values constructed from numbers / arithmetic and printed with `string()`.
"""
import json
from decimal import Decimal

import rtemporal as R
import runner
from common import chunks, crash_signature, rng_for

LEVEL = "exploration"

CHRONO_YEAR_MAX = 262143  # chrono 0.4: NaiveDate::MAX = 262142-12-31, MIN = -262143-01-01
FN = {"d": "date", "t": "time", "dt": "date and time", "dtd": "duration", "ymd": "duration", "dur": "duration"}
JKEY = {"d": "d", "t": "t", "dt": "dt", "dtd": "dtd", "ymd": "ymd"}
CORRUPT_ALPHABET = list("0123456789") + list("-+:.TZz@PDHMSY/_ aE,") + ["٣", "−"]
AT_SAFE = set("0123456789-+:.TZz@PDHMSY/_abcdefghijklmnopqrstuvwxyzABCDEFGHIJKLMNOPQRSTUVWXYZ ,")


# ------------------------------------------------------------------------------------------------
# generators
# ------------------------------------------------------------------------------------------------

YEAR_EDGES = [1, 4, 9, 10, 99, 100, 400, 999, 1000, 1001, 1582, 1600, 1900, 1970, 1999, 2000, 2020, 2021, 2023, 2024, 2100, 2400, 9999, 10000, 99999, 100000, 262143, 262144, 262145, 999999, 1000000, 99999999, 100000000, 999999998, 999999999]


def rand_year(rng):
    c = rng.random()
    if c < 0.25:
        y = rng.randint(1900, 2100)
    elif c < 0.45:
        y = rng.randint(1, 999)
    elif c < 0.6:
        y = rng.randint(1000, 9999)
    else:
        y = rng.randint(1, 10 ** rng.randint(5, 9) - 1)
    if y > R.YEAR_MAX:
        y = R.YEAR_MAX
    return -y if rng.random() < 0.3 else y


def rand_valid_date(rng):
    y = rand_year(rng)
    m = rng.randint(1, 12)
    dim = R.days_in_month(y, m)
    d = rng.choice([1, dim, rng.randint(1, dim)])
    return y, m, d


def rand_nanos(rng):
    """(nanos, digits): digits = number of fraction digits written (0..9, sometimes padded beyond 9 with zeros)."""
    digits = rng.randint(0, 9)
    if digits == 0:
        return 0, 0
    c = rng.random()
    if c < 0.15:
        body = "9" * digits
    elif c < 0.25:
        body = "0" * (digits - 1) + "1"
    elif c < 0.35:
        body = "123456789"[:digits]
    else:
        body = "".join(rng.choice("0123456789") for _ in range(digits))
    nanos = int((body + "000000000")[:9])
    if rng.random() < 0.05:
        digits = rng.randint(10, 20)
    return nanos, digits


def rand_zone(rng, zones_list):
    c = rng.random()
    if c < 0.2:
        return None
    if c < 0.3:
        return ("off", 0)
    if c < 0.75:
        secs = rng.randint(0, 14 * 3600 + 59 * 60 + 59)
        if rng.random() < 0.7:
            secs -= secs % 60
        return ("off", -secs if rng.random() < 0.5 else secs)
    return ("zone", rng.choice(zones_list))


def zone_text(zone, rng):
    if zone is not None and zone[0] == "off" and zone[1] == 0:
        return rng.choice(["Z", "+00:00", "-00:00"])
    return R.fmt_zone(zone)


def rand_time_text(rng, zones_list):
    h, m, s = rng.randint(0, 23), rng.randint(0, 59), rng.randint(0, 59)
    if rng.random() < 0.2:
        h, m, s = rng.choice([(0, 0, 0), (23, 59, 59), (12, 0, 0), (10, 0, 59)])
    nanos, digits = rand_nanos(rng)
    zone = rand_zone(rng, zones_list)
    if zone is not None and zone[0] == "zone":
        # a time with a named zone is validated against today's date by the implementation: stay
        # away from the small hours where DST gaps live
        h = rng.randint(6, 20)
    return "%02d:%02d:%02d%s%s" % (h, m, s, R.fmt_fraction(nanos, digits), zone_text(zone, rng))


def gen_dates(rng, n_random):
    out = []
    for ay in YEAR_EDGES:
        for y in (ay, -ay):
            for m in range(0, 14):
                dim = R.days_in_month(y, m) or 31
                for d in (0, 1, dim, dim + 1):
                    out.append(("d", "%s-%02d-%02d" % (R.fmt_year(y), m, d)))
    for y in (1900, 2000, 2020, 2021, 2100, 2400):
        for d in (28, 29, 30, 31, 32):
            out.append(("d", R.fmt_date(y, 2, d)))
    # malformed shapes
    for s in ("2021-1-01", "2021-01-1", "21-01-01", "021-01-01", "+2021-01-01", "2021/01/01", "20210101", "2021-01-01 ", " 2021-01-01", "2021-01-01Z", "2021-01-01T", "", "-", "--01-01", "1000000000-01-01", "0000-01-01", "-0000-01-01", "02021-01-01", "2021-001-01", "2021-01-001", "2021-01-01\n"):
        out.append(("d", s))
    for _ in range(n_random):
        y, m, d = rand_valid_date(rng)
        if rng.random() < 0.1:
            d = rng.choice([0, R.days_in_month(y, m) + 1, 31, 32, 99])
        if rng.random() < 0.03:
            m = rng.choice([0, 13, 99])
        out.append(("d", "%s-%02d-%02d" % (R.fmt_year(y), m, d)))
    return out


def gen_offsets():
    """Every whole-minute offset -14:59..+14:59 (1799 values + both spellings of zero) for time and date-time."""
    out = []
    for secs in range(-(14 * 60 + 59) * 60, (14 * 60 + 59) * 60 + 1, 60):
        z = R.fmt_offset(secs)
        out.append(("t", "10:00:00" + z))
        out.append(("dt", "2021-07-15T10:00:00" + z))
    out.append(("t", "10:00:00-00:00"))
    out.append(("dt", "2021-07-15T10:00:00-00:00"))
    out.append(("t", "10:00:00Z"))
    out.append(("dt", "2021-07-15T10:00:00Z"))
    return out


def gen_offset_seconds(tier):
    out = []
    hours = (0, 1, 5, 13, 14) if tier == "quick" else range(0, 15)
    minutes = (0, 30, 59) if tier == "quick" else range(0, 60)
    for hh in hours:
        for mm in minutes:
            for ss in range(0, 60):
                for sign in "+-":
                    z = "%s%02d:%02d:%02d" % (sign, hh, mm, ss)
                    out.append(("t", "23:59:59.999999999" + z))
                    if tier != "quick" or ss % 7 == 1:
                        out.append(("dt", "1999-12-31T23:59:59" + z))
    # invalid offsets
    for hh in (15, 16, 23, 24, 99):
        for sign in "+-":
            out.append(("t", "10:00:00%s%02d:00" % (sign, hh)))
            out.append(("dt", "2021-07-15T10:00:00%s%02d:00" % (sign, hh)))
    for mm in (60, 61, 75, 99):
        for sign in "+-":
            out.append(("t", "10:00:00%s05:%02d" % (sign, mm)))
            out.append(("dt", "2021-07-15T10:00:00%s05:%02d" % (sign, mm)))
    for ss in (60, 61, 99):
        for sign in "+-":
            out.append(("t", "10:00:00%s05:30:%02d" % (sign, ss)))
            out.append(("dt", "2021-07-15T10:00:00%s05:30:%02d" % (sign, ss)))
    for s in ("10:00:00+5:00", "10:00:00+05", "10:00:00+0500", "10:00:00+05:0", "10:00:00 +05:00", "10:00:00+05:00:", "10:00:00+-05:00", "10:00:00+05:00Z", "10:00:00Z+05:00", "10:00:00ZZ", "10:00:00@", "10:00:00@Europe", "10:00:00@Europe/", "10:00:00@Europe/Nowhere", "10:00:00@ Europe/Warsaw", "10:00:00 @Europe/Warsaw", "10:00:00@Europe/Warsaw ", "10:00:00+01:00@Europe/Warsaw", "10:00:00z"):
        out.append(("t", s))
        out.append(("dt", "2021-07-15T" + s))
    return out


def gen_zones(zones_list):
    out = []
    for z in zones_list:
        out.append(("t", "12:00:00@" + z))
        out.append(("dt", "2015-06-15T12:00:00.5@" + z))
        low = z.lower()
        if low != z:
            out.append(("dt", "2015-06-15T12:00:00@" + low))
        out.append(("dt", "2015-06-15T12:00:00@" + z + "x"))
    return out


def gen_times(rng, n_random, zones_list):
    out = []
    for h in list(range(0, 26)) + [99]:
        for m in (0, 59, 60, 99):
            for s in (0, 59, 60, 61, 99):
                out.append(("t", "%02d:%02d:%02d" % (h, m, s)))
                out.append(("dt", "2021-02-28T%02d:%02d:%02d" % (h, m, s)))
    # fraction digit patterns, 1..9 digits and padded beyond
    pats = ["1", "5", "9", "01", "10", "25", "99", "001", "123", "999", "0001", "1234", "9999", "00001", "12345", "99999", "000001", "123456", "999999", "0000001", "1234567", "9999999", "00000001", "12345678", "99999999", "000000001", "123456789", "999999999", "100000000", "500000000", "000000010", "987654321", "333333333", "666666667", "1234567890", "1234567890000", "5000000000000000"]
    for p in pats:
        out.append(("t", "10:00:59." + p))
        out.append(("t", "23:59:59." + p + "+02:00"))
        out.append(("dt", "2021-12-31T23:59:59." + p + "Z"))
    for s in ("10:00:59.", "10:00:59.Z", "10:00:59,5", "10:00:59.5.5", "10:00:59.99999999999999999", "10:00:58.99999999999999999", "10:00:59.9999999999", "10:00:59.1234567891", "1:00:00", "10:0:00", "10:00:0", "10:00", "100000", "T10:00:00", "10:00:00T", "10.00.00", "-10:00:00", "24:00:00", "24:00:00.0", "10:00:00.5 ", " 10:00:00"):
        out.append(("t", s))
        out.append(("dt", "2021-12-31T" + s))
    for _ in range(n_random):
        out.append(("t", rand_time_text(rng, zones_list)))
    return out


def gen_date_times(rng, n_random, zones_list):
    out = []
    for s in ("2021-01-01", "2021-01-01T", "2021-01-01t10:00:00", "2021-01-01 10:00:00", "2021-01-01T10:00:00T", "T10:00:00", "2021-01-01TT10:00:00", "2021-01-01T10:00:00+01:00[Europe/Warsaw]", "2021-02-29T10:00:00", "2020-02-29T10:00:00", "2021-01-00T10:00:00", "0999-12-31T23:59:59", "-0001-01-01T00:00:00Z", "-2021-01-01T00:00:00Z", "999999999-12-31T23:59:59.999999999@Etc/UTC", "-999999999-01-01T00:00:00+14:59:59", "2021-03-28T02:30:00@Europe/Warsaw", "2021-10-31T02:30:00@Europe/Warsaw"):
        out.append(("dt", s))
    for _ in range(n_random):
        y, m, d = rand_valid_date(rng)
        if rng.random() < 0.05:
            d = rng.choice([0, R.days_in_month(y, m) + 1])
        t = rand_time_text(rng, zones_list)
        if "@" in t:
            # away from any transition (gap or overlap): June/December noon-ish of a year with stable rules
            y, m, d = rng.choice([1995, 2005, 2015]), rng.choice([1, 6, 7, 12]), rng.randint(8, 20)
        out.append(("dt", "%sT%s" % (R.fmt_date(y, m, d), t)))
    return out


def rand_big(rng, cap):
    c = rng.random()
    if c < 0.3:
        return rng.randint(0, 70)
    if c < 0.6:
        return rng.randint(0, 10 ** rng.randint(2, 9))
    if c < 0.9:
        return rng.randint(0, cap)
    return rng.choice([cap, cap - 1, cap // 2, 2**63 - 1, 2**63, 2**32, 2**31])


def gen_durations(rng, n_random):
    out = []
    fixed = [
        "P0D", "PT0S", "P0M", "P0Y", "-P0D", "-PT0S", "-P0M", "P1D", "PT24H", "PT36H", "PT1440M", "PT86400S", "PT90M", "PT3600S", "PT60S", "PT61S", "PT59.999999999S", "PT0.5S", "PT0.000000001S",
        "-PT0.000000001S", "P1DT12H", "P1DT2H3M4.5S", "-P1DT2H3M4.5S", "P14M", "P12M", "P11M", "P1Y14M", "-P14M", "P1Y2M", "P1Y0M", "P0Y1M", "P100Y", "P1200M",
        "P", "PT", "-P", "P1DT", "P1YT", "PT1.S", "PT.5S", "PT1.5", "P1.5D", "PT1.5H", "PT1.5M", "P1D2H", "PT1S1M", "PT1M1H", "P1M1Y", "P-1D", "P1D ", " P1D", "p1d", "P1d", "PT1s", "1D", "P1Y2M3D", "P1M1D", "P1YT1H", "P1DT1H1Y",
        "+P1D", "--P1D", "P1D1D", "PT1H1H", "P1Y1Y", "P18446744073709551615D", "P18446744073709551616D", "PT18446744073709551615S", "PT18446744073709551616S", "PT18446744073709551615H", "PT18446744073709551616M",
        "P99999999999999999999DT1H", "PT1H99999999999999999999M", "P18446744073709551615DT18446744073709551615H18446744073709551615M18446744073709551615.999999999S",
        "-P18446744073709551615DT18446744073709551615H18446744073709551615M18446744073709551615.999999999S",
        "P768614336404564650Y", "P768614336404564650Y7M", "P768614336404564650Y8M", "P768614336404564651Y", "P9223372036854775807M", "P9223372036854775808M", "-P9223372036854775807M", "-P9223372036854775808M", "P9223372036854775807Y", "P18446744073709551615M",
        "P18446744073709551615Y", "P18446744073709551616Y", "P1Y18446744073709551615M", "P99999999999999999999Y1M", "P1Y99999999999999999999M",
    ]
    for s in fixed:
        out.append(("dur", s))
        out.append(("dtd", s))
        out.append(("ymd", s))
    u64 = R.U64_MAX
    for _ in range(n_random):
        if rng.random() < 0.7:
            parts = []
            d, h, m, s = rand_big(rng, u64), rand_big(rng, u64), rand_big(rng, u64), rand_big(rng, u64)
            nanos, digits = rand_nanos(rng)
            mask = rng.randint(1, 15)
            txt = "-P" if rng.random() < 0.3 else "P"
            if mask & 8:
                txt += "%dD" % d
            if mask & 7:
                txt += "T"
                if mask & 4:
                    txt += "%dH" % h
                if mask & 2:
                    txt += "%dM" % m
                if mask & 1:
                    txt += "%d%sS" % (s, R.fmt_fraction(nanos, digits))
            out.append((rng.choice(["dur", "dtd"]), txt))
        else:
            cap = R.I64_MAX // 12
            y, m = rand_big(rng, cap), rand_big(rng, R.I64_MAX - 12 * cap)
            mask = rng.randint(1, 3)
            txt = "-P" if rng.random() < 0.3 else "P"
            if mask & 2:
                txt += "%dY" % y
            if mask & 1:
                txt += "%dM" % m
            out.append((rng.choice(["dur", "ymd"]), txt))
    return out


def gen_corruptions(rng, bases, per_pos):
    out = []
    for kind, s in bases:
        n = len(s)
        for i in range(n):
            out.append((kind, s[:i] + s[i + 1 :]))
            for _ in range(per_pos):
                c = rng.choice(CORRUPT_ALPHABET)
                if c != s[i]:
                    out.append((kind, s[:i] + c + s[i + 1 :]))
        for i in range(n + 1):
            for _ in range(per_pos):
                out.append((kind, s[:i] + rng.choice(CORRUPT_ALPHABET) + s[i:]))
    return out


# ------------------------------------------------------------------------------------------------
# oracle
# ------------------------------------------------------------------------------------------------

KIND_COMPONENT = {"d": "date", "t": "time", "dt": "date-time", "dtd": "dtd", "ymd": "ymd", "dur": "duration"}
REASON_COMPONENT = {
    "year-out-of-range": "date",
    "year-fewer-than-4-digits": "date",
    "month-out-of-range": "date",
    "day-zero": "date",
    "day-beyond-month-length": "date",
    "hour>=24": "time",
    "minute>=60": "time",
    "second>=60": "time",
    "zone-unknown": "zone",
    "zone-syntax": "zone",
    "offset-hour>14": "zone",
    "offset-minute>=60": "zone",
    "offset-second>=60": "zone",
}
DIFF_COMPONENT = {"offset-sign-negative-sub-hour": "zone", "year": "date", "month": "date", "day": "date", "hour": "time", "minute": "time", "second": "time", "zone-kind": "zone", "offset-sign": "zone", "offset": "zone", "zone-id": "zone"}


def actual_kind(kind, value):
    """'dur' is only an entry point: the value is one of the two duration kinds."""
    if kind == "dur" and isinstance(value, tuple) and value and value[0] in ("dtd", "ymd"):
        return value[0], value[1]
    return kind, value


def reason_component(kind, reason):
    if reason in REASON_COMPONENT:
        return REASON_COMPONENT[reason]
    if reason in ("fraction-without-digits", "fraction-beyond-nanoseconds"):
        return "dtd" if kind in ("dtd", "dur") else "time"
    if kind == "dur":
        return "dtd" if reason in ("T-without-time-component",) else "duration"
    return KIND_COMPONENT[kind]


def diff_component(kind, diff):
    if diff in DIFF_COMPONENT:
        return DIFF_COMPONENT[diff]
    if diff in ("fraction", "fraction-minus-1ns") and kind in ("t", "dt"):
        return "time"
    return KIND_COMPONENT[kind]


def feature_tag(kind, value):
    """(component, tag): coarse class of a valid literal, used to keep signatures narrow but
    independent of the operands."""
    kind, value = actual_kind(kind, value)
    year = None
    zone = None
    if kind == "d" and value:
        year = value[0]
    elif kind == "dt" and value:
        year, zone = value[0], value[7]
    elif kind == "t" and value:
        zone = value[4]
    if year is not None and abs(year) < 1000:
        return "date", "year<1000"
    if zone is not None and zone[0] == "zone" and not all(c.isalpha() and c.isascii() or c in "_/" for c in zone[1]):
        return "zone", "zone-id-nonalpha"
    if year is not None and abs(year) >= CHRONO_YEAR_MAX:
        return "date", "year>=262143"
    if kind == "dtd" and isinstance(value, int) and abs(value) // (86400 * R.NANOS) > R.U64_MAX:
        return "dtd", "days>u64"
    return KIND_COMPONENT[kind], "generic"


def zone_diff(a, b):
    if a == b:
        return None
    if a is None or b is None or a[0] != b[0]:
        return "zone-kind"
    if a[0] == "off":
        if a[1] == -b[1]:
            # the known class: a negative offset below one hour comes back positive
            return "offset-sign-negative-sub-hour" if -3600 < a[1] < 0 else "offset-sign"
        return "offset"
    return "zone-id"


def first_diff(kind, exp, got):
    if kind == "d":
        for name, a, b in zip(("year", "month", "day"), exp, got):
            if a != b:
                return name
        return None
    if kind == "t":
        for name, a, b in zip(("hour", "minute", "second", "fraction"), exp[:4], got[:4]):
            if a != b:
                return "fraction-minus-1ns" if name == "fraction" and a - b == 1 else name
        return zone_diff(exp[4], got[4])
    if kind == "dt":
        for name, a, b in zip(("year", "month", "day", "hour", "minute", "second", "fraction"), exp[:7], got[:7]):
            if a != b:
                return "fraction-minus-1ns" if name == "fraction" and a - b == 1 else name
        return zone_diff(exp[7], got[7])
    if kind in ("dtd", "ymd"):
        if exp == got:
            return None
        if kind == "dtd" and abs(exp) - abs(got) == 1 and (exp < 0) == (got < 0):
            return "fraction-minus-1ns"  # the known class: one nanosecond lost towards zero
        if kind == "dtd" and (exp // R.NANOS == got // R.NANOS or abs(exp - got) < R.NANOS):
            return "fraction"
        if exp == -got:
            return "sign"
        return "total"
    if kind == "dur":
        if exp[0] != got[0]:
            return "duration-kind"
        return first_diff(exp[0], exp[1], got[1])
    raise ValueError(kind)


class Judge:
    """Signatures: <failure kind>:<component>:<detail>, component in date / time / zone / date-time /
    dtd / ymd / duration (the part of the literal the failure sits in, not the operand)."""

    def __init__(self, rep, zones):
        self.rep = rep
        self.zones = zones
        self.stats = {}

    def bump(self, k):
        self.stats[k] = self.stats.get(k, 0) + 1

    def judge(self, kind, text, cls, obs, path, replay_case):
        """obs: None (null) | {"panic":..} | {"s", "re", "eq", "s2", "c"?, "o"?}"""
        rep = self.rep
        rep.count()
        rep.seen(hash((kind, text)))

        def viol(sig, what, expected=None):
            rep.violation(sig, "[%s] %s %r: %s" % (path, kind, text, what), {"variant": "dbg", "case": replay_case, "expected": expected, "observed": obs})

        if isinstance(obs, dict) and "panic" in obs:
            # panic site (file, message class) x kind of value being read / printed
            viol("%s:%s" % (R.panic_site_signature(obs["panic"]), KIND_COMPONENT[actual_kind(kind, cls.value)[0]]), "panic: %s" % obs["panic"].get("msg"), "no panic")
            return
        self.bump("%s:%s" % (kind, cls.status))
        if obs is None:
            if cls.status == "valid":
                viol("reject-valid:%s:%s" % feature_tag(kind, cls.value), "valid literal evaluated to null", "accepted")
            elif cls.status == "undecided":
                rep.undecided += 1
            return
        if cls.status == "invalid":
            viol("accept-invalid:%s:%s" % (reason_component(kind, cls.reason), cls.reason), "invalid literal (%s) was accepted and prints %r" % (cls.reason, obs.get("s")), "null")
            return
        if cls.status == "undecided":
            rep.undecided += 1
        s = obs.get("s")
        pc = R.classify(kind, s, self.zones)
        if pc.status == "invalid":
            viol("print-not-literal:%s:%s" % (reason_component(kind, pc.reason), pc.reason), "printed form %r is not a valid literal (%s)" % (s, pc.reason), "a valid literal")
            return
        if pc.status == "undecided":
            rep.undecided += 1
            return
        expected = cls.value if cls.status in ("valid", "huge") else None
        if cls.status == "undecided" and cls.reason in ("fraction-beyond-nanoseconds", "fraction-without-digits") and cls.value is not None:
            # everything but the fraction is settled
            diff = first_diff(kind, cls.value if kind != "dur" else cls.value, pc.value)
            if diff and not diff.startswith("fraction"):
                viol("lossy:%s:%s" % (diff_component(actual_kind(kind, pc.value)[0], diff), diff), "written %r but prints %r" % (text, s), None)
                return
        if expected is not None:
            diff = first_diff(kind, expected, pc.value)
            if diff:
                tag = diff if cls.status == "valid" else "%s:%s" % (diff, cls.reason)
                viol("lossy:%s:%s" % (diff_component(actual_kind(kind, pc.value)[0], diff), tag), "written value %r but prints %r (denoting %r)" % (expected, s, pc.value), expected)
                return
            cd = self.comps_diff(kind, expected, obs)
            if cd:
                viol("component-differs:%s:%s" % (KIND_COMPONENT[kind], cd[0]), "component %s observed %r for written value %r" % (cd[0], cd[1], expected), expected)
                return
        # normal form of durations
        dk, total = actual_kind(kind, pc.value)
        if dk in ("dtd", "ymd"):
            canon = R.canon_dtd(total) if dk == "dtd" else R.canon_ymd(total)
            ok = s == canon or (total == 0 and s in (R.ZERO_DTD if dk == "dtd" else R.ZERO_YMD))
            if not ok:
                viol("not-normal-form:%s" % dk, "prints %r, normal form is %r" % (s, canon), canon)
                return
        comp, tag = feature_tag(kind, pc.value)
        if pc.status == "huge":
            tag = pc.reason
        if not obs.get("re"):
            if pc.status == "huge":
                rep.undecided += 1  # beyond the representable maximum of a literal: null is tolerated
                return
            viol("reparse-rejected:%s:%s" % (comp, tag), "printed form %r is a valid literal but is not accepted back" % s, "accepted")
            return
        eq = obs.get("eq")
        if isinstance(eq, dict) and "panic" in eq:
            viol("%s:%s" % (R.panic_site_signature(eq["panic"]), KIND_COMPONENT[actual_kind(kind, pc.value)[0]]), "panic comparing the value with its re-read print %r: %s" % (s, eq["panic"].get("msg")), "true")
            return
        s2 = obs.get("s2")
        if s2 != s:
            # the value changes on the way through its own text: same failure kind as a lossy literal
            p2 = R.classify(kind, s2, self.zones) if isinstance(s2, str) else None
            diff = first_diff(kind, pc.value, p2.value) if p2 is not None and p2.status in ("valid", "huge") else None
            if diff:
                viol("lossy:%s:%s" % (diff_component(dk, diff), diff if pc.status != "huge" else "%s:%s" % (diff, pc.reason)), "print %r re-read prints %r" % (s, s2), s)
            else:
                viol("print-unstable:%s:%s" % (comp, tag), "print %r, print of the re-read value %r" % (s, s2), s)
            return
        if eq is None and kind == "dt" and isinstance(pc.value, tuple) and pc.value[7] is not None and pc.value[7][0] == "zone":
            # a local time inside a DST gap of its zone does not exist: null is tolerated (a panic is not)
            rep.undecided += 1
            return
        if eq is not True:
            viol("reparse-not-equal:%s:%s:%s" % (comp, "eq-null" if eq is None else "eq-false", tag), "value read back from its print %r is not equal to the value (= gave %r)" % (s, eq), True)
            return
        self.bump("roundtrip-ok")

    @staticmethod
    def comps_diff(kind, expected, obs):
        c = obs.get("c")
        if c is None:
            return None
        if kind == "d":
            got = tuple(c[:3])
            if got != tuple(expected):
                return ("ymd", got)
        elif kind == "t":
            if tuple(c[:3]) != tuple(expected[:3]):
                return ("hms", c[:3])
            z = expected[4]
            if (c[3] if len(c) > 3 else None) != (z[1] if z and z[0] == "zone" else None):
                return ("timezone", c[3])
            if "o" in obs and not (z and z[0] == "zone"):
                want = z[1] if z else None
                if obs["o"] != want:
                    return ("time-offset", obs["o"])
        elif kind == "dt":
            if tuple(c[:6]) != tuple(expected[:6]):
                return ("ymdhms", c[:6])
            z = expected[7]
            if (c[6] if len(c) > 6 else None) != (z[1] if z and z[0] == "zone" else None):
                return ("timezone", c[6])
            if "o" in obs and not (z and z[0] == "zone"):
                want = z[1] if z else None
                if obs["o"] != want:
                    return ("time-offset", obs["o"])
        return None


# ------------------------------------------------------------------------------------------------
# FEEL path
# ------------------------------------------------------------------------------------------------


def feel_text(kind, var):
    f = FN[kind]
    if kind == "d":
        return "{v: %s(%s), t: string(v), w: %s(t), r: [v, t, w, string(w), w = v, v.year, v.month, v.day]}.r" % (f, var, f)
    if kind == "t":
        return "{v: %s(%s), t: string(v), w: %s(t), r: [v, t, w, string(w), w = v, v.hour, v.minute, v.second, v.timezone, v.time offset]}.r" % (f, var, f)
    if kind == "dt":
        return "{v: %s(%s), t: string(v), w: %s(t), r: [v, t, w, string(w), w = v, v.year, v.month, v.day, v.hour, v.minute, v.second, v.timezone, v.time offset]}.r" % (f, var, f)
    return "{v: %s(%s), t: string(v), w: %s(t), r: [v, t, w, string(w), w = v]}.r" % (f, var, f)


def num(j):
    if isinstance(j, dict) and "n" in j:
        return int(Decimal(j["n"])) if Decimal(j["n"]) == Decimal(j["n"]).to_integral_value() else Decimal(j["n"])
    return None


def sval(j):
    return j["s"] if isinstance(j, dict) and "s" in j else None


def offset_secs(j, zones):
    if isinstance(j, dict) and "dtd" in j:
        c = R.classify_dtd(j["dtd"])
        if c.status == "valid" and c.value % R.NANOS == 0:
            return c.value // R.NANOS
        return ("bad", j["dtd"])
    return None


def feel_obs(kind, r, zones):
    """Turns the list computed by feel_text() into the observation record of Judge.judge()."""
    if "panic" in r:
        return {"panic": r["panic"]}, None
    if "v" not in r or not isinstance(r["v"], list):
        return "bad", r
    L = r["v"]
    v = L[0]
    if v is None:
        return None, None
    keys = ("ymd", "dtd") if kind in ("dur", "dtd", "ymd") else (JKEY[kind],)
    if not (isinstance(v, dict) and any(k in v for k in keys)):
        return "wrong-kind", v
    obs = {"s": sval(L[1]), "re": L[2] is not None, "eq": L[4], "s2": sval(L[3])}
    key = [k for k in keys if k in v][0]
    obs["display"] = v[key]
    if kind in ("dur", "dtd", "ymd"):
        obs["k"] = key
    if kind == "d":
        obs["c"] = [num(x) for x in L[5:8]]
    elif kind == "t":
        obs["c"] = [num(x) for x in L[5:8]] + [sval(L[8])]
        if sval(L[8]) is None:
            obs["o"] = offset_secs(L[9], zones)
    elif kind == "dt":
        obs["c"] = [num(x) for x in L[5:11]] + [sval(L[11])]
        if sval(L[11]) is None:
            obs["o"] = offset_secs(L[12], zones)
    return obs, None


# ------------------------------------------------------------------------------------------------
# values constructed from numbers / arithmetic
# ------------------------------------------------------------------------------------------------


def gen_constructed(rng, tier):
    """(kind, expression, Cls) : the expression builds a value without a literal of its own kind."""
    out = []
    years = [-999999999, -262145, -262144, -10000, -9999, -1000, -999, -100, -1, 1, 9, 99, 999, 1000, 2021, 9999, 10000, 262143, 262144, 999999999]
    for y in years:
        for m, d in ((1, 1), (2, 28), (12, 31)):
            out.append(("d", "date(%d, %d, %d)" % (y, m, d), R.Cls("valid", (y, m, d), None), "date3"))
            out.append(("dt", 'date and time(date(%d, %d, %d), time("10:20:30.5Z"))' % (y, m, d), R.Cls("valid", (y, m, d, 10, 20, 30, 500000000, ("off", 0)), None), "date-and-time2"))
    fr = ["0", "0.5", "0.1", "0.123456789", "0.999999999", "0.000000001", "0.25", "0.987654321", "0.3", "0.7", "0.29", "0.57", "0.58", "0.009"]
    n_fr = 40 if tier == "quick" else 2000
    for _ in range(n_fr):
        digits = rng.randint(1, 9)
        fr.append("0." + "".join(rng.choice("0123456789") for _ in range(digits)))
    for f in fr:
        s = rng.randint(0, 59)
        nanos = int((f[2:] + "000000000")[:9]) if "." in f else 0
        sec = "%d%s" % (s, f[1:] if "." in f else "")
        out.append(("t", "time(10, 0, %s)" % sec, R.Cls("valid", (10, 0, s, nanos, None), None), "time3"))
    step = 7 if tier == "quick" else 1
    allmin = list(range(-(14 * 60 + 59), 14 * 60 + 60))
    for k in allmin[::step] + [-1, 1, -30, 30, -59, 59, -60, 60]:
        secs = k * 60
        out.append(("t", 'time(10, 0, 0, duration("%s"))' % R.canon_dtd(secs * R.NANOS), R.Cls("valid", (10, 0, 0, 0, ("off", secs)), None), "time4"))
    for secs in (1, -1, 59, -59, 3601, -3601, 53999, -53999):
        out.append(("t", 'time(10, 0, 0, duration("%s"))' % R.canon_dtd(secs * R.NANOS), R.Cls("valid", (10, 0, 0, 0, ("off", secs)), None), "time4"))
    for dur in ("PT15H", "-PT15H", "PT24H", "-PT24H", "P2D", "-P2D", "P100D", "PT0.5S"):
        # beyond what a literal can say: null or a value whose print is a valid literal
        out.append(("t", 'time(10, 0, 0, duration("%s"))' % dur, R.Cls("undecided", None, "offset-not-expressible"), "time4"))
    # durations from arithmetic
    n_ar = 60 if tier == "quick" else 3000
    for _ in range(n_ar):
        # whole seconds: a fractional duration literal would bring the known literal-fraction defect into the operands
        a = rng.randint(-(10**rng.randint(1, 12)), 10 ** rng.randint(1, 12)) * R.NANOS
        b = rng.randint(-(10**rng.randint(1, 12)), 10 ** rng.randint(1, 12)) * R.NANOS
        out.append(("dtd", 'duration("%s") + duration("%s")' % (R.canon_dtd(a), R.canon_dtd(b)), R.Cls("valid", a + b, None), "dtd-add"))
        out.append(("dtd", '-duration("%s")' % R.canon_dtd(a), R.Cls("valid", -a, None), "dtd-neg"))
        y1, m1, d1 = rng.randint(1000, 9999), rng.randint(1, 12), rng.randint(1, 28)
        y2, m2 = rng.randint(1000, 9999), rng.randint(1, 12)
        out.append(("ymd", 'years and months duration(date("%s"), date("%s"))' % (R.fmt_date(y1, m1, d1), R.fmt_date(y2, m2, d1)), R.Cls("valid", (y2 - y1) * 12 + (m2 - m1), None), "ym-between"))
        # difference of two UTC date-times less than 290 years apart
        z1 = rng.randint(-5_000_000_000, 5_000_000_000)
        n1 = rng.randint(0, R.NANOS - 1)
        z2 = z1 + rng.randint(-4_000_000_000, 4_000_000_000)
        n2 = rng.randint(0, R.NANOS - 1)
        # operands built from numbers (exact decimal arithmetic), so that the literal fraction defect cannot leak in
        out.append(("dtd", "%s - %s" % (local_expr(z1, n1), local_expr(z2, n2)), R.Cls("valid", (z1 - z2) * R.NANOS + n1 - n2, None), "dt-sub"))
        out.append(("dtd", "-(%s - %s)" % (local_expr(z1, n1), local_expr(z2, n2)), R.Cls("valid", -((z1 - z2) * R.NANOS + n1 - n2), None), "dtd-neg"))
        out.append(("dtd", '(%s - %s) + duration("%s")' % (local_expr(z1, n1), local_expr(z2, n2), R.canon_dtd(a)), R.Cls("valid", (z1 - z2) * R.NANOS + n1 - n2 + a, None), "dtd-add"))
    return out


def local_expr(secs, nanos):
    days, rem = divmod(secs, 86400)
    y, m, d = R.civil_from_days(days)
    sec = "%d%s" % (rem % 60, R.fmt_fraction(nanos))
    return "date and time(date(%d, %d, %d), time(%d, %d, %s))" % (y, m, d, rem // 3600, rem % 3600 // 60, sec)


def utc_text(secs, nanos):
    days, rem = divmod(secs, 86400)
    y, m, d = R.civil_from_days(days)
    return "%sT%s" % (R.fmt_date(y, m, d), R.fmt_time(rem // 3600, rem % 3600 // 60, rem % 60, nanos, ("off", 0)))


CTOR_FN = {"d": "date", "t": "time", "dt": "date and time", "dtd": "duration", "ymd": "duration"}


def ctor_text(kind, expr):
    f = CTOR_FN[kind]
    return "{v: %s, t: string(v), w: %s(t), r: [v, t, w, string(w), w = v]}.r" % (expr, f)


# ------------------------------------------------------------------------------------------------
# run
# ------------------------------------------------------------------------------------------------


def _harness_ok(res):
    if res is None or "harness_error" in res or res.get("missing"):
        raise runner.Inconclusive("driver reported a harness error: %s" % json.dumps(res)[:300])


def run(rep, tier, seed):
    quick = tier == "quick"
    rep.rule = (
        "a case is one (kind, literal text) pair or one constructing expression; all are non-trivial. Enumerated in full: every whole-minute offset "
        "-14:59..+14:59 on time and date-time, every zone id of the implementation's table on time and date-time, hour/minute/second and month/day "
        "boundary grids, year edges up to +-999999999; seeded: random dates/times/date-times/durations (0..9+ fraction digits, components up to 2^64-1) "
        "and single-character delete/replace/insert corruptions at every position of valid literals"
    )
    rep.assumptions = [
        "reference grammar/validator in lib/rtemporal.py (XSD lexical forms restricted as the property states: hour<24, minute/second<60, |offset hour|<=14 with minute/second<60, "
        "Gregorian validity, |year|<=999999999); zone validity = membership in chrono_tz::TZ_VARIANTS as listed by the driver",
        "undecided and never a violation: a duration seconds fraction without digits (`PT0.S`, pinned as accepted by the implementation's own unit tests), year 0000, years with more than 4 digits and a leading zero, lowercase 'z', more than 9 fraction digits with a non-zero tail, "
        "mixed year-month/day-time durations, a date-only string given to `date and time()`, zone ids differing only in case, components above 2^64-1 / 2^63-1 months (null or the exact value accepted)",
        "a date-time with a named zone that is not equal to itself (`=` gives null) is undecided: the local time may fall into a DST gap, which the reference does not model",
        "a time with a named zone is only exercised between 06:00 and 20:00 because the implementation validates it against today's date",
    ]
    n_self = R.self_test()
    rep.extra["reference_calendar_selfcheck_comparisons"] = n_self
    env = {"TZ": "UTC"}
    zr, _ = runner.run_cases("dbg", [{"op": "zones"}], rep.workdir, label="zones", extra_env=env)
    _harness_ok(zr[0])
    zones_list = sorted(zr[0].get("zones") or [])
    if len(zones_list) < 300:
        raise runner.Inconclusive("zone table has only %d entries" % len(zones_list))
    zones = frozenset(zones_list)
    rep.extra["zone_ids"] = len(zones_list)

    rng = rng_for(seed, "c14-gen")
    scale = 1 if quick else 80
    items = []
    items += gen_dates(rng, 3000 * scale)
    offs = gen_offsets()
    items += offs
    items += gen_offset_seconds(tier)
    items += gen_zones(zones_list)
    items += gen_times(rng, 6000 * scale, zones_list)
    items += gen_date_times(rng, 8000 * scale, zones_list)
    items += gen_durations(rng, 8000 * scale)
    # zone-less date-times (and times) written inside the hours that the time zones of the environment replica (lib/runner.py
    # ALT_ENV) and of some everyday server locations skip or repeat: ordinary literals under TZ=UTC, in a gap or an overlap of
    # the PROCESS's zone there - a zone-less value must read back and equal itself wherever the process runs
    for s_ in ("2021-10-03T02:15:00", "2021-10-03T02:00:00", "2021-04-04T01:45:00", "2022-10-02T02:29:59.999999999", "2021-03-28T02:30:00", "2021-10-31T02:30:00", "2021-03-14T02:30:00", "2021-11-07T01:30:00",
               "2021-09-26T02:45:00", "2011-12-30T12:00:00"):
        items.insert((61 * (1 + len(s_) + sum(map(ord, s_)))) % max(1, len(items)), ("dt", s_))  # spread over the batches
    for s_ in ("02:15:00", "02:30:00", "01:45:00"):
        items.insert((61 * sum(map(ord, s_))) % max(1, len(items)), ("t", s_))
    rep.extra["whole_minute_offsets_enumerated"] = len(offs) // 2 - 2
    # bases for corruption: valid literals of every kind
    valid = {}
    for kind, s in items:
        if len(s) <= 48 and R.classify(kind, s, zones).status == "valid":
            valid.setdefault(kind, []).append((kind, s))
    crng = rng_for(seed, "c14-corrupt")
    n_base = 70 if quick else 450
    bases = []
    for kind in sorted(valid):
        pool = sorted(set(valid[kind]))
        crng.shuffle(pool)
        bases += pool[:n_base]
    corr = gen_corruptions(crng, bases, 1 if quick else 4)
    rep.extra["corruption_bases"] = len(bases)
    rep.extra["corruptions"] = len(corr)
    items += corr
    # dedupe, keep order
    seen = set()
    uniq = []
    for it in items:
        if it not in seen:
            seen.add(it)
            uniq.append(it)
    items = uniq
    del seen
    rep.extra["literals"] = len(items)
    for it in items[:: max(1, len(items) // 5)][:5]:
        rep.sample({"kind": it[0], "literal": it[1], "reference": R.classify(it[0], it[1], zones)._asdict()})

    judge = Judge(rep, zones)
    direct = {}
    # ---------------- direct path ----------------
    BATCH = 400
    for block in chunks(items, 400_000):
        cases = [{"op": "temporal", "items": [[k, s] for k, s in b]} for b in chunks(block, BATCH)]
        results, _ = runner.run_cases("dbg", cases, rep.workdir, label="direct", extra_env=env)
        for case, res in zip(cases, results):
            _harness_ok(res)
            if "rs" not in res:
                rep.violation(crash_signature(res, "c14-temporal-batch"), "temporal batch died: %s" % json.dumps(res)[:400], {"variant": "dbg", "case": case})
                continue
            for (kind, s), r in zip(case["items"], res["rs"]):
                cls = R.classify(kind, s, zones)
                obs = r
                judge.judge(kind, s, cls, obs, "direct", {"op": "temporal", "items": [[kind, s]]})
                if quick or len(direct) < 600_000:
                    direct[(kind, s)] = None if r is None else ("panic" if "panic" in r else r.get("s"))
        # the xsd:* input conversions must agree with the direct path
        xk = {"d": "xd", "t": "xt", "dt": "xdt", "dur": "xdur"}
        xitems = [(xk[k], s, k) for k, s in block if k in xk]
        if not quick:
            xitems = xitems[::5]
        xcases = [{"op": "temporal", "items": [[k, s] for k, s, _ in b]} for b in chunks(xitems, BATCH)]
        xres, _ = runner.run_cases("dbg", xcases, rep.workdir, label="xsd", extra_env=env)
        for b, res in zip(chunks(xitems, BATCH), xres):
            _harness_ok(res)
            if "rs" not in res:
                rep.violation(crash_signature(res, "c14-xsd-batch"), "xsd batch died: %s" % json.dumps(res)[:400], {"variant": "dbg", "case": {"op": "temporal", "items": [[k, s] for k, s, _ in b]}})
                continue
            for (xkind, s, kind), r in zip(b, res["rs"]):
                rep.count()
                if (kind, s) not in direct:
                    continue
                want = direct[(kind, s)]
                got = None if r is None else ("panic" if "panic" in r else list(r.values())[0])
                if want != got:
                    rep.violation("path-mismatch:%s:xsd" % kind, "xsd conversion of %r gave %r, TryFrom gave %r" % (s, got, want), {"variant": "dbg", "case": {"op": "temporal", "items": [[xkind, s], [kind, s]]}, "expected": want, "observed": got})
                else:
                    judge.bump("xsd-agrees")

    # ---------------- FEEL path ----------------
    frng = rng_for(seed, "c14-feel")
    if quick:
        feel_items = items
    else:
        feel_items = [it for it in items if frng.random() < 0.12]
    FB = 60
    cases = []
    metas = []
    for b in chunks(feel_items, FB):
        scope = [[["s%d" % i, {"s": s}] for i, (k, s) in enumerate(b)]]
        texts = []
        meta = []
        for i, (k, s) in enumerate(b):
            texts.append(feel_text(k, "s%d" % i))
            meta.append((k, s, "fn", "s%d" % i))
            if all(c in AT_SAFE for c in s):
                texts.append('@"%s"' % s)
                meta.append((k, s, "at", None))
        cases.append({"op": "evalmany", "scope": scope, "texts": texts})
        metas.append(meta)
    results, _ = runner.run_cases("dbg", cases, rep.workdir, label="feel", extra_env=env)
    n_at = 0
    for case, meta, res in zip(cases, metas, results):
        _harness_ok(res)
        if "rs" not in res:
            rep.violation(crash_signature(res, "c14-feel-batch"), "FEEL batch died: %s" % json.dumps(res)[:400], {"variant": "dbg", "case": case})
            continue
        for (kind, s, how, var), text, r in zip(meta, case["texts"], res["rs"]):
            rcase = {"op": "evalmany", "scope": [[[var, {"s": s}]]] if how == "fn" else None, "texts": [text]}
            if how == "at":
                rep.count()
                n_at += 1
                if "panic" in r:
                    ck = "dur" if kind in ("dtd", "ymd") else kind
                    comp = KIND_COMPONENT[actual_kind(ck, R.classify(ck, s, zones).value)[0]]
                    rep.violation("%s:%s" % (R.panic_site_signature(r["panic"]), comp), "[@] panic on @%r: %s" % (s, r["panic"].get("msg")), {"variant": "dbg", "case": rcase})
                    continue
                if "v" not in r:
                    if "perr" in r and (kind, s) in direct and direct[(kind, s)] is None:
                        continue  # the lexer may refuse the text; only accepted literals are compared
                    if "perr" in r:
                        rep.violation("at-literal-parse-error:%s" % kind, "@%r does not parse (%s) although %s(%r) is accepted" % (s, r["perr"][:100], FN[kind], s), {"variant": "dbg", "case": rcase})
                    continue
                if kind in ("dtd", "ymd"):
                    kind = "dur"
                if (kind, s) not in direct:
                    continue
                want = direct[(kind, s)]
                v = r["v"]
                if want is None or want == "panic":
                    continue  # may legitimately be a literal of another kind
                keys = ("ymd", "dtd") if kind in ("dur", "dtd", "ymd") else (JKEY[kind],)
                got = None
                if isinstance(v, dict):
                    for k in keys:
                        if k in v:
                            got = v[k]
                if got != want:
                    rep.violation("path-mismatch:%s:at-literal" % kind, "@%r gave %r, %s(%r) prints %r" % (s, v, FN[kind], s, want), {"variant": "dbg", "case": rcase, "expected": want, "observed": v})
                else:
                    judge.bump("at-agrees")
                continue
            obs, bad = feel_obs(kind, r, zones)
            if obs == "bad":
                rep.violation("no-value:%s" % kind, "FEEL text did not evaluate for %r: %s" % (s, json.dumps(bad)[:300]), {"variant": "dbg", "case": rcase})
                continue
            if obs == "wrong-kind":
                rep.violation("wrong-kind:%s" % kind, "%s(%r) gave a value of another kind: %r" % (FN[kind], s, bad), {"variant": "dbg", "case": rcase})
                continue
            jk = "dur" if kind in ("dtd", "ymd") else kind
            cls = R.classify(jk, s, zones)
            judge.judge(jk, s, cls, obs, "feel", rcase)
            if (jk, s) in direct and not (isinstance(obs, dict) and "panic" in obs) and cls.reason != "date-only":
                want = direct[(jk, s)]
                got = None if obs is None else obs.get("display")
                if want != "panic" and want != got:
                    rep.violation("path-mismatch:%s:function" % kind, "%s(%r) gave %r, TryFrom gave %r" % (FN[kind], s, got, want), {"variant": "dbg", "case": rcase, "expected": want, "observed": got})
                elif obs is not None and obs.get("s") != obs.get("display"):
                    rep.violation("path-mismatch:%s:string" % kind, "string(%s(%r)) gave %r, Display gave %r" % (FN[kind], s, obs.get("s"), obs.get("display")), {"variant": "dbg", "case": rcase, "expected": obs.get("display"), "observed": obs.get("s")})
    rep.extra["at_literals"] = n_at
    rep.extra["feel_path_literals"] = len(feel_items)

    # ---------------- constructed values ----------------
    cons = gen_constructed(rng_for(seed, "c14-ctor"), tier)
    cases = []
    for b in chunks(cons, 50):
        cases.append({"op": "evalmany", "texts": [ctor_text(k, e) for k, e, _, _ in b]})
    results, _ = runner.run_cases("dbg", cases, rep.workdir, label="ctor", extra_env=env)
    for b, case, res in zip(chunks(cons, 50), cases, results):
        _harness_ok(res)
        if "rs" not in res:
            rep.violation(crash_signature(res, "c14-ctor-batch"), "constructor batch died: %s" % json.dumps(res)[:400], {"variant": "dbg", "case": case})
            continue
        for (kind, expr, cls, label), text, r in zip(b, case["texts"], res["rs"]):
            rcase = {"op": "evalmany", "texts": [text]}
            if "panic" in r:
                judge.judge(kind, expr, cls, {"panic": r["panic"]}, "constructed", rcase)
                continue
            if "v" not in r or not isinstance(r["v"], list):
                rep.violation("no-value:%s" % kind, "FEEL text did not evaluate for %s: %s" % (expr, json.dumps(r)[:300]), {"variant": "dbg", "case": rcase})
                continue
            L = r["v"]
            if L[0] is None:
                rep.count()
                if cls.status == "valid":
                    rep.violation("constructed-null:%s:%s" % (kind, label), "%s evaluated to null" % expr, {"variant": "dbg", "case": rcase, "expected": cls.value, "observed": None})
                else:
                    rep.undecided += 1
                continue
            obs = {"s": sval(L[1]), "re": L[2] is not None, "eq": L[4], "s2": sval(L[3])}
            judge.judge(kind, expr, cls, obs, "constructed", rcase)
    rep.extra["constructed_values"] = len(cons)
    rep.extra["classes"] = dict(sorted(judge.stats.items()))
    rep.extra["exhaustive_parts"] = ["whole-minute offsets -14:59..+14:59 (time, date-time)", "zone table (time, date-time)"]
    floor = 40_000 if quick else 1_000_000
    if rep.evaluations < floor:
        rep.inconclusive_reason("only %d observations (floor %d)" % (rep.evaluations, floor))
    if judge.stats.get("roundtrip-ok", 0) < floor // 8:
        rep.inconclusive_reason("only %d complete round trips observed" % judge.stats.get("roundtrip-ok", 0))
