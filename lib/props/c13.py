"""C13 — evaluation is pure: the caller's context is untouched and results are repeatable.

Monitors (all inside the driver, next to the state they watch): scope rendering before / after a
successful parse and after every evaluation (ops eval/evalmany/parse), the history checker (op
`history`: prepared evaluators x long-lived scopes, every observation compared with the first one of
the same pair and the scope with its initial rendering), and for models the input-context rendering
before/after evaluate_invocable plus repeated calls in random order (op `model`).
"""
import json

import gdrg
import gfeel
import rfeel
import runner
from common import chunks, crash_signature, panic_signature, rng_for

LEVEL = "exploration"

PUSHERS = ["ctx", "filter", "for", "some", "every", "call", "callnamed", "fundef", "in_ut", "path", "if"]


def gen_texts(rng, n):
    out = []
    for k in range(n):
        g = gfeel.Gen(rng, max_depth=rng.choice([2, 3, 4]), wrong_rate=rng.choice([0.0, 0.1]))
        g.force = [rng.choice(PUSHERS), rng.choice(PUSHERS)]
        tree = g.gen(g.pick_type(), 0)
        out.append(rfeel.render(tree))
    return out


SPECIAL_KEYS = ["item", "a", "b", "na", "sa", "x", "p", "partial", "qty"]


def special_texts(rng, n):
    """constructs whose temporary contexts depend on the DATA: list elements that are contexts with entries named like the
    implicit filter variable (`item`), like iteration variables / parameters in use, or like names of the caller's scope"""
    out = []
    for _ in range(n):
        elems = []
        for _e in range(rng.randint(1, 4)):
            if rng.random() < 0.15:
                elems.append(rng.choice(["1", '"a"', "null", "[1]"]))
                continue
            keys = rng.sample(SPECIAL_KEYS, rng.randint(1, 3))
            elems.append("{%s}" % ", ".join("%s: %s" % (k, rng.choice(["1", "2", '"bolt"', "true", "null", "na", "{a: 1}"])) for k in keys))
        lst = "[%s]" % ", ".join(elems)
        k1, k2 = rng.choice(SPECIAL_KEYS), rng.choice(SPECIAL_KEYS)
        cond = rng.choice(["%s = 1" % k1, "%s != null" % k1, "%s = %s" % (k1, k2), "item != null", "item.%s = 1" % k1, "true", "%s" % k1, "1", "-1", "%s > na" % k1])
        f = "%s[%s]" % (lst, cond)
        w = rng.randrange(9)
        if w == 0:
            t = f
        elif w == 1:
            t = "for x in [1, 2] return %s" % f
        elif w == 2:
            t = "{a: %s, b: na, c: a}" % f
        elif w == 3:
            t = "(function(item, p) %s)(1, 2)" % f
        elif w == 4:
            t = "some x in %s satisfies x != null" % f
        elif w == 5:
            t = "%s[%s]" % (f, cond)
        elif w == 6:
            t = "count(%s) + (if na = null then 0 else 1)" % f
        elif w == 7:
            t = "for item in %s return item" % f
        else:
            t = "[%s, na, %s]" % (f, k1)
        out.append(t)
    return out


def sized_texts(rng, n):
    """built-ins over LONG arguments (an implementation may change algorithm with the size - a hash index, chunks, a fast path -
    and with it what it keeps between calls or the order of what it returns); the repeatability monitor compares the three
    evaluations of the prepared evaluator, the scope monitor the scope"""
    out = []
    for _ in range(n):
        L = rng.choice([17, 32, 33, 34, 48, 65, 100, 130, 257])
        m = rng.choice([3, 7, L // 2 + 1, L - 1, L + 3])
        kind = rng.randrange(4)
        if kind == 0:
            lst = 'for i in 1..%d return "s" + string(modulo(i * 7, %d))' % (L, m)
        elif kind == 1:
            lst = "for i in 1..%d return modulo(i * 7, %d)" % (L, m)
        elif kind == 2:
            lst = 'for i in 1..%d return if modulo(i, 3) = 0 then modulo(i, %d) else "s" + string(modulo(i, %d))' % (L, m, m)
        else:
            lst = 'for i in 1..%d return {k: modulo(i * 7, %d), s: "v" + string(i)}' % (L, m)
        f = rng.randrange(16)
        if f == 0:
            t = "distinct values(%s)" % lst
        elif f == 1:
            t = "union(%s, %s)" % (lst, lst.replace("* 7", "* 5"))
        elif f == 2:
            t = "distinct values(%s)[1]" % lst
        elif f == 3:
            t = "union(%s, [1, \"s1\"])[-1]" % lst
        elif f == 4:
            t = "sort(%s, function(x, y) string(x) < string(y))" % lst
        elif f == 5:
            t = "index of(%s, %s)" % (lst, rng.choice(['"s1"', "1", "null"]))
        elif f == 6:
            t = "mode(%s)" % lst
        elif f == 7:
            t = "reverse(%s)" % lst
        elif f == 8:
            t = "flatten([%s, [%s]])" % (lst, lst)
        elif f == 9:
            t = "concatenate(%s, %s)" % (lst, lst)
        elif f == 10:
            t = "{a: distinct values(%s), b: count(a), c: a[b]}" % lst
        elif f == 11:
            t = "for x in distinct values(%s) return [x]" % lst
        elif f == 12:
            t = "(%s)[item != null]" % lst
        elif f == 13:
            t = "list contains(%s, na)" % lst
        elif f == 14:
            t = "[min(%s), max(%s)]" % (lst, lst)
        else:
            t = "remove(insert before(%s, 2, na), %d)" % (lst, L)
        out.append(t)
    return out


SHADOWS = [
    ("max", "function(x, y) x + y", "max(1, 2)"),
    ("min", "function(x, y) x - y", "[min(5, 2), 1]"),
    ("count", "function(l) 99", "count([1, 2]) + 1"),
    ("abs", 'function(n) "user"', "abs(n: -1)"),
    ("sum", "function(l) 0", "{a: sum([1, 2]), b: a}.b"),
    ("floor", "function(x) x * 10", "for i in [1.5, 2.5] return floor(i)"),
    ("contains", 'function(a, b) "user"', 'contains("ab", "a")'),
    ("append", "function(l, x) l", "append([1], 2)"),
    ("upper case", 'function(s) "user"', 'upper case("a")'),
]


ERROR_SHAPES = [
    # constructs that are left through an error / early exit while a temporary context is on the scope
    "{a: 1, c: 3, a: 2}", '{a: 1, b: 2, "a": 3}', '{"a": 1, b: a, "a": 3}.b', "{x: {a: 1, a: 2}, y: na}", "[{a: 1, a: 2}, na]", "for x in [1, 2] return {k: x, k: x + 1}",
    "(function(p, q) p)(p: 1, p: 2)", "(function(p, q) p)(r: 1)", "(function(p, q) p)(1, 2, 3)", "(function(p: number) p)(\"s\")", "(function(p) {a: p, a: 2})(1)", "fa(1, 2, 3, 4)", "fa(zz: 1)",
    "for x in 1 return x", "for x in [1, 2], y in x return y", "for x in [1, 2] return x.nosuch.deeper", "some x in [1, 2] satisfies x + \"a\"", "every x in [1, 2] satisfies null", "some x in null satisfies true",
    "[1, 2, 3][item > \"a\"]", "[1, 2, 3][item.nosuch]", "[{a: 1}, {a: 2}][a + \"x\"]", "[{a: 1}, 2, {a: 3}][a > 1]", "[[1, 2], [3]][item[5] > 1]", "{a: 1}[a > \"x\"]",
    "if 1 then {a: 1, a: 2} else na", "{a: [1, 2][item > 1], b: a[5].x, c: b + 1}", "{f: function(x) {k: x, k: 2}, r: f(1), s: na}.s", "{a: 1, b: (function(a) {a: a, a: 1})(2), c: a}.c",
    "sort([3, 1, 2], function(x, y) {k: 1, k: 2})", "sort([3, 1, 2], function(x, y) x + \"a\")", "for x in [1, 2] return (function(x) {x: x, x: 1})(x)",
]


def error_texts(rng, n):
    out = []
    for _ in range(n):
        t = rng.choice(ERROR_SHAPES)
        w = rng.randrange(5)
        if w == 0:
            t = "[%s, na]" % t
        elif w == 1:
            t = "{a: %s, b: na}" % t
        elif w == 2:
            t = "for z in [1, 2] return %s" % t
        elif w == 3:
            t = "(function(na) %s)(5)" % t
        out.append(t)
    return out


def layered_scope(rng):
    g = gfeel.Gen(rng)
    frames = g.scope()
    extra = rng.choice([0, 1, 2])
    for k in range(extra):
        frames = [{"zzlow%d" % k: rfeel.num(str(k)), "na": rfeel.num("77")}] + frames
    return gfeel.Gen.scope_json(frames)


def run(rep, tier, seed):
    n_expr = 12000 if tier == "quick" else 600000
    n_hist = 150 if tier == "quick" else 12000
    n_models = 300 if tier == "quick" else 20000
    rep.rule = (
        "%d expressions forced through constructs that push temporary contexts (context literals, filters, for/some/every, invocations, unary tests) plus an eighth as many constructs that are left through an error or early exit (repeated context keys, wrong arity / unknown or repeated named arguments, non-list domains, non-boolean conditions, failing ordering functions) and a sixteenth as many built-in calls over long lists (17-257 items; repeatability across a change of algorithm with the size) and a quarter as many filters over lists whose context elements carry entries named `item`, like variables in use or like names of the caller's scope, and the repository's own test and model expressions (unmutated), each parsed and evaluated 3x in scopes of 1-4 layers with the "
        "scope rendered before/after; %d histories of 200-2000 steps over 8 prepared evaluators x 4 long-lived scopes; successful parses through all six entry points; %d generated DMN models (boxed contexts, "
        "invocations, BKMs, services, tables) with every (invocable, input) pair called 3x interleaved in random order and once more on an evaluator built for that call alone; the repository's own example models (every invocable, three input contexts, each call repeated in random order and once alone); decision tables recognised from drawings evaluated twice over a caller's scope that holds more than their inputs. Distinct = (text | history | model call); non-trivial = evaluation produced a non-null value." % (n_expr, n_hist, n_models)
    )
    rep.assumptions = ["the scope's textual rendering (Display of the stack of contexts) is a faithful witness of its contents", "values depending on the current date (times of day in named zones) are not generated"]
    rng = rng_for(seed, "c13")
    # ---- 1. expressions: snapshot monitor -------------------------------------------------
    texts = gen_texts(rng, n_expr) + special_texts(rng, n_expr // 4) + error_texts(rng, n_expr // 8) + sized_texts(rng, n_expr // 16)
    # the repository's own expressions (string literals of its FEEL tests, <text> of its models), unmutated: every
    # built-in and construct the authors exercised, here under the scope and repeatability monitors. Texts that read the
    # clock or iterate beyond the property's bound are left out.
    import re as _re
    from props import c05 as _c05

    _skip = _re.compile(r"\b(now|today)\s*\(|\d{4,}[\s)]*\.\.|\.\.[\s(-]*\d{4,}|\d\s*\*\*\s*\d{3,}")
    own = [t for t in _c05.harvest() if not _skip.search(t) and len(t) < 600 and "\x00" not in t]
    rng.shuffle(own)
    own = own[: (4000 if tier == "quick" else len(own))]
    rep.extra["repository_expressions_monitored"] = len(own)
    texts += own
    cases = []
    for group in chunks(texts, 40):
        cases.append({"op": "evalmany", "scope": layered_scope(rng), "texts": group, "reps": 3})
    results, _ = runner.run_cases("dbg", cases, rep.workdir, label="expr")
    for case, res in zip(cases, results):
        _ok(res)
        if "rs" not in res:
            rep.violation(crash_signature(res, "c13-expr"), "batch died: %s" % json.dumps(res)[:300], {"variant": "dbg", "case": case})
            continue
        for t, r in zip(case["texts"], res["rs"]):
            rep.count()
            one = {"variant": "dbg", "case": {"op": "eval", "scope": case["scope"], "text": t, "reps": 3}}
            if "panic" in r:
                rep.violation(panic_signature(r["panic"]), "panic: %s" % t[:200], one)
                continue
            for key, what in (("impure_parse", "parsing changed the scope"), ("impure_eval", "evaluation changed the scope"), ("rep_diff", "repeated evaluation of the prepared evaluator gave another value")):
                if key in r:
                    rep.violation("%s:%s" % (key, _first_construct(t)), "%s: `%s`: %s" % (what, t[:200], json.dumps(r[key])[:400]), one)
            if r.get("v") is not None:
                rep.seen(t)
    rep.sample({"text": texts[0], "scope_layers": len(cases[0]["scope"])})
    # ---- 2. successful parses through every entry point ----------------------------------
    pcases = []
    unary = ["< 1, [2..3], \"a\"", "not(1, 2)", "-", "> na", "[na..nb]", "1, 2, 3"]
    ctxs = ["{a: 1, b: a + 1}", "{x: {y: 1}, z: x.y}", "{f: function(p) p, r: f(1)}"]
    for group in chunks(texts[: (3000 if tier == "quick" else 60000)], 60):
        sc = layered_scope(rng)
        for entry, tx in (("expr", group), ("textual", group), ("textuals", [", ".join(group[:3])] + group[:10]), ("boxed", group[:10] + ctxs), ("context", ctxs), ("unary", unary)):
            pcases.append({"op": "parse", "entry": entry, "scope": sc, "texts": tx})
    presults, _ = runner.run_cases("dbg", pcases, rep.workdir, label="parse")
    n_ok = 0
    for case, res in zip(pcases, presults):
        _ok(res)
        if "asts" not in res:
            rep.violation(crash_signature(res, "c13-parse"), "batch died: %s" % json.dumps(res)[:300], {"variant": "dbg", "case": case})
            continue
        n_ok += sum(1 for a in res["asts"] if isinstance(a, str))
        rep.count(len(res["asts"]))
        for imp in res.get("impure_parse", []):
            rep.violation("impure_parse:entry=%s" % case["entry"], "successful parse (%s) changed the scope: `%s`: %s -> %s" % (case["entry"], imp[0][:200], imp[1][:200], imp[2][:200]), {"variant": "dbg", "case": {"op": "parse", "entry": case["entry"], "scope": case["scope"], "texts": [imp[0]]}})
    rep.extra["successful_parses_checked"] = n_ok
    # ---- 3. histories --------------------------------------------------------------------
    hcases = []
    for h in range(n_hist):
        evs = []
        pscope = layered_scope(rng)
        for t in gen_texts(rng, 6) + special_texts(rng, 2) + error_texts(rng, 2) + sized_texts(rng, 1):
            evs.append({"entry": "expr", "text": t, "scope": pscope})
        scopes = [layered_scope(rng) for _ in range(4)]
        # names of built-in functions: unbound in two of the scopes (the built-in applies), bound to a user-defined
        # function in the other two (the binding shadows the built-in); one prepared evaluator serves all four
        for name, fn, call in rng.sample(SHADOWS, 2):
            evs.append({"entry": "expr", "text": call, "scope": pscope if rng.random() < 0.5 else scopes[2]})
            for sc in scopes[2:]:
                sc.append([[name, {"feel": fn}]])
        steps = [[rng.randrange(len(evs)), rng.randrange(4)] for _ in range(rng.choice([200, 500, 2000]))]
        hcases.append({"op": "history", "evaluators": evs, "scopes": scopes, "steps": steps})
    hresults, _ = runner.run_cases("dbg", hcases, rep.workdir, label="history", case_timeout=120)
    obs = reps = 0
    for case, res in zip(hcases, hresults):
        _ok(res)
        if "observations" not in res:
            if "panic" in res:
                rep.violation(panic_signature(res["panic"]), "panic in history", {"variant": "dbg", "case": case})
            else:
                rep.violation(crash_signature(res, "c13-history"), "history died: %s" % json.dumps(res)[:300], {"variant": "dbg", "case": case})
            continue
        obs += res["observations"]
        reps += res["repeats"]
        rep.count(res["observations"])
        for v in res["violations"][:5]:
            text = case["evaluators"][v["e"]]["text"]
            rep.violation("history:%s:%s" % (v["kind"], _first_construct(text)), "step %d: evaluator `%s` over scope %d: %s" % (v["step"], text[:200], v["s"], json.dumps(v)[:400]), {"variant": "dbg", "case": case})
        for p in res["prep"]:
            if isinstance(p, dict) and "impure_parse" in p:
                rep.violation("impure_parse:history", json.dumps(p)[:400], {"variant": "dbg", "case": case})
    rep.extra["history_observations"] = obs
    rep.extra["history_repeated_observations_compared"] = reps
    # ---- 4. models: repeated interleaved calls, input context untouched ------------------
    mcases, mmeta = [], []
    for k in range(n_models):
        g = gdrg.G(rng)
        m = g.model(k)
        invocables = [d["name"] for d in m["decisions"]] + [s["name"] for s in m["services"]]
        pairs = []
        for inv in invocables:
            for j in range(2):
                inp = {i["name"]: (rfeel.num(rng.choice(gdrg.NUMS)) if i["type"] == "number" else rng.choice(gdrg.STRS)) for i in m["inputs"]}
                pairs.append((inv, [[n, rfeel.to_json(v)] for n, v in inp.items()]))
        order = [p for p in range(len(pairs)) for _ in range(3)]
        rng.shuffle(order)
        mcases.append({"op": "model", "xml": gdrg.to_xml(m), "calls": [[pairs[p][0], pairs[p][1]] for p in order], "fresh": True})
        mmeta.append(order)
    mresults, _ = runner.run_cases("dbg", mcases, rep.workdir, label="models")
    mrep = 0
    for case, order, res in zip(mcases, mmeta, mresults):
        _ok(res)
        if "rs" not in res:
            if "crash" in res or "timeout" in res:
                rep.violation(crash_signature(res, "c13-model"), "model run died: %s" % json.dumps(res)[:300], {"variant": "dbg", "case": case})
            else:
                rep.undecided += 1  # model rejected: C04's subject
            continue
        first = {}
        for p, call, r in zip(order, case["calls"], res["rs"]):
            rep.count()
            if "panic" in r:
                rep.violation(panic_signature(r["panic"]) + ":model", "panic evaluating %s" % call[0], {"variant": "dbg", "case": case})
                continue
            if "fresh_diff" in r:
                rep.violation("model-result-depends-on-earlier-evaluations", "%s gave %s after other evaluations of the same evaluator and %s on an evaluator built for this call alone" % (call[0], json.dumps(r["fresh_diff"]["after_other_calls"])[:150], json.dumps(r["fresh_diff"]["alone"])[:150]), {"variant": "dbg", "case": case})
            if "input_changed" in r:
                rep.violation("model-input-context-changed", "evaluate_invocable(%s) changed the supplied input context: %s" % (call[0], json.dumps(r["input_changed"])[:300]), {"variant": "dbg", "case": case})
            v = json.dumps(r.get("v"), sort_keys=True)
            if p in first:
                mrep += 1
                if first[p] != v:
                    rep.violation("model-not-repeatable", "%s with the same input gave %s first and %s later" % (call[0], first[p][:200], v[:200]), {"variant": "dbg", "case": case})
            else:
                first[p] = v
                if r.get("v") is not None:
                    rep.seen(("model", case["xml"][:80], p))
    # ---- 4b. the repository's own example models: every invocable, three input contexts, each call made twice in
    # random order and once on an evaluator built for it alone ------------------------------
    from props import c20 as _c20

    scases, smeta = [], []
    for name, text, calls in _c20.corpus(rep):
        order = [p for p in range(len(calls)) for _ in range(2 if tier == "quick" else 3)]
        rng.shuffle(order)
        scases.append({"op": "model", "xml": text, "calls": [calls[p] for p in order], "fresh": True})
        smeta.append((name, order))
    sresults, _ = runner.run_cases("dbg", scases, rep.workdir, label="shipped", case_timeout=120)
    srep = 0
    for case, (name, order), res in zip(scases, smeta, sresults):
        _ok(res)
        if "rs" not in res:
            if "crash" in res or "timeout" in res:
                rep.violation(crash_signature(res, "c13-shipped-model"), "run over shipped model %s died: %s" % (name, json.dumps(res)[:300]), {"variant": "dbg", "case": case})
            continue
        first = {}
        for p, call, r in zip(order, case["calls"], res["rs"]):
            rep.count()
            if "panic" in r:
                continue  # totality of the shipped models under these inputs is C12's subject
            if "fresh_diff" in r:
                rep.violation("model-result-depends-on-earlier-evaluations:shipped", "%s of %s gave %s after other evaluations of the same evaluator and %s on an evaluator built for this call alone" % (call[0], name, json.dumps(r["fresh_diff"]["after_other_calls"])[:150], json.dumps(r["fresh_diff"]["alone"])[:150]), {"variant": "dbg", "case": case})
            if "input_changed" in r:
                rep.violation("model-input-context-changed:shipped", "evaluate_invocable(%s) of %s changed the supplied input context: %s" % (call[0], name, json.dumps(r["input_changed"])[:300]), {"variant": "dbg", "case": case})
            v = json.dumps(r.get("v"), sort_keys=True)
            if p in first:
                srep += 1
                if first[p] != v:
                    rep.violation("model-not-repeatable:shipped", "%s of %s with the same input gave %s first and %s later" % (call[0], name, first[p][:200], v[:200]), {"variant": "dbg", "case": case})
            else:
                first[p] = v
                if r.get("v") is not None:
                    rep.seen(("shipped", name, p))
    rep.extra["shipped_models"] = len(scases)
    rep.extra["shipped_model_repeated_calls_compared"] = srep
    rep.extra["model_repeated_calls_compared"] = mrep
    # ---- 5. decision-table evaluators over a caller's scope (recognised drawings) ----------
    import gdraw

    n_tables = 400 if tier == "quick" else 20000
    dcases = []
    for k in range(n_tables):
        t = gdraw.random_table(rng, marker=gdraw.MARKERS[k % len(gdraw.MARKERS)])
        t["tuples"] = gdraw.steer_inputs(t, rng, per_class=2)
        ctxs = [gdraw.input_context(t, tup) for tup, _ in t["tuples"]]
        try:
            text = gdraw.draw(t, "row" if k % 2 == 0 else "col", rng)
        except gdraw.NotDrawable:
            continue
        if isinstance(text, tuple):
            text = text[0]
        # the caller's scope holds more than the table's inputs
        ctxs = [c + [["zz unrelated", {"n": "1"}], ["item", {"s": "i"}]] for c in ctxs]
        dcases.append({"op": "dtext", "items": [{"text": text, "inputs": ctxs}]})
    dres, _ = runner.run_cases("dbg", dcases, rep.workdir, label="tables")
    tevals = 0
    for case, res in zip(dcases, dres):
        _ok(res)
        if "rs" not in res:
            rep.violation(crash_signature(res, "c13-table"), "decision table run died: %s" % json.dumps(res)[:300], {"variant": "dbg", "case": case})
            continue
        for rec in res["rs"][0].get("vs", []):
            rep.count()
            tevals += 1
            if "scope_changed" in rec:
                rep.violation("decision-table-evaluator-changed-the-scope", "evaluating a decision table changed the caller's scope: %s" % json.dumps(rec["scope_changed"])[:400], {"variant": "dbg", "case": case})
            if "rep_diff" in rec:
                rep.violation("decision-table-not-repeatable", "second evaluation of the same decision table evaluator differs: %s" % json.dumps(rec["rep_diff"])[:300], {"variant": "dbg", "case": case})
    rep.extra["decision_table_evaluations_over_a_caller_scope"] = tevals
    # ---- 6. parse histories on ONE scope object ------------------------------------------------
    # Texts are parsed and evaluated one after the other over one long-lived scope, with no re-binding in between; texts that
    # INTRODUCE local names (iteration variables, formal parameters, context keys - spelled like the first word of a built-in
    # or of a bound multi-word name, or like the join of two bound names) alternate with texts that USE those spellings.
    # Whatever a parse leaves behind on the scope object (or on the thread) that its rendering does not show changes how a later
    # text is read. Oracle: the same text over a fresh scope object with the same bindings, on a fresh thread.
    hb = [["a", {"n": "7"}], ["b", {"n": "5"}], [["date", "limit"], {"n": "3"}], [["string", "set"], [{"s": "q"}]], [["index", "base"], {"n": "1"}], ["xs", [{"n": "1"}, {"n": "2"}, {"n": "3"}]],
          [["years", "of", "service"], {"n": "4"}], [["time", "left"], {"n": "9"}], [["list", "size"], {"n": "2"}]]
    words = ["date", "string", "index", "years", "time", "list", "day", "month", "substring", "a-b", "a+b", "a*b", "a/b", "xs", "a", "sum", "count", "number", "not", "duration", "week"]
    intro = [
        "for %s in [1, 2] return %s", "some %s in [1, 2] satisfies %s = 2", "every %s in xs satisfies %s > 0", "(function(%s) %s)(4)", "{%s: 1, other: %s}.other",
        "for q in [1], %s in [3] return [q, %s]", "[{%s: 2}][%s > 1]", "(function(p, %s) [p, %s])(1, 2)", "for %s in 1..2 return %s * 2",
    ]
    users = [
        'date and time("2021-02-03T10:00:00")', 'date("2021-02-03")', 'string length("abc")', "index of([1, 2, 1], 1)", 'years and months duration(date("2020-01-01"), date("2021-03-01"))',
        'time("10:00:00")', "list contains([1, 2], 2)", "day of week(date(2021, 2, 3))", 'month of year(date("2021-02-03"))', 'substring("hello", 2)', 'substring before("hello", "l")', "a-b", "a - b", "a+b", "a*b", "a/b",
        "date limit + 1", "string set[1]", "index base * 2", "years of service - 1", "time left - a", "list size + b", "sum(xs)", "count(xs)", 'number("1", ".", ",")', "not(a > b)", 'duration("P1D")', 'week of year(date("2021-02-03"))',
        "xs[1] + a", "for i in xs return i + a", "a between b and 9", "{k: a}.k - b",
    ]
    n_ph = 300 if tier == "quick" else 12000
    phcases = []
    for k in range(n_ph):
        steps = []
        for j in range(rng.randint(4, 10)):
            if j % 2 == 0:
                w = rng.choice(words)
                # half of the introducers are parsed only (nothing is evaluated, so nothing is pushed onto the scope before the next parse)
                steps.append({"text": rng.choice(intro) % (w, w), "introduces": w, "parse_only": rng.random() < 0.5})
            else:
                steps.append({"text": rng.choice(users)})
        phcases.append({"op": "scopehist", "alone": True, "scope": [hb], "steps": steps})
    phres, _ = runner.run_cases("dbg", phcases, rep.workdir, label="parse-histories", case_timeout=120)
    ph_steps = ph_values = 0
    for case, res in zip(phcases, phres):
        _ok(res)
        if "rs" not in res:
            rep.violation(crash_signature(res, "c13-parse-history"), "parse history died: %s" % json.dumps(res)[:300], {"variant": "dbg", "case": case})
            continue
        last_intro = None
        for k, (st, r) in enumerate(zip(case["steps"], res["rs"])):
            rep.count()
            ph_steps += 1
            if r.get("v") is not None:
                ph_values += 1
                rep.seen(("parse-history", st["text"]))
            one = {"variant": "dbg", "case": dict(case, steps=case["steps"][: k + 1])}
            for flag in ("impure_parse", "impure_eval"):
                if flag in r:
                    rep.violation("history:%s" % flag, "`%s` changed the long-lived scope: %s" % (st["text"], json.dumps(r[flag])[:300]), one)
            if "alone_differs" in r:
                kind = "introducer" if "introduces" in st else "user"
                rep.violation(
                    "history:result-depends-on-earlier-parses:%s:after=%s" % (kind, (last_intro or "none").translate({ord(c): "_" for c in "+-*/"})),
                    "`%s` over a scope object that earlier texts were parsed over gave %s; over a fresh scope object with the same bindings it gives %s [earlier texts: %s]"
                    % (st["text"], json.dumps({x: r.get(x) for x in ("v", "perr", "berr") if x in r})[:200], json.dumps({x: r["alone_differs"].get(x) for x in ("v", "perr", "berr") if x in r["alone_differs"]})[:200], " ; ".join(x["text"] for x in case["steps"][:k])[:400]),
                    one,
                )
            if "introduces" in st:
                last_intro = st["introduces"]
    rep.extra["parse_history_steps_compared_with_a_fresh_scope"] = ph_steps
    rep.extra["parse_history_steps_with_a_value"] = ph_values
    if ph_values < ph_steps // 3:
        rep.inconclusive_reason("parse histories: only %d of %d steps gave a value" % (ph_values, ph_steps))
    if rep.evaluations < 10000 or reps < 1000 or mrep < 1000:
        rep.inconclusive_reason("too few observations (evaluations=%d, history repeats=%d, model repeats=%d)" % (rep.evaluations, reps, mrep))


def _first_construct(text):
    for kw in ("for ", "some ", "every ", "function", "{", "[", "if "):
        if kw in text:
            return kw.strip() or kw
    return "other"


def _ok(res):
    if "harness_error" in res or res.get("missing"):
        raise runner.Inconclusive("driver harness error: %s" % json.dumps(res)[:300])
