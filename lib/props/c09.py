"""C09 — three-valued logic, equality and ordering obey their laws (law checker, no external oracle).

Exhaustive over a value alphabet: all ordered pairs x 8 operators; all triples of each ordered kind
x (between, 4 bracket forms of `in`, explicit conjunctions); plus random values of each ordered kind.
"""
import json
import re
import os

import runner
from common import chunks, panic_signature, rng_for, warm

LEVEL = "exploration"

# (label, kind, value-json)
ALPHABET = [
    ("null", "null", None),
    ("true", "boolean", True),
    ("false", "boolean", False),
    ("n-1", "number", {"n": "-1"}),
    ("n0", "number", {"n": "0"}),
    ("n-0", "number", {"n": "-0"}),
    ("n1", "number", {"n": "1"}),
    ("n1.0", "number", {"n": "1.0"}),
    ("n1.00", "number", {"n": "1.00"}),
    ("n1e30", "number", {"n": "1E+30"}),
    ("n0.1", "number", {"n": "0.1"}),
    ("s-empty", "string", {"s": ""}),
    ("s-a", "string", {"s": "a"}),
    ("s-b", "string", {"s": "b"}),
    ("s-ab", "string", {"s": "ab"}),
    ("s-A", "string", {"s": "A"}),
    ("s-astral", "string", {"s": "\U0001F600"}),
    ("s-bmp", "string", {"s": "�"}),
    ("d-2021", "date", {"d": "2021-01-01"}),
    ("d-2021b", "date", {"d": "2021-01-02"}),
    ("d-2020leap", "date", {"d": "2020-02-29"}),
    ("d-0999", "date", {"feel": "date(999, 12, 31)"}),
    ("t-local", "time", {"t": "10:00:00"}),
    ("t-utc", "time", {"t": "10:00:00Z"}),
    ("t-off", "time", {"t": "12:00:00+02:00"}),
    ("t-zone", "time", {"t": "10:00:00@Europe/Warsaw"}),
    ("dt-local", "date and time", {"dt": "2021-01-01T10:00:00"}),
    ("dt-utc", "date and time", {"dt": "2021-01-01T10:00:00Z"}),
    ("dt-off", "date and time", {"dt": "2021-01-01T12:00:00+02:00"}),
    ("dt-zone", "date and time", {"dt": "2021-01-01T11:00:00@Europe/Warsaw"}),
    ("dtd-0", "days and time duration", {"dtd": "P0D"}),
    ("dtd-neg0", "days and time duration", {"dtd": "-P0D"}),
    ("dtd-1d", "days and time duration", {"dtd": "P1D"}),
    ("dtd-24h", "days and time duration", {"dtd": "PT24H"}),
    ("ymd-0", "years and months duration", {"ymd": "P0M"}),
    ("ymd-1y", "years and months duration", {"ymd": "P1Y"}),
    ("ymd-12m", "years and months duration", {"ymd": "P12M"}),
    ("l-empty", "list", []),
    ("l-1", "list", [{"n": "1"}]),
    ("l-12", "list", [{"n": "1"}, {"n": "2"}]),
    ("l-null", "list", [None]),
    ("l-nested", "list", [[{"n": "1"}], [{"n": "2"}]]),
    ("c-empty", "context", {"c": []}),
    ("c-a1", "context", {"c": [["a", {"n": "1"}]]}),
    ("c-anull", "context", {"c": [["a", None]]}),
    ("c-a1b2", "context", {"c": [["a", {"n": "1"}], ["b", {"n": "2"}]]}),
    ("c-anullb1", "context", {"c": [["a", None], ["b", {"n": "1"}]]}),
    ("r-12", "range", {"r": [{"n": "1"}, True, {"n": "2"}, True]}),
    ("r-12open", "range", {"r": [{"n": "1"}, False, {"n": "2"}, False]}),
    ("f-def", "function", {"feel": "function(x) x + 1"}),
    ("f-bif", "function", {"feel": "abs"}),
]

OPS = ["and", "or", "=", "!=", "<", "<=", ">", ">="]
ORDERED = ("number", "string", "date")


def tri(v):
    return v if isinstance(v, bool) else None


def and3(a, b):
    a, b = tri(a), tri(b)
    if a is False or b is False:
        return False
    if a is True and b is True:
        return True
    return None


def or3(a, b):
    a, b = tri(a), tri(b)
    if a is True or b is True:
        return True
    if a is False and b is False:
        return False
    return None


def not3(a):
    a = tri(a)
    return None if a is None else (not a)


def as_tv(res):
    """driver result -> True/False/None(null)/('other', json); raises KeyError for no observation."""
    v = res["v"]
    if v is None or isinstance(v, bool):
        return v
    return ("other", json.dumps(v, sort_keys=True))


def scope_for(values):
    return [[["v%d" % k, val] for k, val in enumerate(values)]]


def random_values(kind, rng, n):
    out = []
    for _ in range(n):
        if kind == "number":
            choice = rng.random()
            if choice < 0.3:
                out.append({"n": str(rng.randint(-5, 5))})
            elif choice < 0.6:
                digits = rng.randint(1, 34)
                coeff = str(rng.randint(1, 10 ** digits - 1))
                out.append({"n": "%s%sE%d" % ("-" if rng.random() < 0.5 else "", coeff, rng.randint(-40, 40))})
            else:
                # same value, different scales
                base = rng.randint(-3, 3)
                out.append({"n": "%d.%s" % (base, "0" * rng.randint(1, 5))})
        elif kind == "string":
            alphabet = ["a", "b", "A", "Z", " ", "é", "中", "\U0001F600", "�", "0", "~"]
            out.append({"s": "".join(rng.choice(alphabet) for _ in range(rng.randint(0, 4)))})
        elif kind == "date":
            y = rng.choice([rng.randint(1000, 9999), rng.randint(1990, 2030), rng.randint(10000, 200000)])
            m = rng.randint(1, 12)
            d = rng.randint(1, 28)
            out.append({"d": "%04d-%02d-%02d" % (y, m, d)})
    return out


def run(rep, tier, seed):
    rep.rule = (
        "exhaustive: every ordered pair of the %d-value alphabet x 8 operators (and, or, =, !=, <, <=, >, >=); every triple "
        "of each ordered kind (number, string, date) x {between, in [..], in (..], in [..), in (..), explicit comparisons}; "
        "plus seeded random pairs/triples of each ordered kind. A case is distinct by its (operator, operand labels) and "
        "non-trivial when at least one operand is not null." % len(ALPHABET)
    )
    rep.assumptions = [
        "values are bound to names in the scope programmatically; expressions are `a op b` parsed and evaluated by the real code",
        "no external oracle: each law is checked between results the implementation itself returned",
    ]
    labels = [a[0] for a in ALPHABET]
    kinds = [a[1] for a in ALPHABET]
    values = [a[2] for a in ALPHABET]
    n = len(ALPHABET)
    scope = scope_for(values)
    # ---------- pairs ----------
    cases = []
    meta = []
    for i in range(n):
        for js in chunks(list(range(n)), 13):
            texts = []
            for j in js:
                for op in OPS:
                    texts.append("v%d %s v%d" % (i, op, j))
            cases.append(warm({"op": "evalmany", "scope": scope, "texts": texts}))
            meta.append((i, js))
    results, _ = runner.run_cases("dbg", cases, rep.workdir, label="pairs")
    table = {}
    for (i, js), res in zip(meta, results):
        _harness_ok(res)
        if "rs" not in res:
            rep.violation(_crash_sig(res), "pair batch died: i=%s js=%s: %s" % (labels[i], js, json.dumps(res)[:400]), {"variant": "dbg", "case": cases[meta.index((i, js))]})
            continue
        k = 0
        for j in js:
            for op in OPS:
                r = res["rs"][k]
                k += 1
                rep.count()
                if "rep_diff" in r:
                    rep.violation("repeated-evaluation-differs:op=%s" % op, "`%s %s %s` evaluated twice by one prepared evaluator over the same scope: %s" % (labels[i], op, labels[j], json.dumps(r["rep_diff"])[:300]), _replay(scope, "v%d %s v%d" % (i, op, j), None, r))
                if "panic" in r:
                    rep.violation(
                        "%s:op=%s:lhs=%s,rhs=%s" % (panic_signature(r["panic"]), op, kinds[i], kinds[j]),
                        "panic evaluating `%s %s %s`: %s" % (labels[i], op, labels[j], r["panic"].get("msg")),
                        _replay(scope, "v%d %s v%d" % (i, op, j), None, r),
                    )
                    continue
                if "v" not in r:
                    rep.violation("no-value:op=%s:lhs=%s,rhs=%s" % (op, kinds[i], kinds[j]), "`%s %s %s` did not evaluate: %s" % (labels[i], op, labels[j], json.dumps(r)[:300]), _replay(scope, "v%d %s v%d" % (i, op, j), None, r))
                    continue
                table[(i, op, j)] = as_tv(r)
                if values[i] is not None or values[j] is not None:
                    rep.seen((op, labels[i], labels[j]))
    rep.sample({"expression": "v3 = v0", "bindings": {"v3": values[3], "v0": values[0]}, "observed": _show(table.get((3, "=", 0)))})
    rep.sample({"expression": "v12 < v13", "bindings": {"v12": values[12], "v13": values[13]}, "observed": _show(table.get((12, "<", 13)))})
    pair_laws = 0
    for i in range(n):
        for j in range(n):
            def get(op, a=i, b=j):
                return table.get((a, op, b), "missing")

            def bad(law, detail, text):
                rep.violation("%s:lhs=%s,rhs=%s" % (law, kinds[i], kinds[j]), detail, _replay(scope, text, None, None))

            li, lj = labels[i], labels[j]
            # and / or truth tables, non-boolean counts as null
            if get("and") != "missing":
                pair_laws += 1
                want = and3(values[i] if isinstance(values[i], bool) else None, values[j] if isinstance(values[j], bool) else None)
                if get("and") != want:
                    bad("and-table", "`%s and %s` gave %s, three-valued table says %s" % (li, lj, _show(get("and")), _show(want)), "v%d and v%d" % (i, j))
            if get("or") != "missing":
                pair_laws += 1
                want = or3(values[i] if isinstance(values[i], bool) else None, values[j] if isinstance(values[j], bool) else None)
                if get("or") != want:
                    bad("or-table", "`%s or %s` gave %s, three-valued table says %s" % (li, lj, _show(get("or")), _show(want)), "v%d or v%d" % (i, j))
            # symmetry of equality
            if get("=") != "missing" and get("=", j, i) != "missing":
                pair_laws += 1
                if get("=") != get("=", j, i):
                    bad("eq-asymmetry", "`%s = %s` gave %s but `%s = %s` gave %s" % (li, lj, _show(get("=")), lj, li, _show(get("=", j, i))), "v%d = v%d" % (i, j))
            # != is the negation of =
            if get("=") != "missing" and get("!=") != "missing":
                pair_laws += 1
                if get("!=") != not3(get("=")) or not _is_tv(get("=")):
                    bad("neq-not-negation", "`%s = %s` gave %s but `%s != %s` gave %s" % (li, lj, _show(get("=")), li, lj, _show(get("!="))), "v%d != v%d" % (i, j))
            # mirror laws
            for a, b, law in (("<", ">", "lt-gt-mirror"), ("<=", ">=", "le-ge-mirror")):
                if get(a) != "missing" and get(b, j, i) != "missing":
                    pair_laws += 1
                    if get(a) != get(b, j, i):
                        bad(law, "`%s %s %s` gave %s but `%s %s %s` gave %s" % (li, a, lj, _show(get(a)), lj, b, li, _show(get(b, j, i))), "v%d %s v%d" % (i, a, j))
            # ordered kinds: trichotomy and <= definition
            if kinds[i] == kinds[j] and kinds[i] in ORDERED:
                obs = [get("<"), get("="), get(">")]
                if "missing" not in obs:
                    pair_laws += 1
                    if sum(1 for o in obs if o is True) != 1 or any(o not in (True, False) for o in obs):
                        bad("trichotomy", "for %s, %s: < = > gave %s" % (li, lj, [_show(o) for o in obs]), "v%d < v%d" % (i, j))
                if "missing" not in (get("<="), get("<"), get("=")):
                    pair_laws += 1
                    if get("<=") != or3(get("<"), get("=")):
                        bad("le-definition", "`%s <= %s` gave %s but (< or =) is %s" % (li, lj, _show(get("<=")), _show(or3(get("<"), get("=")))), "v%d <= v%d" % (i, j))
                if "missing" not in (get(">="), get(">"), get("=")):
                    pair_laws += 1
                    if get(">=") != or3(get(">"), get("=")):
                        bad("ge-definition", "`%s >= %s` gave %s but (> or =) is %s" % (li, lj, _show(get(">=")), _show(or3(get(">"), get("=")))), "v%d >= v%d" % (i, j))
    rep.extra["pair_laws_checked"] = pair_laws
    rep.extra["alphabet_size"] = n
    # ---------- triples of one ordered kind ----------
    triple_sets = []
    for kind in ORDERED:
        vals = [(labels[k], values[k]) for k in range(n) if kinds[k] == kind]
        triple_sets.append((kind, "alphabet", vals))
    rng = rng_for(seed, "c09-random")
    n_random_sets = 6 if tier == "quick" else 120
    for kind in ORDERED:
        for s in range(n_random_sets):
            vals = random_values(kind, rng, 7)
            triple_sets.append((kind, "random%d" % s, [("%s#%d" % (json.dumps(v, ensure_ascii=True), k), v) for k, v in enumerate(vals)]))
    tcases = []
    tmeta = []
    FORMS = [
        ("between", "v{x} between v{a} and v{b}"),
        ("in[]", "v{x} in [v{a}..v{b}]"),
        ("in(]", "v{x} in (v{a}..v{b}]"),
        ("in[)", "v{x} in [v{a}..v{b})"),
        ("in()", "v{x} in (v{a}..v{b})"),
        ("le-le", "v{a} <= v{x} and v{x} <= v{b}"),
        ("lt-le", "v{a} < v{x} and v{x} <= v{b}"),
        ("le-lt", "v{a} <= v{x} and v{x} < v{b}"),
        ("lt-lt", "v{a} < v{x} and v{x} < v{b}"),
    ]
    # the same interval forms with one end point written as a LITERAL (a prepared interval must still read its other,
    # named end point at every evaluation)
    LIT_FORMS = [("in[lit..]", "v{x} in [{A}..v{b}]"), ("in[..lit]", "v{x} in [v{a}..{B}]"), ("between-lit", "v{x} between {A} and v{b}"), ("in(lit..]", "v{x} in ({A}..v{b}]"), ("in[..lit)", "v{x} in [v{a}..{B})")]
    FORMS = FORMS + LIT_FORMS

    def lit_of(v):
        if isinstance(v, dict) and "n" in v and re.fullmatch(r"\d+(\.\d+)?", v["n"]):
            return v["n"]
        if isinstance(v, dict) and "s" in v and all(0x20 <= ord(ch) < 0x7F and ch not in '"\\' for ch in v["s"]):
            return '"%s"' % v["s"]
        if isinstance(v, dict) and "d" in v and re.fullmatch(r"\d{4}-\d\d-\d\d", v["d"]):
            return 'date("%s")' % v["d"]
        return None

    for kind, origin, vals in triple_sets:
        m = len(vals)
        sc = scope_for([v for _, v in vals])
        lits = [lit_of(v) for _, v in vals]
        for x in range(m):
            texts = []
            idx = []
            for a in range(m):
                for b in range(m):
                    for fname, form in FORMS:
                        if "{A}" in form or "{B}" in form:
                            # no literal spelling for this end point: the all-names form stands in (the law then holds trivially)
                            alt = {"in[lit..]": "in[]", "in[..lit]": "in[]", "between-lit": "between", "in(lit..]": "in(]", "in[..lit)": "in[)"}[fname]
                            if ("{A}" in form and lits[a] is None) or ("{B}" in form and lits[b] is None):
                                texts.append(dict(FORMS)[alt].format(x=x, a=a, b=b))
                            else:
                                texts.append(form.replace("{A}", lits[a] or "").replace("{B}", lits[b] or "").format(x=x, a=a, b=b))
                        else:
                            texts.append(form.format(x=x, a=a, b=b))
                    idx.append((a, b))
            tcases.append(warm({"op": "evalmany", "scope": sc, "texts": texts}))
            tmeta.append((kind, origin, vals, x, idx))
    tresults, _ = runner.run_cases("dbg", tcases, rep.workdir, label="triples")
    triple_laws = 0
    sampled = False
    for (kind, origin, vals, x, idx), res, case in zip(tmeta, tresults, tcases):
        _harness_ok(res)
        if "rs" not in res:
            rep.violation(_crash_sig(res), "triple batch died: %s" % json.dumps(res)[:400], {"variant": "dbg", "case": case})
            continue
        k = 0
        for a, b in idx:
            obs = {}
            ftext = {}
            for fname, form in FORMS:
                r = res["rs"][k]
                ftext[fname] = case["texts"][k]
                k += 1
                rep.count()
                if "rep_diff" in r:
                    rep.violation("repeated-evaluation-differs:form=%s" % fname, "`%s` evaluated twice by one prepared evaluator over the same scope: %s" % (ftext[fname], json.dumps(r["rep_diff"])[:300]), {"variant": "dbg", "case": {"op": "eval", "scope": case["scope"], "warm_scope": case.get("warm_scope"), "reps": 2, "text": ftext[fname]}})
                if "panic" in r:
                    rep.violation("%s:form=%s:kind=%s" % (panic_signature(r["panic"]), fname, kind), "panic in %s" % ftext[fname], {"variant": "dbg", "case": {"op": "eval", "scope": case["scope"], "text": ftext[fname]}})
                    obs[fname] = "missing"
                elif "v" not in r:
                    rep.violation("no-value:form=%s:kind=%s" % (fname, kind), "no value: %s" % json.dumps(r)[:300], {"variant": "dbg", "case": {"op": "eval", "scope": case["scope"], "text": ftext[fname]}})
                    obs[fname] = "missing"
                else:
                    obs[fname] = as_tv(r)
            rep.seen(("triple", kind, vals[x][0], vals[a][0], vals[b][0]))
            if not sampled:
                rep.sample({"triple": [vals[x][1], vals[a][1], vals[b][1]], "observed": {f: _show(o) for f, o in obs.items()}})
                sampled = True
            pairs = [("in[lit..]", "le-le", "in-closed-literal-start-vs-comparisons"), ("in[..lit]", "le-le", "in-closed-literal-end-vs-comparisons"), ("between-lit", "le-le", "between-literal-vs-comparisons"),
                     ("in(lit..]", "lt-le", "in-open-literal-start-vs-strict"), ("in[..lit)", "le-lt", "in-open-literal-end-vs-strict"), ("between", "le-le", "between-vs-comparisons"), ("in[]", "le-le", "in-closed-vs-comparisons"), ("between", "in[]", "between-vs-in"), ("in(]", "lt-le", "in-open-start-vs-strict"), ("in[)", "le-lt", "in-open-end-vs-strict"), ("in()", "lt-lt", "in-open-vs-strict")]
            for f1, f2, law in pairs:
                if obs[f1] == "missing" or obs[f2] == "missing":
                    continue
                triple_laws += 1
                if obs[f1] != obs[f2]:
                    text = ftext[f1]
                    rep.violation(
                        "%s:kind=%s" % (law, kind),
                        "x=%s a=%s b=%s: `%s` gave %s but `%s` gave %s" % (vals[x][0], vals[a][0], vals[b][0], f1, _show(obs[f1]), f2, _show(obs[f2])),
                        {"variant": "dbg", "case": {"op": "evalmany", "scope": case["scope"], "texts": [text, ftext[f2]]}},
                    )
    rep.extra["triple_laws_checked"] = triple_laws
    rep.extra["exhaustive"] = True
    rep.extra["random_value_sets_per_kind"] = n_random_sets
    if pair_laws < 5000 or triple_laws < 1000:
        rep.inconclusive_reason("too few laws checked (pairs=%d, triples=%d)" % (pair_laws, triple_laws))


def _harness_ok(res):
    if "harness_error" in res or res.get("missing"):
        raise runner.Inconclusive("driver reported a harness error: %s" % json.dumps(res)[:300])


def _is_tv(x):
    return x is None or isinstance(x, bool)


def _show(x):
    if x == "missing":
        return "<no observation>"
    if x is None:
        return "null"
    if isinstance(x, bool):
        return "true" if x else "false"
    return str(x)


def _replay(scope, text, expected, observed):
    return {"variant": "dbg", "case": {"op": "eval", "scope": scope, "text": text}, "expected": expected, "observed": observed}


def _crash_sig(res):
    from common import crash_signature

    return crash_signature(res, "c09-batch")
