"""C01 — FEEL core expressions evaluate to the value the FEEL semantics assigns.

Oracle: R-FEEL (lib/rfeel.py) on the generator's own tree; plus the metamorphic pair (minimal scope
vs. scope padded with unrelated names and extra context layers). See DESIGN.md §3 C01.
"""
import json

import gfeel
import rfeel
import runner
from common import crash_signature, panic_signature, rng_for, warm

LEVEL = "exploration"

BATCH = 24


def free_vars(e, bound=frozenset()):
    """free names of a tree (names not bound by an enclosing construct)"""
    t = e[0]
    out = set()
    if t == "name":
        return set() if e[1] in bound else {e[1]}
    if t in ("num", "str", "bool", "null"):
        return out
    if t == "ctx":
        b = set(bound)
        for k, v in e[1]:
            out |= free_vars(v, frozenset(b))
            b.add(k)
        return out
    if t == "filter":
        out |= free_vars(e[1], bound)
        out |= free_vars(e[2], frozenset(set(bound) | {"item", "a", "b", "c", "d"})) if e[3] == "pred" else free_vars(e[2], bound)
        return out
    if t == "for":
        b = set(bound)
        for n, d in e[1]:
            for x in d[1:]:
                out |= free_vars(x, bound)
        for n, d in e[1]:
            b.add(n)
        out |= free_vars(e[2], frozenset(b))
        return out
    if t in ("some", "every"):
        b = set(bound)
        for n, d in e[1]:
            out |= free_vars(d, bound)
            b.add(n)
        out |= free_vars(e[2], frozenset(b))
        return out
    if t == "fundef":
        return free_vars(e[2], frozenset(set(bound) | set(e[1])))
    if t == "callnamed":
        out |= free_vars(e[1], bound)
        for n, a in e[2]:
            out |= free_vars(a, bound)
        return out
    if t == "in_ut":
        out |= free_vars(e[1], bound)
        for u in e[2]:
            out |= free_vars(u[-1], bound)
        return out
    for x in e[1:]:
        if isinstance(x, tuple) and x and isinstance(x[0], str) and x[0] in gfeel.CONSTRUCTS:
            out |= free_vars(x, bound)
        elif isinstance(x, list):
            for y in x:
                if isinstance(y, tuple) and y and isinstance(y[0], str) and y[0] in gfeel.CONSTRUCTS:
                    out |= free_vars(y, bound)
    return out


def subtrees(e):
    """all sub-expressions (proper and improper), outermost first"""
    out = [e]
    t = e[0]
    kids = []
    if t == "ctx":
        kids = [v for _, v in e[1]]
    elif t == "for":
        for n, d in e[1]:
            kids += list(d[1:])
        kids.append(e[2])
    elif t in ("some", "every"):
        kids = [d for _, d in e[1]] + [e[2]]
    elif t == "fundef":
        kids = [e[2]]
    elif t == "call":
        kids = [e[1]] + list(e[2])
    elif t == "callnamed":
        kids = [e[1]] + [a for _, a in e[2]]
    elif t == "in_ut":
        kids = [e[1]] + [u[-1] for u in e[2]]
    elif t == "list":
        kids = list(e[1])
    else:
        kids = [x for x in e[1:] if isinstance(x, tuple) and x and isinstance(x[0], str) and x[0] in gfeel.CONSTRUCTS]
    for k in kids:
        out += subtrees(k)
    return out


def shape(e):
    """construct of the node plus the constructs of its direct operands: the failure's shape"""
    t = e[0]
    kids = []
    for x in subtrees(e)[1:]:
        pass
    direct = []
    if t == "ctx":
        direct = [v[0] for _, v in e[1]]
    elif t == "for":
        direct = [d[0] for _, d in e[1]] + [e[2][0]]
    elif t in ("some", "every"):
        direct = [d[0] for _, d in e[1]] + [e[2][0]]
    elif t == "list":
        direct = [x[0] for x in e[1]]
    elif t in ("call", "callnamed"):
        direct = [e[1][0], "args%d" % len(e[2])]
    elif t == "cmp":
        direct = [e[1], e[2][0], e[3][0]]
    elif t == "filter":
        direct = [e[1][0], e[3]]
    elif t == "in_ut":
        direct = [e[1][0]] + [u[0] for u in e[2]]
    else:
        direct = [x[0] for x in e[1:] if isinstance(x, tuple) and x and isinstance(x[0], str)]
    seen = []
    for dname in direct:
        if dname not in seen:
            seen.append(dname)
    return "%s(%s)" % (t, ",".join(seen[:4]))


def evaluate_ref(tree, frames):
    rfeel.EVENTS.clear()
    try:
        return ("ok", rfeel.ev(tree, frames))
    except rfeel.Undecided as u:
        return ("undecided", str(u))
    except RecursionError:
        return ("undecided", "recursion")


def run(rep, tier, seed):
    # paths to the entries every generated context has (a, b) are written `name.entry`, without parentheses, so that what
    # follows the entry name is an operator or a keyword (where the entry name ends depends on the scope the text is parsed
    # under). Entries that may be missing keep their parentheses: an UNKNOWN entry name followed by a word is outside the
    # bound-names fragment of the statement (the lexer extends it over the following words).
    rfeel.TIGHT_PATHS = ("a", "b")
    n_random = 60000 if tier == "quick" else 1500000
    per_pair = 6 if tier == "quick" else 60
    rep.rule = (
        "typed random expressions of the core fragment (depth <= 5) over scopes binding 17 free names to numbers, strings, booleans, nulls, lists, "
        "contexts and functions, plus the construct x construct matrix (every construct forced into an operand of every other, %d attempts per ordered pair); "
        "each text is evaluated in the minimal scope and in a scope padded with unrelated names and extra context layers. A case is distinct by its "
        "expression text + scope values and non-trivial when its tree has at least two constructs." % per_pair
    )
    rep.assumptions = [
        "R-FEEL (lib/rfeel.py) is my reading of DMN 1.3 §10.3.2 restricted to an unambiguous fragment; contested constructs raise Undecided and are only counted",
        "free names are bound programmatically (Name/Value pairs), the lexer is not involved in binding them",
    ]
    rng = rng_for(seed, "c01")
    items = []  # (tree, frames, origin)
    # construct x construct matrix
    for outer in gfeel.CONSTRUCTS:
        for inner in gfeel.CONSTRUCTS:
            for k in range(per_pair):
                g = gfeel.Gen(rng, max_depth=3, wrong_rate=0.02)
                g.force = [outer, inner]
                ty = rng.choice([t for t, can in gfeel.Gen.CAN.items() if outer in can] or ["any"])
                tree = g.gen(ty, 0)
                items.append((tree, None, "matrix"))
    for k in range(n_random):
        g = gfeel.Gen(rng, max_depth=rng.choice([2, 3, 4, 5]), wrong_rate=rng.choice([0.0, 0.05, 0.12]))
        tree = g.gen(g.pick_type() if rng.random() < 0.9 else "any", 0)
        items.append((tree, None, "random"))
    # group into batches sharing one scope
    cases = []
    meta = []
    singles, pairs = set(), set()
    for start in range(0, len(items), BATCH):
        chunk = items[start : start + BATCH]
        g = gfeel.Gen(rng)
        frames = g.scope()
        texts = []
        for tree, _, origin in chunk:
            texts.append(rfeel.render(tree))
            gfeel.constructs_in(tree, singles, pairs)
        cases.append(warm({"op": "evalmany", "scope": g.scope_json(frames), "texts": texts, "reps": 2}))
        cases.append(warm({"op": "evalmany", "scope": g.scope_json(frames, pad=True), "texts": texts}))
        meta.append((chunk, frames))
    results, _ = runner.run_cases("dbg", cases, rep.workdir, label="eval")
    mismatches = []
    kinds_seen = set()
    for b, (chunk, frames) in enumerate(meta):
        ra, rb = results[2 * b], results[2 * b + 1]
        for res in (ra, rb):
            if "harness_error" in res or res.get("missing"):
                raise runner.Inconclusive("driver harness error: %s" % json.dumps(res)[:300])
        if "rs" not in ra or "rs" not in rb:
            bad = ra if "rs" not in ra else rb
            rep.violation(crash_signature(bad, "c01-batch"), "batch died: %s" % json.dumps(bad)[:500], {"variant": "dbg", "case": cases[2 * b]})
            continue
        for k, (tree, _, origin) in enumerate(chunk):
            text = cases[2 * b]["texts"][k]
            oa, ob = ra["rs"][k], rb["rs"][k]
            rep.count()
            single_case = {"op": "eval", "scope": cases[2 * b]["scope"], "text": text}
            if "panic" in oa or "panic" in ob:
                p = oa.get("panic") or ob.get("panic")
                rep.violation(panic_signature(p) + ":" + shape(tree), "panic evaluating `%s`: %s" % (text, p.get("msg")), {"variant": "dbg", "case": single_case})
                continue
            if "perr" in oa or "berr" in oa:
                rep.violation("rejected:%s" % shape(tree), "well-formed expression rejected: `%s`: %s" % (text, oa.get("perr") or oa.get("berr")), {"variant": "dbg", "case": single_case})
                continue
            for key in ("impure_parse", "impure_eval", "rep_diff"):
                if key in oa:
                    rep.violation("%s:%s" % (key, shape(tree)), "`%s`: %s" % (text, json.dumps(oa[key])[:400]), {"variant": "dbg", "case": single_case})
            if "v" not in oa or "v" not in ob:
                rep.violation("no-value:%s" % shape(tree), "no value for `%s`: %s" % (text, json.dumps(oa)[:300]), {"variant": "dbg", "case": single_case})
                continue
            # metamorphic: unrelated bindings and extra layers must not matter
            if json.dumps(oa["v"], sort_keys=True) != json.dumps(ob["v"], sort_keys=True):
                rep.violation(
                    "depends-on-unrelated-bindings:%s" % shape(tree),
                    "`%s` gave %s in the minimal scope but %s in the padded scope" % (text, json.dumps(oa["v"])[:200], json.dumps(ob["v"])[:200]),
                    {"variant": "dbg", "case": {"op": "evalmany", "scope": cases[2 * b + 1]["scope"], "texts": [text]}, "expected": oa["v"], "observed": ob["v"]},
                )
            if rfeel.kind_of_json(oa["v"]) == "non-finite":
                rep.violation("non-finite:%s" % shape(tree), "`%s` produced %s" % (text, oa["v"]), {"variant": "dbg", "case": single_case})
                continue
            st, exp = evaluate_ref(tree, frames)
            if st == "undecided":
                rep.undecided += 1
                rep.bump("undecided:" + exp.split(" (")[0][:60])
                continue
            s1, _ = gfeel.constructs_in(tree)
            if len(s1) >= 2:
                rep.seen(text + "|" + str(b))
            kinds_seen.add(rfeel.kind(exp))
            if len(rep.samples) < 4 and origin == "random" and len(text) < 160:
                rep.sample({"text": text, "expected": rfeel.show(exp), "observed": oa["v"]})
            if not rfeel.same(exp, oa["v"]):
                ev_events = sorted(rfeel.EVENTS)
                if ev_events:
                    # root cause visible to the reference: an empty iteration domain next to a non-empty one
                    for evn in ev_events:
                        rep.violation("value:%s" % evn, "`%s` evaluated to %s, FEEL semantics gives %s (an empty domain must empty the cartesian product)" % (text[:300], json.dumps(oa["v"])[:200], rfeel.show(exp)[:200]), {"variant": "dbg", "case": single_case, "expected": rfeel.show(exp), "observed": oa})
                else:
                    mismatches.append((tree, frames, cases[2 * b]["scope"], text, exp, oa))
    # ---- minimise each mismatch to its smallest closed mismatching sub-expression ----
    todo = mismatches[:400]
    mcases = []
    mmeta = []
    for tree, frames, scope_json, text, exp, oa in todo:
        subs = []
        for s in subtrees(tree):
            if not free_vars(s) - set(gfeel.FREE):
                subs.append(s)
        subs = subs[:40]
        mcases.append({"op": "evalmany", "scope": scope_json, "texts": [rfeel.render(s) for s in subs]})
        mmeta.append(subs)
    mres, _ = runner.run_cases("dbg", mcases, rep.workdir, label="minimise") if mcases else ([], None)
    for (tree, frames, scope_json, text, exp, oa), subs, res in zip(todo, mmeta, mres):
        best = (tree, exp, oa.get("v"))
        if "rs" in res:
            for s, o in zip(subs, res["rs"]):
                if "v" not in o:
                    continue
                st, e2 = evaluate_ref(s, frames)
                if st != "ok":
                    continue
                if not rfeel.same(e2, o["v"]) and len(rfeel.render(s)) < len(rfeel.render(best[0])):
                    best = (s, e2, o["v"])
        s, e2, ov = best
        stext = rfeel.render(s)
        sig = "value:%s:expected=%s,observed=%s" % (shape(s), rfeel.kind(e2), rfeel.kind_of_json(ov))
        rep.violation(sig, "`%s` evaluated to %s, FEEL semantics gives %s (found inside `%s`)" % (stext, json.dumps(ov)[:300], rfeel.show(e2)[:300], text[:300]), {"variant": "dbg", "case": {"op": "eval", "scope": scope_json, "text": stext}, "expected": rfeel.show(e2), "observed": {"v": ov}})
    for tree, frames, scope_json, text, exp, oa in mismatches[400:]:
        sig = "value:%s:expected=%s,observed=%s" % (shape(tree), rfeel.kind(exp), rfeel.kind_of_json(oa.get("v")))
        rep.violation(sig, "`%s` evaluated to %s, FEEL semantics gives %s" % (text[:300], json.dumps(oa.get("v"))[:300], rfeel.show(exp)[:300]), {"variant": "dbg", "case": {"op": "eval", "scope": scope_json, "text": text}})
    rep.extra["constructs_covered"] = sorted(singles)
    rep.extra["construct_pairs_covered"] = len(pairs)
    rep.extra["construct_pairs_possible"] = len(gfeel.CONSTRUCTS) ** 2
    rep.extra["result_kinds_seen"] = sorted(kinds_seen)
    rep.extra["mismatching_cases"] = len(mismatches)
    if rep.evaluations < 5000:
        rep.inconclusive_reason("too few evaluations: %d" % rep.evaluations)
