"""C18 — the HTTP service always answers well-formed JSON reflecting the workspace.

The REAL service (`dmntk_server::start_server`, built from the working tree) is started by driver op
`serve` on loopback ports, one service per shard. This module drives seeded request histories against
the services (http.client for well-formed requests, raw sockets for malformed framing) and judges
every response:
  * body parses with a STRICT JSON parser (no NaN/Infinity, no duplicate keys, no raw control characters);
  * results of echo decisions decode to the value sent (/evaluate) / round-trip typed (/tck/evaluate);
  * definitions and evaluate endpoints follow lib/wsmodel.py driven by the same request sequence;
  * after every malformed request, valid probe requests (workers + 4 fresh connections) are answered.
"""
import base64
import http.client
import json
import os
import re
import socket
import threading
import time
from decimal import Decimal

import runner
import wsmodel
import xmlvar
from common import rng_for, sanitize_sig
from wsmodel import ALPHABET, WsModel, Model

LEVEL = "exploration"

HOST = "127.0.0.1"
TIMEOUT = 10.0  # bounded wait for any single answer


# ---------------------------------------------------------------------------------------------------
# strict JSON
# ---------------------------------------------------------------------------------------------------
class NotStrictJson(Exception):
    pass


def _no_constant(name):
    raise NotStrictJson("constant %s is not JSON" % name)


def _no_dup(pairs):
    d = {}
    for k, v in pairs:
        if k in d:
            raise NotStrictJson("duplicate key %r" % k)
        d[k] = v
    return d


def strict_loads(body):
    try:
        text = body.decode("utf-8")
    except UnicodeDecodeError as e:
        raise NotStrictJson("body is not UTF-8: %s" % e)
    try:
        return json.loads(text, parse_constant=_no_constant, object_pairs_hook=_no_dup, parse_float=Decimal, parse_int=Decimal)
    except NotStrictJson:
        raise
    except (ValueError, RecursionError) as e:
        raise NotStrictJson(str(e))


# ---------------------------------------------------------------------------------------------------
# HTTP client
# ---------------------------------------------------------------------------------------------------
class Resp:
    __slots__ = ("status", "ctype", "body", "failure")

    def __init__(self, status=None, ctype=None, body=b"", failure=None):
        self.status, self.ctype, self.body, self.failure = status, ctype, body, failure

    def brief(self):
        if self.failure:
            return "<%s>" % self.failure
        return "%s %s %r" % (self.status, self.ctype, self.body[:300])


def http_request(port, method, path, body=None, ctype="application/json", timeout=TIMEOUT):
    """One request on a fresh connection. failure: 'timeout' | 'closed-without-response' | 'connect:<..>' | 'io:<..>'"""
    conn = http.client.HTTPConnection(HOST, port, timeout=timeout)
    headers = {}
    if body is not None and ctype is not None:
        headers["Content-Type"] = ctype
    try:
        try:
            conn.connect()
        except socket.timeout:
            return Resp(failure="timeout")
        except OSError as e:
            return Resp(failure="connect:%s" % type(e).__name__)
        send_error = None
        try:
            conn.request(method, path, body, headers)
        except socket.timeout:
            return Resp(failure="timeout")
        except OSError as e:  # the service may answer early and close while we are still sending
            send_error = e
        try:
            r = conn.getresponse()
            data = r.read()
            return Resp(r.status, r.getheader("content-type"), data)
        except socket.timeout:
            return Resp(failure="timeout")
        except http.client.RemoteDisconnected:
            return Resp(failure="closed-without-response" if send_error is None else "closed-while-sending")
        except (OSError, http.client.HTTPException) as e:
            return Resp(failure=("closed-while-sending" if send_error is not None else "io:%s" % type(e).__name__))
    finally:
        conn.close()


def raw_exchange(port, payload, timeout=3.0, half_close=False):
    """Sends raw bytes on a fresh socket, returns whatever comes back until close/timeout (bytes)."""
    out = b""
    try:
        s = socket.create_connection((HOST, port), timeout=TIMEOUT)
    except OSError:
        return None
    try:
        s.settimeout(timeout)
        try:
            s.sendall(payload)
            if half_close:
                s.shutdown(socket.SHUT_WR)
        except OSError:
            pass
        try:
            while len(out) < 65536:
                chunk = s.recv(8192)
                if not chunk:
                    break
                out += chunk
        except OSError:
            pass
    finally:
        s.close()
    return out


def b64(x):
    return base64.b64encode(x.encode("utf-8") if isinstance(x, str) else x).decode("ascii")


# ---------------------------------------------------------------------------------------------------
# echo model and value generators
# ---------------------------------------------------------------------------------------------------
def feel_string(s):
    """FEEL string literal (DMN 1.3 escapes: \\" \\\\ \\n \\r \\t \\uXXXX \\UXXXXXX; everything else raw)."""
    out = ['"']
    for ch in s:
        o = ord(ch)
        if ch == '"':
            out.append('\\"')
        elif ch == "\\":
            out.append("\\\\")
        elif ch == "\n":
            out.append("\\n")
        elif ch == "\r":
            out.append("\\r")
        elif ch == "\t":
            out.append("\\t")
        elif o < 0x20 or o in (0x7F, 0x85, 0x2028, 0x2029):
            out.append("\\u%04X" % o)
        else:
            out.append(ch)
    out.append('"')
    return "".join(out)


PLAIN = "abcdefghijklmnopqrstuvwxyzABCXYZ0123456789 _-.,:;!?()[]{}+*=<>@#%&'/"


def _plain(rng, lo=1, hi=12):
    return "".join(rng.choice(PLAIN) for _ in range(rng.randint(lo, hi)))


ALNUM = "abcdefghijklmnopqrstuvwxyzABCXYZ0123456789 "


def _alnum(rng, lo=0, hi=8):
    return "".join(rng.choice(ALNUM) for _ in range(rng.randint(lo, hi)))


def gen_string(rng, cls):
    """One hostile feature per class; around it only letters, digits and spaces, so that the way an
    unescaped rendering fails (not JSON at all / JSON that decodes to something else) is fixed by the class."""
    a, b = _alnum(rng), _alnum(rng)
    if cls == "string-json-injection":  # only used for scalar results: closes the string and adds a member
        return a + '","injected":"' + b
    if cls == "string-plain":
        return _plain(rng)
    if cls == "string-empty":
        return ""
    if cls == "string-with-quote":
        return a + '"' + b + rng.choice(["", '"', '""x'])
    if cls == "string-with-backslash":  # never a JSON escape look-alike: \ + (letter not in bfnrtu | space | end)
        return a + "\\" + rng.choice(["d", " x", "q", "Z", "1", ""]) + ("" if rng.random() < 0.5 else "k\\")
    if cls == "string-with-backslash-escape-lookalike":
        return a + "\\" + rng.choice(["n", "t", "\\", "/", "b", "u0041"]) + b
    if cls == "string-with-quote-and-backslash":
        return a + rng.choice(['"\\d', '\\d"', '"x\\ ']) + b  # always an invalid escape when rendered unescaped
    if cls == "control-char":
        return a + rng.choice(["\t", "\n", "\r", "\x01", "\x1f", "\x08", "\x0c", "\x00"]) + b
    if cls == "string-mixed":  # a character that needs a JSON escape AND characters of 2, 3 and 4 bytes in ONE string, in both orders
        esc = rng.choice(['"', "\\d", "\n", "\t", "\x01", '"\\ '])
        wide = "".join(rng.choice(["é", "ż", "ß", "中", "總", "\u00a0", "ا", "\U0001F600", "\U00010000"]) for _ in range(rng.randint(1, 4)))
        return a + (esc + b + wide if rng.random() < 0.5 else wide + b + esc) + rng.choice(["", wide, esc])
    if cls == "string-non-ascii":
        return a + "".join(rng.choice(["é", "ż", "ß", "中", "\u2028", "\ufffd", "\u00a0", "\x7f", "ا"]) for _ in range(rng.randint(1, 4))) + b
    if cls == "string-astral":
        return a + "".join(rng.choice(["\U0001F600", "\U0010FFFF", "\U00010000", "\U0001D11E"]) for _ in range(rng.randint(1, 3))) + b
    raise ValueError(cls)


STRING_CLASSES = [
    "string-plain",
    "string-empty",
    "string-with-quote",
    "string-with-backslash",
    "string-with-backslash-escape-lookalike",
    "string-with-quote-and-backslash",
    "control-char",
    "string-non-ascii",
    "string-astral",
    "string-mixed",
]
HOSTILE_CLASSES = {
    "string-mixed",
    "context-key-mixed",
    "string-json-injection",
    "string-with-quote",
    "string-with-backslash",
    "string-with-backslash-escape-lookalike",
    "string-with-quote-and-backslash",
    "control-char",
    "context-key-quote",
    "context-key-backslash",
    "context-key-control-char",
    "number-small-negative-fraction",
    "temporal",
}
BENIGN_STRING_CLASSES = ["string-plain", "string-non-ascii", "string-astral"]


def gen_number(rng, cls):
    """Returns plain decimal text (no exponent: valid both as FEEL literal and as xsd:decimal)."""
    if cls == "number-integer":
        return str(rng.randint(1, 10**6))
    if cls == "number-negative-integer":
        return str(-rng.randint(1, 10**6))
    if cls == "number-zero":
        return rng.choice(["0", "0.0", "0.000"])
    if cls == "number-trailing-zeros":
        return "%d.%d%s" % (rng.randint(0, 999), rng.randint(1, 9), "0" * rng.randint(1, 5))
    if cls == "number-fraction":
        return "%s%d.%0*d" % (rng.choice(["", "-"]), rng.randint(0, 9999), 6, rng.randint(1, 999999))
    if cls == "number-small-positive-fraction":
        return "0.%s%d" % ("0" * rng.randint(6, 20), rng.randint(1, 999))
    if cls == "number-small-negative-fraction":
        return "-0.%s%d" % ("0" * rng.randint(6, 20), rng.randint(1, 999))
    if cls == "number-34-digits":
        return rng.choice(["", "-"]) + str(rng.randint(10**33, 10**34 - 1))
    if cls == "number-34-digit-fraction":
        d = str(rng.randint(10**33, 10**34 - 1))
        k = rng.randint(1, 33)
        return d[:k] + "." + d[k:]
    if cls == "number-large-plain":
        return str(rng.randint(1, 9)) + "0" * rng.randint(20, 60)
    raise ValueError(cls)


NUMBER_CLASSES = [
    "number-integer",
    "number-negative-integer",
    "number-zero",
    "number-trailing-zeros",
    "number-fraction",
    "number-small-positive-fraction",
    "number-small-negative-fraction",
    "number-34-digits",
    "number-34-digit-fraction",
    "number-large-plain",
]

# (decision, input name, typeRef, xsd type, FEEL constructor, sample texts)
TEMPORALS = [
    ("EchoD", "xd", "date", "xsd:date", 'date("%s")', ["2021-02-03", "1999-12-31", "2024-02-29"]),
    ("EchoT", "xt", "time", "xsd:time", 'time("%s")', ["10:11:12", "23:59:59Z", "00:00:00+02:00"]),
    ("EchoDT", "xdt", "dateTime", "xsd:dateTime", 'date and time("%s")', ["2021-02-03T10:11:12", "2021-02-03T10:11:12Z", "1999-12-31T23:59:59+01:00"]),
    ("EchoDTD", "xdtd", "dayTimeDuration", "xsd:duration", 'duration("%s")', ["P1DT2H3M4S", "PT5M", "-P2D"]),
    ("EchoYMD", "xymd", "yearMonthDuration", "xsd:duration", 'duration("%s")', ["P1Y2M", "P3M", "-P1Y"]),
]

KEY_CLASSES = {
    "context-key-plain": ["k1", "key", "my key", "Full Name"],
    "context-key-quote": ['q"k', '"', 'say "hi"'],
    "context-key-backslash": ["b\\k", "dir\\", "\\d"],
    "context-key-control-char": ["t\tk", "line\nbreak", "\x01"],
    "context-key-non-ascii": ["kluczż", "键", "\U0001F600k"],
    "context-key-mixed": ['kluczż "q"', "键\\d", 'a"\U0001F600k', "é\tż"],
}


def echo_model(rng, key_cls):
    """Echo model E (namespace nsE, name E): typed inputs and decisions that return them, alone and
    inside lists / contexts. Context keys are string literals of the chosen class.
    Returns (Model, keys) with keys = [k1, k2, k3] used by EchoC."""
    ks = KEY_CLASSES[key_cls]
    k1 = rng.choice(ks)
    k2 = rng.choice([k for k in KEY_CLASSES["context-key-plain"]])
    k3 = rng.choice(ks)
    if k2 == k1:
        k2 = k2 + "2"
    inputs = [("xs", "string"), ("xn", "number"), ("xb", "boolean")] + [(t[1], t[2]) for t in TEMPORALS]
    ids = {n: "in_%s" % n for n, _ in inputs}

    def decision(name, text, needs):
        reqs = "".join('<informationRequirement id="ir_%s_%s"><requiredInput href="#%s"/></informationRequirement>' % (name, n, ids[n]) for n in needs)
        return '<decision name="%s" id="dec_%s"><variable name="%s"/>%s<literalExpression><text>%s</text></literalExpression></decision>' % (name, name, name, reqs, wsmodel.xml_escape(text))

    parts = [
        decision("EchoS", "xs", ["xs"]),
        decision("EchoN", "xn", ["xn"]),
        decision("EchoB", "xb", ["xb"]),
        decision("EchoNull", "null", []),
        decision("EchoL", "[xs, xn, xb, null, [xs, [xn, xb]], []]", ["xs", "xn", "xb"]),
        decision("EchoC", "{%s: xs, %s: {%s: [xn, xs], inner: xb}, plain: null}" % (feel_string(k1), feel_string(k2), feel_string(k3)), ["xs", "xn", "xb"]),
    ]
    for dec, inp, _t, _x, _f, _s in TEMPORALS:
        parts.append(decision(dec, inp, [inp]))
    # structured typed inputs (TCK list and components DTOs on the way IN): a collection of strings and a component type
    parts.append('<itemDefinition name="tStrings" isCollection="true"><typeRef>string</typeRef></itemDefinition>')
    parts.append('<itemDefinition name="tRecord"><itemComponent name="amount"><typeRef>number</typeRef></itemComponent><itemComponent name="label"><typeRef>string</typeRef></itemComponent>'
                 '<itemComponent name="tags"><typeRef>tStrings</typeRef></itemComponent><itemComponent name="day"><typeRef>date</typeRef></itemComponent><itemComponent name="flag"><typeRef>boolean</typeRef></itemComponent>'
                 '<itemComponent name="at"><typeRef>dateTime</typeRef></itemComponent><itemComponent name="clock"><typeRef>time</typeRef></itemComponent>'
                 '<itemComponent name="span"><typeRef>dayTimeDuration</typeRef></itemComponent><itemComponent name="age"><typeRef>yearMonthDuration</typeRef></itemComponent></itemDefinition>')
    inputs += [("xl", "tStrings"), ("xr", "tRecord")]
    ids.update({"xl": "in_xl", "xr": "in_xr"})
    parts.append(decision("EchoXL", "xl", ["xl"]))
    parts.append(decision("EchoXR", "xr", ["xr"]))
    parts.append(decision("EchoXW", "{list: xl, record: xr, both: [xr, xl]}", ["xl", "xr"]))
    for n, t in inputs:
        parts.append('<inputData name="%s" id="%s"><variable name="%s" typeRef="%s"/></inputData>' % (n, ids[n], n, t))
    xml = wsmodel.tiny_model_xml("nsE", "E", "mE", extra="".join(parts))
    return Model("mE", "nsE", "E", "mE", True, xml), [k1, k2, k3]


def tck_simple(xsd, text):
    return {"simple": {"type": xsd, "text": text, "isNil": False}}


def tck_encode(v):
    """python value -> TCK input value DTO (the inverse of tck_decode)"""
    if v is None:
        return {"simple": {"type": None, "text": None, "isNil": True}}
    if isinstance(v, bool):
        return tck_simple("xsd:boolean", "true" if v else "false")
    if isinstance(v, Decimal):
        return tck_simple("xsd:decimal", format(v, "f"))
    if isinstance(v, str):
        return tck_simple("xsd:string", v)
    if isinstance(v, tuple):
        return tck_simple(v[0], v[1])
    if isinstance(v, list):
        return {"list": {"items": [tck_encode(x) for x in v], "isNil": False}}
    return {"components": [{"name": k, "value": tck_encode(x), "isNil": False} for k, x in v.items()]}


def tck_decode(v):
    """TCK output value DTO -> python value: None | bool | Decimal | str | list | dict | ('xsd:..', text)"""
    if v is None:
        return ("unsupported", None)
    present = [k for k in ("simple", "components", "list") if v.get(k) is not None]
    if len(present) != 1:
        raise ValueError("value DTO with %s" % present)
    if v.get("simple") is not None:
        s = v["simple"]
        if s.get("isNil"):
            return None
        t, text = s.get("type"), s.get("text")
        if not isinstance(text, str):
            raise ValueError("simple value without text")
        if t == "xsd:string":
            return text
        if t == "xsd:boolean":
            if text not in ("true", "false"):
                raise ValueError("boolean text %r" % text)
            return text == "true"
        if t in ("xsd:decimal", "xsd:integer", "xsd:double"):
            return Decimal(text)
        return (t, text)
    if v.get("components") is not None:
        out = {}
        for c in v["components"]:
            if c["name"] in out:
                raise ValueError("duplicate component %r" % c["name"])
            out[c["name"]] = None if c.get("isNil") else tck_decode(c.get("value"))
        return out
    lst = v["list"]
    if lst.get("isNil"):
        return None
    return [tck_decode(i) for i in lst["items"]]


def same_value(a, b):
    if isinstance(a, Decimal) and isinstance(b, Decimal):
        return a == b
    if type(a) != type(b):
        return False
    if isinstance(a, list):
        return len(a) == len(b) and all(same_value(x, y) for x, y in zip(a, b))
    if isinstance(a, dict):
        return set(a) == set(b) and all(same_value(a[k], b[k]) for k in a)
    return a == b


# ---------------------------------------------------------------------------------------------------
# one service, one sequence of histories
# ---------------------------------------------------------------------------------------------------
class Found:
    """Thread-local collection of violations (signature -> first/shortest evidence)."""

    def __init__(self):
        self.viol = {}
        self.requests = 0
        self.probes = 0
        self.seen = set()
        self.undecided = 0
        self.transient = 0
        self.inconclusive = []
        self.samples = []
        self.counters = {}

    def bump(self, k, n=1):
        self.counters[k] = self.counters.get(k, 0) + n

    def violation(self, sig, what, requests, expected, observed):
        v = self.viol.get(sig)
        if v is None or len(requests) < len(v["requests"]):
            self.viol[sig] = {"what": what, "requests": list(requests), "expected": expected, "observed": observed, "count": (v["count"] if v else 0)}
        self.viol[sig]["count"] += 1


def rq(method, path, body=None, ctype="application/json", raw=None):
    """Request record (JSON-able, replayable)."""
    if raw is not None:
        return {"raw_b64": base64.b64encode(raw).decode("ascii")}
    d = {"method": method, "path": path}
    if body is not None:
        if isinstance(body, (dict, list)):
            body = json.dumps(body)
        if isinstance(body, str):
            body = body.encode("utf-8")
        d["body_b64"] = base64.b64encode(body).decode("ascii")
        d["ctype"] = ctype
    return d


def send(port, r):
    if "raw_b64" in r:
        out = raw_exchange(port, base64.b64decode(r["raw_b64"]), half_close=r.get("half_close", False))
        return Resp(failure="raw:%s" % ("no-connection" if out is None else "%d bytes back" % len(out)), body=out or b"")
    body = base64.b64decode(r["body_b64"]) if "body_b64" in r else None
    return http_request(port, r["method"], r["path"], body, r.get("ctype"))


class Session:
    def __init__(self, port, workers, found, panic_file):
        self.port = port
        self.workers = workers
        self.found = found
        self.panic_file = panic_file
        self.log = []  # request records of the current history
        self.model = WsModel()
        self.stored_xml = {}
        self.echo_model = None  # (Model, keys) of this history
        self.dead = False
        self.panics_seen = 0

    # ---- plumbing
    def panics(self):
        try:
            with open(self.panic_file) as f:
                return [json.loads(l) for l in f if l.strip()]
        except OSError:
            return []

    def do(self, r, log=True):
        if log:
            self.log.append(r)
        self.found.requests += 1
        return send(self.port, r)

    def minimal_echo_log(self, r):
        m = self.echo_model[0]
        return [rq("POST", "/definitions/clear"), rq("POST", "/definitions/add", {"content": b64(m.xml)}), rq("POST", "/definitions/deploy"), r]

    def json_of(self, resp, r, cls, replay_log=None, no_response_sig=None):
        """Strict-JSON judgement of a response that must carry a JSON document. Returns the document or None."""
        f = self.found
        log = replay_log or self.log
        if resp.failure:
            if resp.failure == "timeout":
                # bounded wait exceeded: inconclusive first, decided by the liveness probes that follow
                f.transient += 1
                self.liveness("timeout:%s" % cls)
                return None
            if resp.failure.startswith("connect:"):
                # nobody listens any more: decided (once) by the liveness probes
                self.liveness("connect-failure:%s" % cls)
                return None
            sig = no_response_sig or ("no-response:%s" % cls)
            time.sleep(0.05)
            pan = self.panics()[self.panics_seen :]
            self.panics_seen += len(pan)
            f.violation(sig, "request answered by %s instead of a JSON document%s" % (resp.failure, (" (service thread panicked: %s at %s)" % (pan[-1]["msg"][:120], pan[-1]["loc"])) if pan else ""), log, "a JSON document with data or errors", resp.brief())
            return None
        try:
            doc = strict_loads(resp.body)
        except NotStrictJson as e:
            kind = "invalid-json" if (resp.ctype or "").startswith("application/json") else "non-json-response"
            f.violation("%s:%s" % (kind, cls), "status %s content-type %s body %r is not a JSON document: %s" % (resp.status, resp.ctype, resp.body[:200], e), log, "a well-formed JSON document", resp.brief())
            return None
        if isinstance(doc, dict) and doc.get("errors") == [] and "data" in doc:
            doc = {k: v for k, v in doc.items() if k != "errors"}  # an empty errors list reports no failure
        if not isinstance(doc, dict) or not (("data" in doc) != ("errors" in doc)):
            f.violation("bad-envelope:%s" % cls, "response is JSON but has not exactly one of data/errors: %r" % resp.body[:200], log, "{data:..} or {errors:[{details}]}", resp.brief())
            return None
        if "errors" in doc:
            e = doc["errors"]
            if not (isinstance(e, list) and e and all(isinstance(x, dict) and isinstance(x.get("details"), str) for x in e)):
                f.violation("bad-envelope:errors:%s" % cls, "errors member malformed: %r" % resp.body[:200], log, "errors:[{details:string}]", resp.brief())
                return None
        return doc

    def liveness(self, after_cls):
        """workers + 4 probes on fresh connections; a failure is re-probed (two more rounds) before it counts."""
        f = self.found
        n = self.workers + 4
        for round_ in range(3):
            bad = None
            for i in range(n):
                f.probes += 1
                # alternate a request that needs no workspace with one that takes the workspace lock
                if i % 2 == 0:
                    resp = http_request(self.port, "GET", "/system/info")
                else:
                    resp = http_request(self.port, "POST", "/evaluate/no-such-model-probe/D", b"{}", "text/plain")
                ok = False
                if not resp.failure:
                    try:
                        doc = strict_loads(resp.body)
                        if i % 2 == 0:
                            ok = isinstance(doc, dict) and isinstance(doc.get("data"), dict) and "name" in doc["data"]
                        else:
                            ok = isinstance(doc, dict) and isinstance(doc.get("errors"), list) and len(doc["errors"]) > 0
                    except NotStrictJson:
                        ok = False
                if not ok:
                    bad = resp
                    break
            if bad is None:
                if round_ > 0:
                    f.transient += 1
                return True
            time.sleep(0.2)
        f.violation("service-stopped-answering:after-%s" % after_cls, "valid probe requests (GET /system/info, POST /evaluate of an unknown model) not answered in three rounds of %d fresh connections: %s" % (n, bad.brief()), self.log + [rq("GET", "/system/info"), rq("POST", "/evaluate/no-such-model-probe/D", "{}", ctype="text/plain")], "a JSON answer within %ds" % TIMEOUT, bad.brief())
        self.dead = True
        return False

    # ---- definitions endpoints against the reference model
    def defs_op(self, kind, m=None, key=None):
        f = self.found
        model = self.model
        if kind in ("add", "replace"):
            content = m.xml
            self.n_defs = getattr(self, "n_defs", 0) + 1
            if self.n_defs % 3 == 0 and m.builds:
                # the same model in another XML spelling (lib/xmlvar.py), seeded by the request count of this session
                import random as _r

                try:
                    content = xmlvar.vary(m.xml, _r.Random(self.n_defs * 7919 + len(m.xml)))[0]
                    f.bump("definitions-in-a-varied-xml-spelling")
                except Exception:  # noqa: BLE001  (a model text the variant writer cannot read is sent as it is)
                    content = m.xml
            r = rq("POST", "/definitions/%s" % kind, {"content": b64(content)})
        elif kind == "remove":
            r = rq("POST", "/definitions/remove", {"namespace": key[0], "name": key[1]})
        else:
            r = rq("POST", "/definitions/%s" % kind)
        resp = self.do(r)
        doc = self.json_of(resp, r, "definitions-%s" % kind)
        if doc is None:
            # state unknown: resynchronise
            self.reset()
            return
        ok = "data" in doc
        f.seen.add(("defs", kind, len(model.stored), bool(model.evaluators)))
        if kind == "add":
            want = not model.clashes(m)
            if ok != want:
                f.violation("workspace-divergence:add:%s" % ("rejected-without-clash" if want else "accepted-despite-clash"), "add %r answered %r, stored %s" % (m, resp.body[:200], [s.key for s in model.stored]), self.log, "ok" if want else "error", resp.brief())
                self.reset()
                return
            if ok:
                if doc["data"] != {"namespace": m.ns, "name": m.name}:
                    f.violation("workspace-divergence:add:wrong-identity-reported", "add %r answered %r" % (m, resp.body[:200]), self.log, {"namespace": m.ns, "name": m.name}, resp.brief())
                model.add(m)
        elif kind == "replace":
            exact = [s for s in model.stored if s.key == m.key]
            one = [s for s in model.stored if (s.ns == m.ns) != (s.name == m.name)]
            if exact or not one:
                if not ok:
                    details = doc["errors"][0]["details"]
                    sig = "replace-acts-as-add" if (exact and "already exist" in details) else "workspace-divergence:replace:rejected"
                    f.violation(sig, "replace %r of the stored model with the same namespace and name answered %r" % (m, resp.body[:200]), self.log, "definitions replaced", resp.brief())
                    # follow the service: nothing was replaced, nothing else changed
                else:
                    model.replace(m)
            else:
                # open case: fail unchanged, or succeed evicting the one-key sharers
                f.undecided += 1
                if ok:
                    model.stored = [s for s in model.stored if s.ns != m.ns and s.name != m.name] + [m]
                    model.evaluators = {}
                else:
                    self._sync_evaluators_unknown()
        elif kind == "remove":
            if not ok:
                f.violation("workspace-divergence:remove:rejected", "remove %s answered %r" % (key, resp.body[:200]), self.log, "definitions removed", resp.brief())
                self.reset()
                return
            changed = any(s.key == tuple(key) for s in model.stored)
            if changed:
                model.remove(key[0], key[1])
            else:
                self._sync_evaluators_unknown()
        elif kind == "clear":
            if not ok:
                f.violation("workspace-divergence:clear:rejected", "clear answered %r" % resp.body[:200], self.log, "definitions cleared", resp.brief())
            model.clear()
            self.eval_known = True
        elif kind == "deploy":
            if not ok:
                f.violation("workspace-divergence:deploy:rejected", "deploy answered %r, stored %s" % (resp.body[:200], [s.key for s in model.stored]), self.log, "definitions deployed", resp.brief())
                self.reset()
                return
            model.deploy()
            self.eval_known = True

    eval_known = True

    def _sync_evaluators_unknown(self):
        """An operation that changed nothing may keep or drop the evaluators (open in the statement):
        if something was deployed, what is evaluable is unknown until the next deploy or modification."""
        if self.model.evaluators:
            self.eval_known = False

    def reset(self):
        r = rq("POST", "/definitions/clear")
        self.do(r)
        self.model.clear()
        self.eval_known = True

    # ---- evaluation of the constant decision D of a model
    def eval_d(self, name, via):
        f = self.found
        if via == "evaluate":
            r = rq("POST", "/evaluate/%s/D" % name, "{}")
        else:
            r = rq("POST", "/tck/evaluate", {"model": name, "invocable": "D", "input": []})
        resp = self.do(r)
        doc = self.json_of(resp, r, "%s-constant-decision" % via)
        if doc is None:
            return
        if not self.eval_known:
            f.undecided += 1
            return
        f.seen.add(("evalD", via, name in self.model.evaluators))
        tag = self.model.evaluators.get(name)
        if tag is None:
            if "data" in doc:
                f.violation("workspace-divergence:%s:evaluable-although-not-deployed" % via, "%s of %s/D answered %r, deployed %s" % (via, name, resp.body[:200], sorted(self.model.evaluators)), self.log, "errors (not deployed)", resp.brief())
            return
        if "errors" in doc:
            f.violation("workspace-divergence:%s:deployed-model-not-evaluable" % via, "%s of %s/D answered %r, deployed %s" % (via, name, resp.body[:200], sorted(self.model.evaluators)), self.log, tag, resp.brief())
            return
        try:
            got = doc["data"] if via == "evaluate" else tck_decode(doc["data"].get("value"))
        except (ValueError, KeyError, AttributeError, TypeError, ArithmeticError) as e:
            f.violation("bad-tck-output:constant-decision", "cannot decode %r: %s" % (resp.body[:200], e), self.log, tag, resp.brief())
            return
        if got != tag:
            f.violation("workspace-divergence:%s:content-is-not-the-stored-model" % via, "%s of %s/D answered %r, the stored model is %s" % (via, name, got, tag), self.log, tag, resp.brief())

    # ---- echo decisions
    def echo_request(self, rng):
        """Returns (request, value class, expected python value, decision, via)."""
        keys = self.echo_model[1]
        via = "evaluate" if rng.random() < 0.6 else "tck"
        pick = rng.random()
        scls = rng.choice(STRING_CLASSES)
        ncls = rng.choice(NUMBER_CLASSES)
        if pick < 0.34:
            if rng.random() < 0.1:
                scls = "string-json-injection"
            dec, cls = "EchoS", scls
        elif pick < 0.52:
            dec, cls = "EchoN", ncls
        elif pick < 0.58:
            dec, cls = "EchoB", "boolean"
        elif pick < 0.62:
            dec, cls = "EchoNull", "null"
        elif pick < 0.74:
            dec = "EchoL"
            if rng.random() < 0.5:
                cls = scls
                ncls = "number-integer"
            else:
                cls = ncls
                scls = rng.choice(BENIGN_STRING_CLASSES)
        elif pick < 0.88:
            dec = "EchoC"
            kcls = self.echo_key_cls
            if kcls != "context-key-plain":
                cls = kcls
                scls = rng.choice(BENIGN_STRING_CLASSES)
                ncls = "number-integer"
            elif rng.random() < 0.5:
                cls = scls
                ncls = "number-integer"
            else:
                cls = ncls
                scls = rng.choice(BENIGN_STRING_CLASSES)
        elif pick < 0.92:
            # structured typed values sent IN as TCK list / components DTOs and echoed
            xs2 = [gen_string(rng, rng.choice(STRING_CLASSES if rng.random() < 0.5 else BENIGN_STRING_CLASSES)) for _ in range(rng.randint(0, 3))]
            rec = {"amount": Decimal(gen_number(rng, ncls)), "label": gen_string(rng, scls), "tags": list(xs2), "day": ("xsd:date", rng.choice(["2021-03-04", "1999-12-31", "2020-02-29"])), "flag": rng.random() < 0.5,
                   "at": ("xsd:dateTime", rng.choice(TEMPORALS[2][5])), "clock": ("xsd:time", rng.choice(TEMPORALS[1][5])), "span": ("xsd:duration", rng.choice(TEMPORALS[3][5])), "age": ("xsd:duration", rng.choice(TEMPORALS[4][5]))}
            dec = rng.choice(["EchoXL", "EchoXR", "EchoXW"])
            want = xs2 if dec == "EchoXL" else rec if dec == "EchoXR" else {"list": xs2, "record": rec, "both": [rec, xs2]}
            r = rq("POST", "/tck/evaluate", {"model": "E", "invocable": dec, "input": [{"name": "xl", "value": tck_encode(xs2)}, {"name": "xr", "value": tck_encode(rec)}]})
            return r, "structured-input", want, dec, "tck"
        else:
            t = rng.choice(TEMPORALS)
            dec, cls = t[0], "temporal"
            text = rng.choice(t[5])
            if via == "evaluate":
                r = rq("POST", "/evaluate/E/%s" % dec, "{%s: %s}" % (t[1], t[4] % text), ctype="text/plain")
            else:
                r = rq("POST", "/tck/evaluate", {"model": "E", "invocable": dec, "input": [{"name": t[1], "value": tck_simple(t[3], text)}]})
            return r, cls, (t[3], text), dec, via
        xs = gen_string(rng, scls)
        xn = gen_number(rng, ncls)
        xb = rng.random() < 0.5
        n = Decimal(xn)
        if dec == "EchoS":
            want = xs
        elif dec == "EchoN":
            want = n
        elif dec == "EchoB":
            want = xb
        elif dec == "EchoNull":
            want = None
        elif dec == "EchoL":
            want = [xs, n, xb, None, [xs, [n, xb]], []]
        else:
            want = {keys[0]: xs, keys[1]: {keys[2]: [n, xs], "inner": xb}, "plain": None}
        if via == "evaluate":
            body = "{xs: %s, xn: %s, xb: %s}" % (feel_string(xs), xn, "true" if xb else "false")
            r = rq("POST", "/evaluate/E/%s" % dec, body, ctype="text/plain")
        else:
            r = rq("POST", "/tck/evaluate", {"model": "E", "invocable": dec, "input": [{"name": "xs", "value": tck_simple("xsd:string", xs)}, {"name": "xn", "value": tck_simple("xsd:decimal", xn)}, {"name": "xb", "value": tck_simple("xsd:boolean", "true" if xb else "false")}]})
        return r, cls, want, dec, via

    def do_echo(self, rng):
        f = self.found
        r, cls, want, dec, via = self.echo_request(rng)
        resp = self.do(r)
        deployed = self.eval_known and "E" in self.model.evaluators
        mini = self.minimal_echo_log(r) if deployed else None
        # signature class: the hostile feature when there is one, else the shape of the result
        shape = "list" if dec == "EchoL" else ("context" if dec == "EchoC" else "scalar")
        base = cls if (cls in HOSTILE_CLASSES or shape == "scalar") else "%s-of-benign-values" % shape
        tag = base if via == "evaluate" else "tck:" + base
        if cls == "temporal" and via == "evaluate":
            tag = "temporal-bare"
        doc = self.json_of(resp, r, tag, replay_log=mini)
        f.seen.add(("echo", via, dec, cls))
        f.bump("echo:%s:%s" % (via, cls))
        if doc is None:
            return
        if not self.eval_known:
            f.undecided += 1
            return
        if not deployed:
            if "data" in doc:
                f.violation("workspace-divergence:%s:evaluable-although-not-deployed" % via, "echo on E answered %r although E is not deployed" % resp.body[:200], self.log, "errors", resp.brief())
            return
        if "errors" in doc and "not deployed" in doc["errors"][0]["details"]:
            f.violation("workspace-divergence:%s:deployed-model-not-evaluable" % via, "%s of E/%s answered %r, deployed %s" % (via, dec, resp.body[:200], sorted(self.model.evaluators)), self.log, "a result", resp.brief())
            return
        if "errors" in doc:
            f.violation("echo-rejected:%s" % tag, "%s of E/%s with a %s value answered %r" % (via, dec, cls, resp.body[:300]), mini, repr(want), resp.brief())
            return
        try:
            got = doc["data"] if via == "evaluate" else tck_decode(doc["data"].get("value"))
        except (ValueError, KeyError, AttributeError, TypeError, ArithmeticError) as e:
            f.violation("bad-tck-output:%s" % tag, "cannot decode %r: %s" % (resp.body[:300], e), mini, repr(want), resp.brief())
            return
        if cls == "temporal" and via == "evaluate":
            want_cmp = want[1]  # a JSON rendering of a temporal value can only be its text
        else:
            want_cmp = want
        if not same_value(got, want_cmp):
            f.violation("echo-mismatch:%s" % tag, "%s of E/%s: sent %r, decoded %r (body %r)" % (via, dec, want, got, resp.body[:300]), mini, repr(want), resp.brief())
        elif len(f.samples) < 3 and cls not in ("string-plain", "boolean", "null"):
            f.samples.append({"request": base64.b64decode(r.get("body_b64", "")).decode("utf-8", "replace")[:200], "path": r["path"], "response": resp.body.decode("utf-8", "replace")[:200]})

    # ---- malformed requests
    def malformed(self, rng):
        f = self.found
        m0 = ALPHABET[0]
        good_add = json.dumps({"content": b64(m0.xml)})
        good_tck = json.dumps({"model": "E", "invocable": "EchoS", "input": [{"name": "xs", "value": tck_simple("xsd:string", "abc")}]})
        cls = rng.choice(MALFORMED_CLASSES)
        expect = "json-errors"  # a JSON document with an errors member
        r = None
        no_resp_sig = None
        if cls == "non-xml-multibyte-sweep":
            # valid UTF-8 that is not XML, with a multi-byte character starting at each of 16 consecutive byte offsets (the window
            # moves on with every use of this class, all services together cover 0..271 over and over): whatever a diagnostic
            # quotes from the rejected text is cut at some byte
            base = 16 * (next(_SWEEP) % 17)
            last = None
            for off in range(base, base + 16):
                text = "x" * off + rng.choice(["żółć–—", "😀😀", "€€€"]) + rng.choice([" <unclosed", " plain text", "<a><b></a>"])
                last = rq("POST", rng.choice(["/definitions/add", "/definitions/replace"]), {"content": b64(text)})
                f.bump("malformed:" + cls)
                resp = self.do(last)
                doc = self.json_of(resp, last, cls)
                if doc is not None and "errors" not in doc:
                    f.violation("malformed-accepted:%s" % cls, "malformed request (%s) answered %r" % (cls, resp.body[:200]), self.log, "an errors member", resp.brief())
                    self.reset()
                if self.dead:
                    return
            f.seen.add(("malformed", cls))
            self.liveness(cls)
            return
        if cls == "truncated-json":
            path, body = rng.choice([("/definitions/add", good_add), ("/definitions/replace", good_add), ("/definitions/remove", '{"namespace": "nsA", "name": "A"}'), ("/tck/evaluate", good_tck)])
            r = rq("POST", path, body[: rng.randint(1, len(body) - 1)])
        elif cls == "wrong-field-types":
            path, body = rng.choice(
                [
                    ("/definitions/add", {"content": 5}),
                    ("/definitions/add", {"content": ["x"]}),
                    ("/definitions/replace", {"content": {"a": 1}}),
                    ("/definitions/remove", {"namespace": [], "name": {}}),
                    ("/definitions/remove", {"namespace": 1, "name": True}),
                    ("/tck/evaluate", {"model": 1}),
                    ("/tck/evaluate", {"model": "E", "invocable": "EchoS", "input": "xs"}),
                    ("/tck/evaluate", {"model": "E", "invocable": "EchoS", "input": [{"name": "xs", "value": {"simple": {"type": "xsd:string", "text": "a", "isNil": "no"}}}]}),
                    ("/tck/evaluate", [1, 2, 3]),
                    ("/definitions/add", "null"),
                ]
            )
            r = rq("POST", path, body)
        elif cls == "missing-fields":
            path, body = rng.choice(
                [
                    ("/definitions/add", {}),
                    ("/definitions/replace", {}),
                    ("/definitions/remove", {"namespace": "nsA"}),
                    ("/definitions/remove", {"name": "A"}),
                    ("/tck/evaluate", {}),
                    ("/tck/evaluate", {"model": "E"}),
                    ("/tck/evaluate", {"model": "E", "invocable": "EchoS"}),
                    ("/tck/evaluate", {"model": "E", "invocable": "EchoS", "input": [{"name": "xs"}]}),
                    ("/tck/evaluate", {"model": "E", "invocable": "EchoS", "input": [{"name": "xs", "value": {}}]}),
                    ("/tck/evaluate", {"model": "E", "invocable": "EchoS", "input": [{"name": "xs", "value": {"components": [{"value": tck_simple("xsd:string", "a"), "isNil": False}]}}]}),
                ]
            )
            r = rq("POST", path, body)
        elif cls == "invalid-base64":
            r = rq("POST", rng.choice(["/definitions/add", "/definitions/replace"]), {"content": rng.choice(["!!!not base64", "abc", "====", "Zm9v\u00e9", b64(m0.xml)[:-3] + "*"])})
        elif cls == "invalid-utf8-in-content":
            # also: an otherwise well-formed model (the stored echo model or another one) whose bad bytes sit inside an
            # attribute value, a text node or a comment, where nothing but the UTF-8 decoding can object
            base = (self.echo_model[0].xml if rng.random() < 0.5 else m0.xml).encode()
            bad = rng.choice([b"\xff", b"\xc3\x28", b"\xed\xa0\x80", b"\xf8\x88\x80\x80\x80", b"\x80"])
            inside = []
            for marker in (b' id="', b' name="', b"<text>", b"<definitions "):
                k = base.find(marker)
                if k >= 0 and marker != b"<definitions ":
                    inside.append(base[: k + len(marker)] + bad + base[k + len(marker):])
            k = base.rfind(b"</definitions>")
            if k >= 0:
                inside.append(base[:k] + b"<!-- " + bad + b" -->" + base[k:])
            variants = [b"\xff\xfe<definitions/>", m0.xml.encode()[:40] + b"\xc3\x28" + m0.xml.encode()[40:], b"\xed\xa0\x80"] + inside + inside
            r = rq("POST", rng.choice(["/definitions/add", "/definitions/replace"]), {"content": b64(rng.choice(variants))})
        elif cls == "non-xml-content":
            # (also: valid UTF-8 that is not XML with multi-byte characters at every byte offset of its first 200 bytes - whatever
            # a diagnostic quotes from the rejected document is cut at some byte)
            off = rng.randint(0, 200) if rng.random() < 0.3 else 16 * rng.randint(1, 16) - rng.randint(1, 3)  # mostly just below a multiple of 16
            wide = "x" * off + rng.choice(["żółć–—", "😀😀😀", "€€€€", "é" * 9]) + rng.choice([" <unclosed", "", " & < >", "<a><b></a>"])
            r = rq("POST", rng.choice(["/definitions/add", "/definitions/replace"]), {"content": b64(rng.choice(["hello", "", "{}", "<a/>", "<definitions/>", "<?xml version=\"1.0\"?>", m0.xml.replace("namespace=", "nmspace="), m0.xml.replace(" name=\"A\"", ""), "\x00\x01\x02", "<definitions", wide, wide, wide]))})
        elif cls == "unknown-model":
            if rng.random() < 0.5:
                r = rq("POST", "/evaluate/%s/D" % rng.choice(["NoSuchModel", "nsA", "%20", "E%2FEchoS"]), "{}", ctype="text/plain")
            else:
                r = rq("POST", "/tck/evaluate", {"model": "NoSuchModel", "invocable": "D", "input": []})
        elif cls == "unknown-invocable":
            expect = "json-any"  # null result or an error, both are JSON
            if rng.random() < 0.5:
                r = rq("POST", "/evaluate/E/NoSuchDecision", "{}", ctype="text/plain")
            else:
                r = rq("POST", "/tck/evaluate", {"model": "E", "invocable": "NoSuchDecision", "input": []})
        elif cls == "feel-syntax-error-in-input":
            expect = "json-any" if not (self.eval_known and "E" in self.model.evaluators) else "json-errors"
            r = rq("POST", "/evaluate/E/EchoS", rng.choice(["{xs: ", "{xs: \"abc}", "xs", "{xs: 1e400}", "", "[1,2", "{\"xs\": \"a\", }", "{xs: \"\\u12\"}", "\x00"]), ctype="text/plain")
        elif cls == "invalid-typed-value":
            xsd, text = rng.choice([("xsd:foo", "1"), ("xsd:decimal", "abc"), ("xsd:decimal", ""), ("xsd:decimal", "NaN"), ("xsd:decimal", "Infinity"), ("xsd:boolean", "yes"), ("xsd:date", "2021-13-45"), ("xsd:time", "25:61:61"), ("xsd:dateTime", "yesterday"), ("xsd:duration", "P"), ("xsd:integer", "1.5e"), ("xsd:double", "1e99999")])
            r = rq("POST", "/tck/evaluate", {"model": "E", "invocable": "EchoS", "input": [{"name": "xs", "value": tck_simple(xsd, text)}]})
        elif cls == "invalid-input-name":
            expect = "json-any"  # which strings are names is not this property's business
            r = rq("POST", "/tck/evaluate", {"model": "E", "invocable": "EchoS", "input": [{"name": rng.choice(["", "1x", "+", "a\"b", "\x00"]), "value": tck_simple("xsd:string", "a")}]})
        elif cls in ("nul-in-xsd-decimal", "nul-in-xsd-integer", "nul-in-xsd-double"):
            xsd = cls[len("nul-in-") :].replace("xsd-", "xsd:")
            r = rq("POST", "/tck/evaluate", {"model": "E", "invocable": "EchoN", "input": [{"name": "xn", "value": tck_simple(xsd, rng.choice(["1\x002", "\x00", "12\x00"]))}]})
        elif cls == "invalid-utf8-json-body":
            r = rq("POST", rng.choice(["/definitions/add", "/definitions/remove", "/tck/evaluate"]), b'{"content": "\xff\xfe", "namespace": "\xc3\x28", "name": "x", "model": "\xff"}')
        elif cls == "invalid-utf8-evaluate-body":
            r = rq("POST", "/evaluate/E/EchoS", b'{xs: "\xff\xfe"}', ctype="text/plain")
        elif cls == "wrong-content-type":
            r = rq("POST", rng.choice(["/definitions/add", "/tck/evaluate"]), good_add, ctype=rng.choice(["text/plain", "application/xml", None]))
        elif cls == "unknown-endpoint":
            method, path = rng.choice([("GET", "/nothing/here"), ("GET", "/definitions/add"), ("POST", "/system/info"), ("DELETE", "/definitions/clear"), ("POST", "/evaluate/E"), ("POST", "/evaluate/E/EchoS/extra"), ("PUT", "/")])
            r = rq(method, path, "{}" if method != "GET" else None)
        elif cls == "oversize-json-body":
            expect = "optional-json"  # the service may close while we are still sending
            r = rq("POST", rng.choice(["/definitions/add", "/tck/evaluate"]), '{"content":"' + "A" * (4 * 1024 * 1024 + rng.randint(1, 4096)) + '"}')
        elif cls == "oversize-evaluate-body":
            expect = "optional-json"
            r = rq("POST", "/evaluate/E/EchoS", '{xs: "' + "x" * (300 * 1024 + rng.randint(1, 4096)) + '"}', ctype="text/plain")
        elif cls == "malformed-framing":
            expect = "liveness-only"
            payload, half = rng.choice(
                [
                    (b"POST /definitions/add HTTP/1.1\r\nHost: x\r\nContent-Type: application/json\r\nContent-Length: 5000\r\n\r\n{\"content\": \"abc", True),
                    (b"POST /tck/evaluate HTTP/1.1\r\nHost: x\r\nContent-Type: application/json\r\nContent-Length: 10\r\n\r\n{}", True),
                    (b"POST /definitions/add HTT", True),
                    (b"\x00\x01\x02\xff\xfe garbage\r\n\r\n", False),
                    (b"GET /system/info HTTP/9.9\r\n\r\n", False),
                    (b"POST /definitions/clear HTTP/1.1\r\nHost: x\r\nContent-Length: -1\r\n\r\n", False),
                    (b"POST /definitions/add HTTP/1.1\r\nHost: x\r\nContent-Type: application/json\r\nTransfer-Encoding: chunked\r\n\r\nZZZ\r\n{}\r\n0\r\n\r\n", False),
                    (b"POST /definitions/add HTTP/1.1\r\nHost: x\r\nContent-Type: application/json\r\nContent-Length: 2\r\nContent-Length: 9\r\n\r\n{}", False),
                    (b"GET /system/info HTTP/1.1\r\nHost: x\r\nX-Long: " + b"a" * 200000 + b"\r\n\r\n", False),
                    (b"POST /evaluate/E/EchoS HTTP/1.1\r\nHost: x\r\nContent-Length: 3\r\n\r\n{}", True),
                ]
            )
            r = rq(None, None, raw=payload)
            r["half_close"] = half
        else:
            raise ValueError(cls)
        f.seen.add(("malformed", cls))
        f.bump("malformed:" + cls)
        resp = self.do(r)
        if expect == "liveness-only":
            pass
        elif expect == "optional-json" and resp.failure in ("closed-while-sending", "closed-without-response") and cls.startswith("oversize"):
            f.bump("oversize-closed-early")
        else:
            doc = self.json_of(resp, r, cls)
            if doc is not None and expect == "json-errors" and "errors" not in doc:
                # a definitions request that slips through would change the workspace: resynchronise
                f.violation("malformed-accepted:%s" % cls, "malformed request (%s) answered %r" % (cls, resp.body[:200]), self.log, "an errors member", resp.brief())
                self.reset()
        if not self.dead:
            self.liveness(cls)

    # ---- one history
    def concurrent(self, rng, clients, per_client, with_writer):
        """Concurrent clients against one service: `clients` threads send echo evaluations (each with its own generated
        value) while, with `with_writer`, another client keeps replacing and re-deploying the echo model. Whatever the
        interleaving, every answer must be a well-formed document that is either the echo of ITS OWN request or - only
        while the writer has the model stashed - an errors document saying the model is not deployed. Judged after the
        threads have joined."""
        import random as _random

        f = self.found
        self.log = []
        self.model = WsModel()
        self.eval_known = True
        self.echo_key_cls = rng.choice(list(KEY_CLASSES))
        self.echo_model = echo_model(rng, self.echo_key_cls)
        mE = self.echo_model[0]
        self.defs_op("clear")
        self.defs_op("add", mE)
        # how THIS build words "stored but not deployed" (asked once, in sequence, before the deploy): the only rejection a reader
        # may get while the writer has the model stashed. Learned rather than matched against a fixed text, so that a reworded
        # message is not an alarm.
        probe = send(self.port, self.echo_request(_random.Random(1))[0])
        try:
            not_deployed_text = json.loads(probe.body.decode("utf-8"))["errors"][0]["details"]
        except Exception:  # noqa: BLE001
            not_deployed_text = None
        self.defs_op("deploy")
        if self.dead or "E" not in self.model.evaluators:
            return
        prefix = list(self.log)
        plans = []
        for _c in range(clients):
            crng = _random.Random(rng.getrandbits(64))
            plans.append([self.echo_request(crng) for _ in range(per_client)])
        answers = [[] for _ in range(clients)]
        stop = threading.Event()
        writer_log = []

        def client(c):
            for item in plans[c]:
                answers[c].append(send(self.port, item[0]))

        def writer():
            wr = rq("POST", "/definitions/replace", {"content": b64(mE.xml)})
            wd = rq("POST", "/definitions/deploy")
            while not stop.is_set():
                writer_log.append((wr, send(self.port, wr)))
                writer_log.append((wd, send(self.port, wd)))

        ts = [threading.Thread(target=client, args=(c,), daemon=True) for c in range(clients)]
        wt = threading.Thread(target=writer, daemon=True) if with_writer else None
        if wt:
            wt.start()
        for t in ts:
            t.start()
        for t in ts:
            t.join()
        stop.set()
        if wt:
            wt.join()
        mode = "with-writer" if with_writer else "readers-only"
        for wr, resp in writer_log:
            f.requests += 1
            doc = self.json_of(resp, wr, "concurrent-definitions", replay_log=prefix + [wr])
            if doc is not None and "errors" in doc:
                f.violation("concurrent:%s:definitions-operation-rejected" % mode, "%s answered %r while echo evaluations were in flight" % (wr["path"], resp.body[:200]), prefix + [wr], "ok", resp.brief())
        not_deployed = 0
        for c in range(clients):
            for (r, cls, want, dec, via), resp in zip(plans[c], answers[c]):
                f.requests += 1
                f.bump("concurrent:%s:requests" % mode)
                doc = self.json_of(resp, r, "concurrent-echo", replay_log=prefix + [r])
                if doc is None:
                    continue
                if "errors" in doc:
                    if with_writer and not_deployed_text is not None and doc["errors"][0]["details"] == not_deployed_text:
                        not_deployed += 1
                        continue
                    f.violation("concurrent:%s:echo-rejected" % mode, "%s of E/%s answered %r with %d clients in flight" % (via, dec, resp.body[:300], clients), prefix + [r], repr(want), resp.brief())
                    continue
                try:
                    got = doc["data"] if via == "evaluate" else tck_decode(doc["data"].get("value"))
                except (ValueError, KeyError, AttributeError, TypeError, ArithmeticError) as e:
                    f.violation("concurrent:%s:bad-tck-output" % mode, "cannot decode %r: %s" % (resp.body[:300], e), prefix + [r], repr(want), resp.brief())
                    continue
                want_cmp = want[1] if (cls == "temporal" and via == "evaluate") else want
                if not same_value(got, want_cmp):
                    f.violation("concurrent:%s:answer-is-not-the-echo-of-its-own-request" % mode, "%s of E/%s: sent %r, decoded %r (body %r) with %d clients in flight" % (via, dec, want, got, resp.body[:300], clients), prefix + [r], repr(want), resp.brief())
        f.bump("concurrent:%s:answered-not-deployed" % mode, not_deployed)
        f.bump("concurrent:phases")
        f.seen.add(("concurrent", mode, clients))
        # the service must still serve afterwards
        self.log = list(prefix)
        self.defs_op("deploy")
        if not self.dead:
            self.do_echo(rng)

    def history(self, rng, length):
        self.log = []
        self.model = WsModel()
        self.eval_known = True
        self.echo_key_cls = rng.choice(list(KEY_CLASSES))
        self.echo_model = echo_model(rng, self.echo_key_cls)
        mE = self.echo_model[0]
        pool = [ALPHABET[0], ALPHABET[1], ALPHABET[2], ALPHABET[3], ALPHABET[4], ALPHABET[6], mE]
        self.defs_op("clear")
        # start in a useful state most of the time
        if rng.random() < 0.85:
            self.defs_op("add", mE)
            if rng.random() < 0.7:
                self.defs_op("add", rng.choice(pool[:6]))
            self.defs_op("deploy")
        for _ in range(length):
            if self.dead:
                return
            x = rng.random()
            if x < 0.33:
                if x < 0.14:
                    self.defs_op("add", rng.choice(pool))
                elif x < 0.26:
                    self.defs_op("replace", rng.choice(pool))
                elif self.model.stored and rng.random() < 0.7:
                    self.defs_op("remove", key=list(rng.choice(self.model.stored).key))
                else:
                    self.defs_op("remove", key=rng.choice([["nsX", "X"], ["", ""], ["nsZ", "Z Z"]]))
                if rng.random() < 0.5 and not self.dead:
                    self.defs_op("deploy")
            elif x < 0.35:
                self.defs_op("clear")
            elif x < 0.47:
                self.defs_op("deploy")
            elif x < 0.58:
                self.eval_d(rng.choice(["A", "B", "D", "F", "E", "A"]), rng.choice(["evaluate", "tck"]))
            elif x < 0.84:
                self.do_echo(rng)
            else:
                self.malformed(rng)


import itertools as _itertools

_SWEEP = _itertools.count()

MALFORMED_CLASSES = [
    "truncated-json",
    "wrong-field-types",
    "missing-fields",
    "invalid-base64",
    "invalid-utf8-in-content",
    "non-xml-content",
    "non-xml-multibyte-sweep",
    "unknown-model",
    "unknown-invocable",
    "feel-syntax-error-in-input",
    "invalid-typed-value",
    "invalid-input-name",
    "nul-in-xsd-decimal",
    "nul-in-xsd-integer",
    "nul-in-xsd-double",
    "invalid-utf8-json-body",
    "invalid-utf8-evaluate-body",
    "wrong-content-type",
    "unknown-endpoint",
    "oversize-json-body",
    "oversize-evaluate-body",
    "malformed-framing",
]


# ---------------------------------------------------------------------------------------------------
# service pool (driver op `serve`, one service per shard)
# ---------------------------------------------------------------------------------------------------
class Pool:
    def __init__(self, workdir, n, max_seconds, variant="dbg", sub="serve"):
        self.dir = os.path.join(workdir, sub)
        self.sub = sub
        self.meta = None
        if os.path.isdir(self.dir):
            import shutil

            shutil.rmtree(self.dir)
        os.makedirs(self.dir)
        self.n = n
        self.variant = variant
        self.cases = []
        for k in range(n):
            self.cases.append(
                {
                    "op": "serve",
                    "host": HOST,
                    "port": 0,
                    "ready_file": os.path.join(self.dir, "ready%02d" % k),
                    "stop_file": os.path.join(self.dir, "stop%02d" % k),
                    "panic_file": os.path.join(self.dir, "panics%02d" % k),
                    "max_seconds": max_seconds,
                }
            )
        self.results = None
        self.error = None
        self.thread = None
        self.workdir = workdir
        self.max_seconds = max_seconds

    def start(self):
        runner.build(self.variant)  # build in the foreground so that a build failure is reported as such

        def body():
            try:
                self.results, self.meta = runner.run_cases(self.variant, self.cases, self.workdir, label=self.sub, nshards=self.n, case_timeout=self.max_seconds + 60)
            except Exception as e:  # noqa: BLE001
                self.error = e

        self.thread = threading.Thread(target=body, daemon=True)
        self.thread.start()
        t0 = time.time()
        ready = [None] * self.n
        while time.time() - t0 < 90:
            for k, c in enumerate(self.cases):
                if ready[k] is None and os.path.exists(c["ready_file"]):
                    with open(c["ready_file"]) as fh:
                        ready[k] = json.load(fh)
            if all(r is not None for r in ready) or self.error is not None or not self.thread.is_alive():
                break
            time.sleep(0.05)
        if not all(r is not None for r in ready):
            self.stop()
            raise runner.Inconclusive("services did not come up: %s %s" % (self.error, json.dumps(self.results)[:500] if self.results else ""))
        return ready

    def stop(self):
        for c in self.cases:
            try:
                with open(c["stop_file"], "w") as fh:
                    fh.write("stop")
            except OSError:
                pass
        if self.thread is not None:
            self.thread.join(timeout=60)
        return self.results


def plan(tier):
    if tier == "quick":
        return {"histories": 96, "len": (20, 60), "servers": 16, "max_seconds": 600, "concurrent_phases": 2, "concurrent_per_client": 40}
    return {"histories": 1600, "len": (20, 200), "servers": 16, "max_seconds": 3000, "concurrent_phases": 12, "concurrent_per_client": 60}


def run(rep, tier, seed):
    rep.rule = (
        "a case is one HTTP request judged against its expectation; distinct non-trivial keys are (request kind, endpoint, decision, value class) "
        "for echo requests, (definitions operation, stored count, deployed?) for workspace requests and (malformed class) for faults; liveness probes are counted "
        "as executions but not as distinct cases."
    )
    rep.assumptions = [
        "the service is the real dmntk_server::start_server running inside the driver process on a loopback port (actix workers = CPUs)",
        "strict JSON = Python json with duplicate keys, NaN/Infinity and raw control characters rejected, UTF-8 enforced",
        "/evaluate inputs are written as FEEL literals with the DMN 1.3 string escapes; /tck/evaluate inputs are sent verbatim",
        "remove is sent only with exact or absent (namespace,name) pairs (cross pairs belong to C17); replace with a one-key clash and evaluation after a "
        "no-op remove/failed replace are open in the statement and counted as undecided",
        "concurrent phase: 4-16 client threads send echo evaluations to one service, on every other service while a writer replaces and re-deploys the model; an answer must be the echo of its own request or (writer active) 'not deployed'; only the interleavings that occurred are covered",
        "responses to malformed HTTP framing (raw sockets) are not judged, only the liveness of the service afterwards; a closed connection while an oversize body is still being sent is not judged",
    ]
    p = plan(tier)
    pool = Pool(rep.workdir, p["servers"], p["max_seconds"])
    ready = pool.start()
    founds = [Found() for _ in ready]
    rng = rng_for(seed, "c18-plan")
    lengths = [rng.randint(*p["len"]) for _ in range(p["histories"])]
    errors = []

    def work(k):
        try:
            sess = Session(ready[k]["port"], ready[k]["workers"], founds[k], pool.cases[k]["panic_file"])
            for h in range(k, p["histories"], len(ready)):
                if sess.dead:
                    break
                sess.history(rng_for(seed, "c18-history", h), lengths[h])
                founds[k].bump("histories")
            # concurrent clients (half of the services with a writer that keeps replacing / re-deploying the model)
            for j in range(p["concurrent_phases"]):
                if sess.dead:
                    break
                sess.concurrent(rng_for(seed, "c18-concurrent", k, j), clients=[4, 8, 16][(k + j) % 3], per_client=p["concurrent_per_client"], with_writer=(k + j) % 2 == 0)
        except Exception:  # noqa: BLE001
            import traceback

            errors.append(traceback.format_exc())

    threads = [threading.Thread(target=work, args=(k,), daemon=True) for k in range(len(ready))]
    try:
        for t in threads:
            t.start()
        for t in threads:
            t.join()
    finally:
        results = pool.stop()
    if errors:
        raise runner.Inconclusive("client thread failed: " + errors[0].replace("\n", " | ")[-1500:])
    # merge
    merged = {}
    counters = {}
    for f in founds:
        rep.count(f.requests + f.probes)
        rep.undecided += f.undecided
        for key in f.seen:
            rep.seen(key)
        for s in f.samples:
            rep.sample(s)
        for k, v in f.counters.items():
            counters[k] = counters.get(k, 0) + v
        for sig, v in f.viol.items():
            m = merged.get(sig)
            if m is None or len(v["requests"]) < len(m["requests"]):
                cnt = (m["count"] if m else 0) + v["count"]
                merged[sig] = dict(v)
                merged[sig]["count"] = cnt
            else:
                m["count"] += v["count"]
    for sig, v in sorted(merged.items()):
        rep.violation(sig, v["what"], {"variant": "dbg", "http": v["requests"], "expected": v["expected"], "observed": v["observed"]})
        rep.violations[sanitize_sig(sig)]["count"] = v["count"]
    rep.extra["histories"] = counters.get("histories", 0)
    rep.extra["requests"] = sum(f.requests for f in founds)
    rep.extra["liveness_probes"] = sum(f.probes for f in founds)
    rep.extra["transient_probe_failures"] = sum(f.transient for f in founds)
    rep.extra["echo_requests_by_endpoint_and_class"] = {k[5:]: v for k, v in sorted(counters.items()) if k.startswith("echo:")}
    rep.extra["malformed_requests_by_class"] = {k[10:]: v for k, v in sorted(counters.items()) if k.startswith("malformed:")}
    rep.extra["concurrent_clients"] = {k[11:]: v for k, v in sorted(counters.items()) if k.startswith("concurrent:")}
    rep.extra["definitions_sent_in_a_varied_xml_spelling"] = counters.get("definitions-in-a-varied-xml-spelling", 0)
    rep.extra["oversize_bodies_closed_before_response"] = counters.get("oversize-closed-early", 0)
    rep.extra["services"] = len(ready)
    rep.extra["workers_per_service"] = ready[0]["workers"]
    service_panics = []
    for res in results or []:
        if res is None or "harness_error" in res or res.get("missing"):
            raise runner.Inconclusive("serve op failed: %s" % json.dumps(res)[:400])
        if "crash" in res:
            rep.violation("service-process-died", "the process running the service died: %s" % json.dumps(res)[:600], {"variant": "dbg"})
        elif "timeout" in res:
            rep.inconclusive_reason("serve op hit the watchdog")
        else:
            if res.get("stopped") != "stop-file":
                rep.inconclusive_reason("service ended by itself: %s %s" % (res.get("stopped"), res.get("server_result")))
            service_panics.extend(res.get("panics", []))
    rep.extra["service_thread_panics"] = len(service_panics)
    rep.extra["service_thread_panic_locations"] = sorted(set(p_["loc"] for p_ in service_panics))
    if rep.extra["histories"] < p["histories"] and not any(s.startswith("service-stopped") for s in rep.violations):
        rep.inconclusive_reason("only %d of %d histories were driven" % (rep.extra["histories"], p["histories"]))
    if rep.extra["requests"] < 20 * p["histories"]:
        rep.inconclusive_reason("too few requests observed: %d" % rep.extra["requests"])
    if rep.extra["transient_probe_failures"]:
        rep.extra["note"] = "some answers needed more than %ds once and were answered on re-probe (not a violation)" % TIMEOUT
    tsan_phase(rep, tier, seed)


def tsan_phase(rep, tier, seed):
    """The concurrent-clients workload against the service built with ThreadSanitizer (Rust std, actix, dmntk and the decNumber C
    sources instrumented): every worker parses, evaluates and renders numbers and temporal values while a writer replaces and
    re-deploys the model. A data-race report with a dmntk / decNumber frame is a violation; reports without such a frame (none seen
    so far) are counted only. If the variant cannot be built the phase is skipped and the evidence says so."""
    n, phases, per_client = (1, 2, 20) if tier == "quick" else (2, 10, 40)
    try:
        pool = Pool(rep.workdir, n, 900, "tsan", sub="serve-tsan")
        ready = pool.start()
    except runner.Inconclusive as e:
        print("NOTE property=C18 ThreadSanitizer service unavailable, race detection skipped: %s" % str(e)[:300])
        rep.extra["tsan_unavailable"] = str(e)[:300]
        return
    founds = [Found() for _ in ready]
    errors = []

    def work(k):
        try:
            sess = Session(ready[k]["port"], ready[k]["workers"], founds[k], pool.cases[k]["panic_file"])
            sess.history(rng_for(seed, "c18-tsan-history", k), 30)
            for j in range(phases):
                if sess.dead:
                    break
                sess.concurrent(rng_for(seed, "c18-tsan-concurrent", k, j), clients=[8, 4, 16][(k + j) % 3], per_client=per_client, with_writer=j % 2 == 0)
        except Exception:  # noqa: BLE001
            import traceback

            errors.append(traceback.format_exc())

    ts = [threading.Thread(target=work, args=(k,), daemon=True) for k in range(len(ready))]
    try:
        for t in ts:
            t.start()
        for t in ts:
            t.join()
    finally:
        results = pool.stop()
    if errors:
        rep.extra["tsan_phase_client_error"] = errors[0][-600:]
        return
    races = {}
    texts = list((pool.meta or {}).get("sanitizer_reports", []))
    for res in results or []:
        if res and "crash" in res and "ThreadSanitizer" in (res["crash"].get("stderr") or ""):
            texts.append(res["crash"]["stderr"])
    for text in texts:
        for block in re.split(r"(?=WARNING: ThreadSanitizer)", text):
            if "WARNING: ThreadSanitizer" not in block:
                continue
            kind = re.search(r"ThreadSanitizer: ([a-zA-Z -]+)", block)
            frames = re.findall(r"#\d+ (\S*(?:dmntk|dec[A-Z]|decNumber|decimal)\S*)", block)
            frames = [re.sub(r"::h[0-9a-f]{16}$", "", fr) for fr in frames if "verif_driver" not in fr]
            key = "tsan:%s:%s" % ((kind.group(1).strip().replace(" ", "-") if kind else "report"), "|".join(frames[:2]) or "no-dmntk-frame")
            races.setdefault(key, block[:1500])
    for key, block in sorted(races.items()):
        if "no-dmntk-frame" in key:
            rep.bump("tsan_reports_without_dmntk_frames")
            continue
        rep.violation(key, block, {"variant": "tsan", "note": "concurrent clients against the ThreadSanitizer build of the service"})
    reqs = 0
    for f in founds:
        rep.count(f.requests + f.probes)
        reqs += f.requests
        for sig, v in f.viol.items():
            # values are judged on the tsan build as well (same oracle, same signatures, so the known findings apply)
            rep.violation(sig, v["what"], {"variant": "tsan", "http": v["requests"], "expected": v["expected"], "observed": v["observed"]})
    rep.extra["tsan_services"] = len(ready)
    rep.extra["tsan_requests"] = reqs
    rep.extra["tsan_concurrent_phases"] = phases * len(ready)
    rep.extra["tsan_distinct_reports"] = len(races)


def replay(rp):
    """Starts one service, re-sends the recorded requests, prints the answers; VIOLATION if the last
    answer is again the recorded one."""
    r = rp.get("replay") or {}
    reqs = r.get("http")
    if not reqs:
        print("replay file carries no HTTP requests")
        return 3
    work = os.path.join(runner.WORK, "replay-c18")
    os.makedirs(work, exist_ok=True)
    pool = Pool(work, 1, 300, r.get("variant", "dbg"))
    ready = pool.start()
    last = None
    try:
        for q in reqs:
            last = send(ready[0]["port"], q)
            if "raw_b64" in q:
                print("RAW %r" % base64.b64decode(q["raw_b64"])[:120])
            else:
                print("%s %s %r" % (q["method"], q["path"], base64.b64decode(q.get("body_b64", ""))[:200]))
            print("   -> %s" % last.brief())
    finally:
        pool.stop()
    print("expected :", r.get("expected"))
    print("recorded :", r.get("observed"))
    if last is not None and last.brief() == r.get("observed"):
        print("VIOLATION property=C18 replay=<replayed>")
        return 1
    print("replay no longer reproduces the recorded answer")
    return 0
