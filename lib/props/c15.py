"""C15 — dates, date-times and durations follow the calendar and the UTC time line.

Oracle: lib/rtemporal.py — proleptic Gregorian day-number arithmetic on unbounded integers (cross-checked
against datetime/calendar inside years 1..9999 at every run), instants on the UTC line as integer
nanoseconds, `zoneinfo` for a curated list of named zones and instants in 1980-2019 that are at least 48 h
away from any offset change. Observation: (a) the in-driver sweep of every (y, m, d), y in -1..2400,
m in 0..13, d in 0..32, through the real numeric constructor (FeelDate::try_from((n, n, n)) and the FEEL
built-in `date(y, m, d)`) and through the literal, with the weekday of every accepted date; (b) FEEL
expressions over values bound in the scope, through the real parser and evaluator.
"""
import datetime
import json
import zoneinfo
from decimal import Decimal

import rtemporal as R
import runner
from common import chunks, crash_signature, rng_for

LEVEL = "exploration"

CHRONO_YEAR_MAX = 262143  # chrono 0.4: NaiveDate::MAX = 262142-12-31, MIN = -262143-01-01
ENV = {"TZ": "UTC"}

CURATED_ZONES = [
    "Europe/Warsaw", "Europe/London", "Europe/Berlin", "Europe/Paris", "Europe/Madrid", "Europe/Rome", "Europe/Lisbon", "Europe/Athens", "Europe/Helsinki", "Europe/Dublin",
    "America/New_York", "America/Chicago", "America/Denver", "America/Los_Angeles", "America/Anchorage", "America/Halifax", "America/Toronto", "America/Vancouver", "America/Phoenix", "America/Lima",
    "Pacific/Honolulu", "Pacific/Auckland", "Australia/Sydney", "Australia/Adelaide", "Australia/Perth", "Australia/Brisbane",
    "Asia/Tokyo", "Asia/Seoul", "Asia/Shanghai", "Asia/Kolkata", "Asia/Kathmandu", "Asia/Dubai", "Asia/Bangkok", "Asia/Jakarta", "Asia/Karachi", "Asia/Singapore",
    "Africa/Johannesburg", "Africa/Lagos", "Africa/Nairobi", "Etc/UTC", "UTC",
]


# every alpha-only zone id of the implementation's table; filled in only when the bundled tz database
# could be compiled (then a zone is decided where both databases agree), otherwise stays empty
ALL_ZONES = []

# ------------------------------------------------------------------------------------------------
# helpers
# ------------------------------------------------------------------------------------------------


def _harness_ok(res):
    if res is None or "harness_error" in res or res.get("missing"):
        raise runner.Inconclusive("driver reported a harness error: %s" % json.dumps(res)[:300])


def range_class(*years):
    return "beyond-chrono-range" if any(abs(y) >= CHRONO_YEAR_MAX for y in years) else "in-chrono-range"


def num(j):
    if isinstance(j, dict) and "n" in j:
        return Decimal(j["n"])
    return None


def show(j):
    return json.dumps(j, ensure_ascii=True)


def f64_safe_nanos(nanos):
    """True when the literal fraction survives the implementation's known f64 detour (C14 finding
    lossy:time:fraction-minus-1ns); C15 operands are chosen so that this defect cannot leak in."""
    if nanos == 0:
        return True
    digits = ("%09d" % nanos).rstrip("0")
    return int(float("." + digits) * 1e9) == nanos


def rand_safe_nanos(rng):
    if rng.random() < 0.4:
        return 0
    for _ in range(50):
        n = rng.choice([rng.randint(0, R.NANOS - 1), rng.randint(0, 999) * 1_000_000, rng.randint(0, 999_999) * 1000, 1, R.NANOS - 1])
        if f64_safe_nanos(n):
            return n
    return 0


class Batch:
    """Collects FEEL texts over a shared scope into evalmany cases; every text carries a callback."""

    def __init__(self, per_case=40):
        self.cases = []
        self.cbs = []
        self.per_case = per_case
        self._scope = []
        self._texts = []
        self._cb = []
        self._groups = 0

    def group(self, bindings, items):
        """bindings: [(value-json)], referenced as v{k} in the texts via {0}, {1}..; items: [(text-template, callback)]"""
        base = len(self._scope)
        names = ["v%d" % (base + k) for k in range(len(bindings))]
        for n, b in zip(names, bindings):
            self._scope.append([n, b])
        for tmpl, cb in items:
            self._texts.append(tmpl.format(*names) if names else tmpl)
            self._cb.append(cb)
        self._groups += 1
        if self._groups >= self.per_case:
            self.flush()

    def flush(self):
        if self._texts:
            self.cases.append({"op": "evalmany", "scope": [self._scope], "texts": self._texts})
            self.cbs.append(self._cb)
        self._scope, self._texts, self._cb, self._groups = [], [], [], 0

    def run(self, rep, label):
        self.flush()
        results, _ = runner.run_cases("dbg", self.cases, rep.workdir, label=label, extra_env=ENV)
        for case, cbs, res in zip(self.cases, self.cbs, results):
            _harness_ok(res)
            if "rs" not in res:
                rep.violation(crash_signature(res, "c15-%s-batch" % label), "%s batch died: %s" % (label, json.dumps(res)[:400]), {"variant": "dbg", "case": case})
                continue
            for text, cb, r in zip(case["texts"], cbs, res["rs"]):
                rep.count()
                used = [b for b in case["scope"][0] if b[0] in text.replace("(", " ").replace(")", " ").replace("[", " ").replace("]", " ").replace(".", " ").replace(",", " ").split()]
                rcase = {"op": "evalmany", "scope": [used], "texts": [text]}
                if "panic" in r:
                    cb(rep, "panic", r["panic"], rcase)
                elif "v" not in r:
                    rep.violation("no-value:%s" % label, "FEEL text did not evaluate: %s: %s" % (text, json.dumps(r)[:300]), {"variant": "dbg", "case": rcase})
                else:
                    cb(rep, "v", r["v"], rcase)


def expect(sig_base, desc, want, fmt=None):
    """Callback factory: compares the observed JSON value with `want` (bool / None / JSON)."""

    def cb(rep, how, got, rcase):
        if how == "panic":
            rep.violation(R.panic_site_signature(got), "panic in %s: %s" % (desc, got.get("msg")), {"variant": "dbg", "case": rcase, "expected": want, "observed": {"panic": got}})
            return
        g = fmt(got) if fmt else got
        if g != want:
            kind = "null" if got is None else "wrong"
            sig = "%s:%s" % (sig_base, kind)
            if sig_base.endswith(":beyond-chrono-range"):
                # one root cause (values are compared through chrono, whose year range is +-262143): one class per value kind
                sig = "%s:beyond-chrono-range:%s" % ("date" if ":date:" in sig_base else "date-time", kind)
            rep.violation(sig, "%s: expected %s, observed %s" % (desc, show(want), show(got)), {"variant": "dbg", "case": rcase, "expected": want, "observed": got})

    return cb


def only_panics(desc):
    def cb(rep, how, got, rcase):
        if how == "panic":
            rep.violation(R.panic_site_signature(got), "panic in %s: %s" % (desc, got.get("msg")), {"variant": "dbg", "case": rcase, "expected": "a value or null", "observed": {"panic": got}})
        else:
            rep.undecided += 1

    return cb


# ------------------------------------------------------------------------------------------------
# A. the calendar sweep
# ------------------------------------------------------------------------------------------------


def sweep(rep, y_lo, y_hi):
    cases = [{"op": "datesweep", "y0": a, "y1": min(a + 19, y_hi)} for a in range(y_lo, y_hi + 1, 20)]
    results, _ = runner.run_cases("dbg", cases, rep.workdir, label="sweep", extra_env=ENV, case_timeout=120.0)
    cells = 0
    valid_cells = 0
    for case, res in zip(cases, results):
        _harness_ok(res)
        if "years" not in res:
            sig = R.panic_site_signature(res["panic"]) if "panic" in res else crash_signature(res, "c15-datesweep")
            rep.violation(sig, "datesweep %s died: %s" % (case, json.dumps(res)[:400]), {"variant": "dbg", "case": case})
            continue
        for y, ctor, lit, ord_bad in res["years"]:
            if len(ctor) != 14 * 33 or len(lit) != 14 * 33:
                raise runner.Inconclusive("datesweep row of unexpected length for year %d" % y)
            for m in range(14):
                dim = R.days_in_month(y, m) if 1 <= m <= 12 else None
                for d in range(33):
                    idx = m * 33 + d
                    cells += 1
                    ok = dim is not None and 1 <= d <= dim
                    c = ctor[idx]
                    ell = lit[idx]
                    rcase = {"op": "evalmany", "texts": ["date(%d, %d, %d)" % (y, m, d), "date(%d, %d, %d).weekday" % (y, m, d), 'date("%s-%02d-%02d")' % (R.fmt_year(y), m, d)]}

                    def viol(sig, what, expected):
                        rep.violation(sig, "(%d, %d, %d): %s" % (y, m, d, what), {"variant": "dbg", "case": rcase, "expected": expected, "observed": {"ctor": c, "literal": ell}})

                    why = "month-out-of-range" if dim is None else ("day-zero" if d == 0 else "day-beyond-month-length")
                    if c == "P":
                        viol("sweep:ctor:panic", "date(y, m, d) or its weekday panicked", "no panic")
                    elif ok:
                        valid_cells += 1
                        rep.seen(y * 1000 + idx)
                        want = str(R.weekday(y, m, d))
                        if c == ".":
                            viol("sweep:ctor:reject-valid", "valid date rejected by date(y, m, d)", want)
                        elif c == "?":
                            viol("sweep:weekday:missing", "no weekday for a valid date", want)
                        elif c == "X":
                            viol("sweep:ctor:components-differ", "date(y, m, d) holds other components", want)
                        elif c == "D":
                            viol("sweep:ctor:tuple-vs-builtin", "FeelDate::try_from((y, m, d)) and the built-in date(y, m, d) disagree", want)
                        elif c != want:
                            viol("sweep:weekday:wrong", "weekday %s, calendar says %s" % (c, want), want)
                    elif c != ".":
                        viol("sweep:ctor:accept-invalid:%s" % why, "impossible date accepted by date(y, m, d) (cell %r)" % c, ".")
                    if y == 0:
                        rep.undecided += 1  # year 0000 in a literal: not settled by the statement
                    elif ell == "P":
                        viol("sweep:literal:panic", "date literal panicked", "no panic")
                    elif ok:
                        if ell == ".":
                            viol("sweep:literal:reject-valid:%s" % ("year<1000" if abs(y) < 1000 else "generic"), "valid date literal rejected", "1")
                        elif ell != "1":
                            viol("sweep:literal:components-differ", "literal holds other components", "1")
                    elif ell != ".":
                        viol("sweep:literal:accept-invalid:%s" % why, "impossible date literal accepted", ".")
            for ob in ord_bad:
                rep.violation("sweep:order:adjacent-dates", "consecutive dates %s, %s: <, >, = gave %s" % (ob[0], ob[1], ob[2:]), {"variant": "dbg", "case": {"op": "evalmany", "texts": ['date("%s") < date("%s")' % (ob[0], ob[1])]}, "expected": [True, False, False], "observed": ob[2:]})
    rep.count(2 * cells)
    rep.extra["sweep_cells"] = cells
    rep.extra["sweep_valid_dates_with_weekday"] = valid_cells
    rep.extra["sweep_years"] = [y_lo, y_hi]
    return cells


# ------------------------------------------------------------------------------------------------
# B. numeric constructor, components out of range
# ------------------------------------------------------------------------------------------------

BAD_MONTHS = [0, 13, 14, 100, 255, 256, 257, 258, 267, 268, 269, 511, 513, 524, 65537, 65548, 4294967297, 4294967308, 18446744073709551617, -1, -11, -12, -255, -244, -256]
BAD_DAYS = [0, 32, 33, 99, 255, 256, 257, 271, 284, 287, 288, 513, 543, 65537, 65551, 4294967297, 4294967311, 18446744073709551617, -1, -28, -31, -255, -241, -225]
BAD_YEARS = [1000000000, -1000000000, 2147483647, -2147483648, 2147483648, -2147483649, 4294967296, 4294969316, 4294967296 + 999999999, 8589936612, 10**10, -(10**10), 10**20, 10**34]
GOOD_YEARS = [-999999999, -262144, -262143, -10000, -1, 0, 1, 999, 1000, 1582, 1900, 2000, 2020, 2021, 9999, 10000, 262142, 262143, 999999999]


def ctor_cases(rng, n_random):
    out = []
    for y, m, d in ((2020, 1, 1), (2021, 12, 31), (2020, 2, 29), (1, 1, 1), (999999999, 12, 31)):
        for bm in BAD_MONTHS:
            out.append((y, bm, d))
        for bd in BAD_DAYS:
            out.append((y, m, bd))
    for by in BAD_YEARS:
        out.append((by, 1, 1))
        out.append((by, 12, 31))
    for gy in GOOD_YEARS:
        for m, d in ((1, 1), (2, 28), (2, 29), (2, 30), (4, 30), (4, 31), (12, 31)):
            out.append((gy, m, d))
    for _ in range(n_random):
        y = rng.choice([rng.randint(-3000, 3000), rng.randint(-R.YEAR_MAX, R.YEAR_MAX), rng.choice(BAD_YEARS), 2020])
        m = rng.choice([rng.randint(1, 12), rng.randint(1, 12), rng.randint(-300, 600), rng.choice(BAD_MONTHS), rng.randint(1, 12) + 256 * rng.randint(1, 2**24)])
        d = rng.choice([rng.randint(1, 28), rng.randint(1, 31), rng.randint(-300, 600), rng.choice(BAD_DAYS), rng.randint(1, 28) + 256 * rng.randint(1, 2**24)])
        out.append((y, m, d))
    return out


def run_ctor(rep, rng, quick):
    triples = ctor_cases(rng, 1500 if quick else 50000)
    b = Batch(per_case=60)
    n_bad = 0
    for y, m, d in triples:
        valid = R.valid_date(y, m, d)
        if not valid:
            n_bad += 1
        comp = "year" if not -R.YEAR_MAX <= y <= R.YEAR_MAX else ("month" if not 1 <= m <= 12 else "day")
        want = {"d": R.fmt_date(y, m, d)} if valid else None
        rep.seen(("date3", y, m, d))

        def cb(rep_, how, got, rcase, y=y, m=m, d=d, valid=valid, comp=comp, want=want):
            if how == "panic":
                rep_.violation(R.panic_site_signature(got), "panic in date(%d, %d, %d): %s" % (y, m, d, got.get("msg")), {"variant": "dbg", "case": rcase})
                return
            comps = [num(x) for x in got[1:4]] if isinstance(got, list) else None
            v = got[0] if isinstance(got, list) else got
            if valid:
                if v is None:
                    rep_.violation("date3:reject-valid:%s" % range_class(y), "date(%d, %d, %d) is null" % (y, m, d), {"variant": "dbg", "case": rcase, "expected": want, "observed": got})
                elif comps != [y, m, d]:
                    rep_.violation("date3:components-differ:%s" % range_class(y), "date(%d, %d, %d) has components %s" % (y, m, d, comps), {"variant": "dbg", "case": rcase, "expected": [y, m, d], "observed": got})
            elif v is not None:
                rep_.violation("date3:accept-out-of-range:%s" % comp, "date(%d, %d, %d) gave %s instead of null" % (y, m, d, show(v)), {"variant": "dbg", "case": rcase, "expected": None, "observed": got})

        b.group([], [("{v: date(%d, %d, %d), r: [v, v.year, v.month, v.day]}.r" % (y, m, d), cb)])
    b.run(rep, "ctor")
    rep.extra["date3_triples"] = len(triples)
    rep.extra["date3_out_of_range_triples"] = n_bad


# ------------------------------------------------------------------------------------------------
# C/D. ordering, equality and properties of dates
# ------------------------------------------------------------------------------------------------


def rand_date_any(rng, cls):
    if cls == "mid":
        y = rng.randint(1000, 9999) if rng.random() < 0.7 else rng.randint(-9999, 262000)
    else:
        mag = rng.choice([rng.randint(262143, 300000), rng.randint(262143, R.YEAR_MAX), R.YEAR_MAX, R.YEAR_MAX - 1])
        y = -mag if rng.random() < 0.4 else mag
    m = rng.randint(1, 12)
    return (y, m, rng.randint(1, R.days_in_month(y, m)))


def near(rng, a):
    z = R.days_from_civil(*a) + rng.choice([0, 0, 1, -1, 1, -1, 7, -7, 28, 31, -31, 365, -366, rng.randint(-40, 40), rng.randint(-800, 800)])
    y, m, d = R.civil_from_days(z)
    if abs(y) > R.YEAR_MAX:
        return a
    return (y, m, d)


def dval(a):
    return {"feel": "date(%d, %d, %d)" % a}


def run_date_order(rep, rng, quick):
    n = 6000 if quick else 70000
    b = Batch(per_case=12)
    for k in range(n):
        cls = "far" if rng.random() < 0.2 else "mid"
        a = rand_date_any(rng, cls)
        if rng.random() < 0.7:
            x, y = near(rng, a), near(rng, a)
        else:
            x, y = rand_date_any(rng, rng.choice(["mid", cls])), rand_date_any(rng, rng.choice(["mid", cls]))
        lo, hi = min(x, y), max(x, y)
        rc = range_class(a[0], x[0])
        rc3 = range_class(a[0], lo[0], hi[0])
        rep.seen(("date-order", a, x, y))
        desc = "a=%s x=%s lo=%s hi=%s" % (R.fmt_date(*a), R.fmt_date(*x), R.fmt_date(*lo), R.fmt_date(*hi))
        items = [
            ("{0} < {1}", expect("order:date:cmp:%s" % rc, "a < x, " + desc, a < x)),
            ("{0} <= {1}", expect("order:date:cmp:%s" % rc, "a <= x, " + desc, a <= x)),
            ("{0} > {1}", expect("order:date:cmp:%s" % rc, "a > x, " + desc, a > x)),
            ("{0} >= {1}", expect("order:date:cmp:%s" % rc, "a >= x, " + desc, a >= x)),
            ("{0} = {1}", expect("order:date:eq:%s" % rc, "a = x, " + desc, a == x)),
            ("{0} != {1}", expect("order:date:eq:%s" % rc, "a != x, " + desc, a != x)),
            ("{0} in (< {1})", expect("order:date:unary:%s" % rc, "a in (< x), " + desc, a < x)),
            ("{0} in (>= {1})", expect("order:date:unary:%s" % rc, "a in (>= x), " + desc, a >= x)),
            ("{0} between {2} and {3}", expect("order:date:range:%s" % rc3, "a between lo and hi, " + desc, lo <= a <= hi)),
            ("{0} in [{2}..{3}]", expect("order:date:range:%s" % rc3, "a in [lo..hi], " + desc, lo <= a <= hi)),
            ("{0} in ({2}..{3})", expect("order:date:range:%s" % rc3, "a in (lo..hi), " + desc, lo < a < hi)),
        ]
        wd = R.weekday(*a)
        ra = range_class(a[0])
        items.append(("[{0}.year, {0}.month, {0}.day]", expect("prop:date:ymd:%s" % ra, "year/month/day of " + R.fmt_date(*a), list(a), lambda g: [int(num(x)) if num(x) is not None else None for x in g] if isinstance(g, list) else g)))
        items.append(("{0}.weekday", expect("prop:date:weekday:%s" % ra, "weekday of " + R.fmt_date(*a), wd, lambda g: int(num(g)) if num(g) is not None else g)))
        b.group([dval(a), dval(x), dval(lo), dval(hi)], items)
    b.run(rep, "dates")
    rep.extra["date_order_groups"] = n


# ------------------------------------------------------------------------------------------------
# E. date-times on the UTC line
# ------------------------------------------------------------------------------------------------

_ZI = {}
_BUNDLED = {"dir": None}
_TZ_FILES = ["africa", "antarctica", "asia", "australasia", "etcetera", "europe", "northamerica", "southamerica", "backward"]


def build_bundled_tzdb(workdir):
    """The implementation links chrono-tz 0.6, which bundles its own copy of the tz database (2022a),
    older than the system's. When its source files are in the cargo registry and `zic` is installed,
    they are compiled so that a named zone is decided only where BOTH databases give the same offset.
    Returns the directory or None (then only the curated zones are used, on the system database)."""
    import glob
    import os
    import shutil
    import subprocess

    srcs = sorted(glob.glob(os.path.expanduser("~/.cargo/registry/src/*/chrono-tz-0.6.*/tz")))
    zic = shutil.which("zic") or ("/usr/sbin/zic" if os.path.exists("/usr/sbin/zic") else None)
    if not srcs or not zic:
        return None
    src = srcs[-1]
    out = os.path.join(workdir, "tzdb_bundled")
    shutil.rmtree(out, ignore_errors=True)
    os.makedirs(out)
    files = [os.path.join(src, f) for f in _TZ_FILES if os.path.exists(os.path.join(src, f))]
    try:
        p = subprocess.run([zic, "-b", "fat", "-d", out] + files, stdout=subprocess.PIPE, stderr=subprocess.STDOUT, timeout=120)
    except Exception:
        return None
    if p.returncode != 0 or not os.path.exists(os.path.join(out, "Europe", "Warsaw")):
        return None
    return out


def _zone_objects(zid):
    zs = _ZI.get(zid)
    if zs is None:
        zs = []
        try:
            zs.append(zoneinfo.ZoneInfo(zid))
        except Exception:
            zs = None
        if zs is not None and _BUNDLED["dir"]:
            import os

            path = os.path.join(_BUNDLED["dir"], *zid.split("/"))
            try:
                with open(path, "rb") as f:
                    zs.append(zoneinfo.ZoneInfo.from_file(f, key=zid))
            except Exception:
                zs = None
        _ZI[zid] = zs if zs is not None else False
    return zs or None


def zone_local(zid, inst_secs):
    """UTC offset (seconds) of a zone at a UTC instant, or None when it is not decided: instant outside
    1980-2019, zone unknown to one of the databases, the databases consulted disagree, or the local
    wall-clock time of the instant is ambiguous or non-existent in one of them (PEP 495 fold test).
    Without the compiled copy of the tz database bundled with chrono-tz only the system database is
    available; then the offset must also be one and the same from 48 h before to 48 h after."""
    zs = _zone_objects(zid)
    if not zs:
        return None
    lo = R.days_from_civil(1980, 1, 3) * 86400
    hi = R.days_from_civil(2019, 12, 28) * 86400
    if not lo <= inst_secs <= hi:
        return None
    base = datetime.datetime(1970, 1, 1, tzinfo=datetime.timezone.utc)
    offs = set()
    deltas = (0,) if _BUNDLED["dir"] else (-48 * 3600, -24 * 3600, 0, 24 * 3600, 48 * 3600)
    for z in zs:
        for delta in deltas:
            t = (base + datetime.timedelta(seconds=inst_secs + delta)).astimezone(z)
            offs.add(t.utcoffset())
    if len(offs) != 1:
        return None
    off = offs.pop()
    naive = (base + datetime.timedelta(seconds=inst_secs)).replace(tzinfo=None) + off
    for z in zs:
        o0 = naive.replace(tzinfo=z, fold=0).utcoffset()
        o1 = naive.replace(tzinfo=z, fold=1).utcoffset()
        if o0 != o1 or o0 != off:
            return None  # ambiguous (fold) or non-existent (gap) local time
    return int(off.total_seconds())


_TRANSITIONS = {}


def zone_transitions(zid):
    """UTC instants (seconds) in 1980-2019 at which the zone's offset changes, in every database consulted (to the second)"""
    ts = _TRANSITIONS.get(zid)
    if ts is None:
        ts = []
        zs = _zone_objects(zid)
        if zs:
            base = datetime.datetime(1970, 1, 1, tzinfo=datetime.timezone.utc)
            z = zs[0]
            off_at = lambda sec: (base + datetime.timedelta(seconds=sec)).astimezone(z).utcoffset()
            day = R.days_from_civil(1980, 1, 5)
            end = R.days_from_civil(2019, 12, 20)
            prev = off_at(day * 86400)
            while day < end:
                day += 1
                cur = off_at(day * 86400)
                if cur != prev:
                    a, b2 = (day - 1) * 86400, day * 86400
                    while b2 - a > 1:
                        mid = (a + b2) // 2
                        if off_at(mid) == prev:
                            a = mid
                        else:
                            b2 = mid
                    ts.append(b2)
                    prev = cur
        _TRANSITIONS[zid] = ts
    return ts


def render_dt(inst_nanos, zone):
    """Literal text of an instant in a zone spec: None (local = UTC here), ('off', secs), ('zone', id, off)."""
    secs, nanos = divmod(inst_nanos, R.NANOS)
    off = 0 if zone is None else zone[1] if zone[0] == "off" else zone[2]
    days, rem = divmod(secs + off, 86400)
    y, m, d = R.civil_from_days(days)
    if zone is None:
        ztxt = ""
    elif zone[0] == "off":
        ztxt = R.fmt_offset(off, z_for_zero=True)
    else:
        ztxt = "@" + zone[1]
    return (y, m, d, rem // 3600, rem % 3600 // 60, rem % 60, nanos, off), "%sT%s%s" % (R.fmt_date(y, m, d), R.fmt_time(rem // 3600, rem % 3600 // 60, rem % 60, nanos), ztxt)


def rand_zone_spec(rng, inst_secs, allow_zone):
    c = rng.random()
    if allow_zone and c < 0.35:
        for _ in range(8):
            zid = rng.choice(CURATED_ZONES if (not ALL_ZONES or rng.random() < 0.5) else ALL_ZONES)
            off = zone_local(zid, inst_secs)
            if off is not None:
                return ("zone", zid, off)
    if c < 0.5:
        return ("off", 0)
    secs = rng.randint(0, 14 * 3600 + 59 * 60 + 59)
    if rng.random() < 0.75:
        secs -= secs % 60
    if rng.random() < 0.5:
        secs -= secs % 3600
    return ("off", -secs if rng.random() < 0.5 else secs)


DELTAS = [0, 0, 1, -1, 999_999_999, R.NANOS, -R.NANOS, 60 * R.NANOS, 3600 * R.NANOS, -3600 * R.NANOS, 86400 * R.NANOS, -86400 * R.NANOS, 7200 * R.NANOS, 30 * 60 * R.NANOS]


def dtval(text):
    return {"feel": 'date and time("%s")' % text}


def dtd_fmt(g):
    return g.get("dtd") if isinstance(g, dict) else g


def run_date_times(rep, rng, quick):
    n = 5000 if quick else 40000
    b = Batch(per_case=8)
    zone_pairs = 0
    near = 0
    lo80 = R.days_from_civil(1980, 2, 1) * 86400
    hi19 = R.days_from_civil(2019, 12, 1) * 86400
    for k in range(n):
        mode = rng.random()
        local = mode < 0.12
        near_zid = None
        if mode < 0.6:
            base = rng.randint(lo80, hi19)
            allow_zone = not local
            if allow_zone and rng.random() < 0.3:
                # instants within hours of a transition of a named zone (unambiguous local times only: zone_local decides)
                zid = rng.choice(CURATED_ZONES)
                ts = zone_transitions(zid)
                if ts:
                    near_zid = zid
                    base = rng.choice(ts) + rng.randint(-15 * 3600, 15 * 3600)
        else:
            y = rng.choice([rng.randint(1000, 9999), rng.randint(1600, 2400), rng.randint(1001, 200000), rng.randint(1000, 9999), rng.randint(262144, R.YEAR_MAX - 1)])
            base = R.days_from_civil(y, rng.randint(1, 12), rng.randint(1, 28)) * 86400 + rng.randint(0, 86399)
            allow_zone = False
        insts = []
        for j in range(3):
            if near_zid is not None:
                delta = rng.choice(DELTAS) if rng.random() < 0.3 else rng.randint(-16 * 3600, 16 * 3600) * R.NANOS
            elif j == 0 or rng.random() < 0.75:
                delta = rng.choice(DELTAS) if rng.random() < 0.6 else rng.randint(-40 * 86400, 40 * 86400) * R.NANOS + rng.randint(0, R.NANOS - 1)
            elif allow_zone or local:
                delta = rng.randint(-400 * 86400, 400 * 86400) * R.NANOS
            elif rng.random() < 0.7:
                delta = rng.randint(-250 * 365 * 86400, 250 * 365 * 86400) * R.NANOS
            else:
                # an unrelated instant, possibly more than 292 years (2^63 ns) away or beyond chrono's year range
                yy = rng.choice([rng.randint(1000, 9999), rng.randint(1000, 9999), rng.randint(10000, 262000), rng.randint(262144, R.YEAR_MAX - 1)])
                delta = (R.days_from_civil(yy, rng.randint(1, 12), rng.randint(1, 28)) * 86400 + rng.randint(0, 86399) - base) * R.NANOS
            inst = base * R.NANOS + delta
            nan = rand_safe_nanos(rng)
            inst = inst - inst % R.NANOS + nan
            insts.append(inst)
        ops = []
        for inst in insts:
            zone = None if local else rand_zone_spec(rng, inst // R.NANOS, allow_zone)
            if near_zid is not None and rng.random() < 0.8:
                noff = zone_local(near_zid, inst // R.NANOS)
                if noff is not None:
                    zone = ("zone", near_zid, noff)
                    near += 1
            fields, text = render_dt(inst, zone)
            if not 1000 <= fields[0] <= R.YEAR_MAX:
                break
            ops.append((inst, zone, fields, text))
        if len(ops) < 3:
            continue
        if any(z is not None and z[0] == "zone" for _, z, _, _ in ops):
            zone_pairs += 1
        (ia, za, fa, ta), (ix, zx, fx, tx), (iy, zy, fy, ty) = ops
        (ilo, tlo), (ihi, thi) = sorted([(ix, tx), (iy, ty)])
        zk = "local" if local else ("zone" if any(z[0] == "zone" for z in (za, zx, zy)) else "offset")
        rc = range_class(fa[0], fx[0], fy[0])
        tag = "%s:%s" % (zk, rc)
        rcx = range_class(fa[0], fx[0])
        tagx = "%s:%s" % (zk, rcx)
        desc = "a=%s x=%s lo=%s hi=%s" % (ta, tx, tlo, thi)
        rep.seen(("dt", ta, tx, ty))
        if k < 3:
            rep.sample({"a": ta, "x": tx, "instant_a_ns": ia, "instant_x_ns": ix, "expected a - x": R.canon_dtd(ia - ix)})
        span = abs(ia - ix)
        subtag = tagx if span < 2**63 or rcx != "in-chrono-range" else "span>292y"
        items = [
            ("{0} = {1}", expect("dt:eq:%s" % tagx, "a = x, " + desc, ia == ix)),
            ("{0} != {1}", expect("dt:eq:%s" % tagx, "a != x, " + desc, ia != ix)),
            ("{0} in (< {1})", expect("dt:unary:%s" % tagx, "a in (< x), " + desc, ia < ix)),
            ("{0} in (<= {1})", expect("dt:unary:%s" % tagx, "a in (<= x), " + desc, ia <= ix)),
            ("{0} in (> {1})", expect("dt:unary:%s" % tagx, "a in (> x), " + desc, ia > ix)),
            ("{0} in (>= {1})", expect("dt:unary:%s" % tagx, "a in (>= x), " + desc, ia >= ix)),
            ("{0} between {2} and {3}", expect("dt:range:%s" % tag, "a between lo and hi, " + desc, ilo <= ia <= ihi)),
            ("{0} in [{2}..{3}]", expect("dt:range:%s" % tag, "a in [lo..hi], " + desc, ilo <= ia <= ihi)),
            ("{0} in ({2}..{3})", expect("dt:range:%s" % tag, "a in (lo..hi), " + desc, ilo < ia < ihi)),
            ("{0} in ({2}..{3}]", expect("dt:range:%s" % tag, "a in (lo..hi], " + desc, ilo < ia <= ihi)),
            ("{0} in [{2}..{3})", expect("dt:range:%s" % tag, "a in [lo..hi), " + desc, ilo <= ia < ihi)),
            ("{0} - {1}", expect("dt:sub:%s" % subtag, "a - x, " + desc, R.canon_dtd(ia - ix), dtd_fmt)),
            ("{1} - {0}", expect("dt:sub:%s" % subtag, "x - a, " + desc, R.canon_dtd(ix - ia), dtd_fmt)),
        ]
        # properties of a
        want_off = None if za is None else R.canon_dtd(fa[7] * R.NANOS)
        want_tz = za[1] if za is not None and za[0] == "zone" else None
        ptag = "%s:%s" % ("local" if za is None else za[0] if za[0] == "zone" else "offset", range_class(fa[0]))
        items.append(
            (
                "[{0}.year, {0}.month, {0}.day, {0}.hour, {0}.minute, {0}.second]",
                expect("prop:dt:fields:%s" % ptag, "fields of " + ta, list(fa[:6]), lambda g: [int(num(x)) if num(x) is not None else None for x in g] if isinstance(g, list) else g),
            )
        )
        items.append(("{0}.weekday", expect("prop:dt:weekday:%s" % ptag, "weekday of " + ta, R.weekday(*fa[:3]), lambda g: int(num(g)) if num(g) is not None else g)))
        items.append(("{0}.time offset", expect("prop:dt:time-offset:%s" % ptag, "time offset of " + ta, want_off, dtd_fmt)))
        items.append(("{0}.timezone", expect("prop:dt:timezone:%s" % ptag, "timezone of " + ta, want_tz, lambda g: g.get("s") if isinstance(g, dict) else g)))
        b.group([dtval(ta), dtval(tx), dtval(tlo), dtval(thi)], items)
    # hostile operands: only panics are decided
    hostile = [
        'date and time("2021-03-28T02:30:00@Europe/Warsaw")',
        'date and time("2015-03-08T02:30:00@America/New_York")',
        'date and time("2021-10-31T02:30:00@Europe/Warsaw")',
        'date and time(date("2021-01-01"), time(10, 0, 0, duration("P2D")))',
        'date and time(date("2021-01-01"), time(10, 0, 0, duration("-PT23H59M59S")))',
        'date and time("2021-01-01T10:00:59.99999999999999999Z")',
        'date and time("999999999-12-31T23:59:59.999999999+14:59:59")',
        'date and time("-999999999-01-01T00:00:00-14:59:59")',
        'date and time("2021-06-30T23:59:59@Europe/Warsaw")',
    ]
    other = 'date and time("2021-01-01T00:00:00Z")'
    for h in hostile:
        items = [(t, only_panics("%s with %s" % (t, h))) for t in ("{0} = {1}", "{0} = {0}", "{0} in (< {1})", "{0} between {1} and {0}", "{0} - {1}", "{1} - {0}", "{0}.time offset", "{0}.weekday", "string({0})")]
        b.group([{"feel": h}, {"feel": other}], items)
    # properties of times (the offset of a named zone depends on today's date for a time: not decided)
    n_t = 1000 if quick else 20000
    ints = lambda g: [int(num(x)) if num(x) is not None else None for x in g] if isinstance(g, list) else g
    for k in range(n_t):
        h, mi, se = rng.randint(0, 23), rng.randint(0, 59), rng.randint(0, 59)
        nan = rand_safe_nanos(rng)
        c = rng.random()
        if c < 0.2:
            zone, ztxt = None, ""
        elif c < 0.8:
            zone = rand_zone_spec(rng, 0, False)
            ztxt = R.fmt_offset(zone[1], z_for_zero=True)
        else:
            zone = ("zone", rng.choice(CURATED_ZONES), None)
            ztxt = "@" + zone[1]
            h = rng.randint(6, 20)
        text = R.fmt_time(h, mi, se, nan) + ztxt
        if zone is not None and zone[0] == "off" and rng.random() < 0.5:
            val = {"feel": 'time(%d, %d, %d%s, duration("%s"))' % (h, mi, se, R.fmt_fraction(nan), R.canon_dtd(zone[1] * R.NANOS))}
            text = val["feel"]
        elif zone is None and rng.random() < 0.5:
            val = {"feel": "time(%d, %d, %d%s)" % (h, mi, se, R.fmt_fraction(nan))}
            text = val["feel"]
        else:
            val = {"feel": 'time("%s")' % text}
        rep.seen(("time-props", text))
        ptag = "local" if zone is None else "zone" if zone[0] == "zone" else "offset"
        items = [("[{0}.hour, {0}.minute, {0}.second]", expect("prop:time:fields:%s" % ptag, "fields of " + text, [h, mi, se], ints))]
        if ptag != "zone":
            items.append(("{0}.time offset", expect("prop:time:time-offset:%s" % ptag, "time offset of " + text, None if zone is None else R.canon_dtd(zone[1] * R.NANOS), dtd_fmt)))
        items.append(("{0}.timezone", expect("prop:time:timezone:%s" % ptag, "timezone of " + text, zone[1] if ptag == "zone" else None, lambda g: g.get("s") if isinstance(g, dict) else g)))
        b.group([val], items)
    b.run(rep, "datetimes")
    rep.extra["time_property_groups"] = n_t
    rep.extra["datetime_groups"] = n
    rep.extra["datetime_groups_with_named_zone"] = zone_pairs
    rep.extra["datetime_operands_within_16h_of_a_zone_transition"] = near
    rep.extra["curated_zones"] = len(CURATED_ZONES)


# ------------------------------------------------------------------------------------------------
# F. whole months between two dates
# ------------------------------------------------------------------------------------------------


def run_ym_between(rep, rng, quick):
    n = 8000 if quick else 200000
    b = Batch(per_case=60)
    amb = 0
    for k in range(n):
        a = rand_date_any(rng, "mid" if rng.random() < 0.9 else "far")
        c = rng.random()
        if c < 0.5:
            z = R.days_from_civil(*a) + rng.randint(-800, 800)
            t = R.civil_from_days(z)
        elif c < 0.7:
            m = rng.randint(1, 12)
            t = (a[0], m, rng.randint(1, R.days_in_month(a[0], m)))
        else:
            t = rand_date_any(rng, "mid")
        if c > 0.93:
            # end-of-month pairs: the clipping question (Jan 31 -> Feb 28) and its neighbours
            y1 = rng.randint(1000, 9999)
            m1, m2 = rng.randint(1, 12), rng.randint(1, 12)
            y2 = y1 + rng.choice([0, 0, 1, -1, 4])
            a = (y1, m1, R.days_in_month(y1, m1) - rng.choice([0, 0, 1, 2]))
            t = (y2, m2, R.days_in_month(y2, m2) - rng.choice([0, 0, 1]))
        if abs(t[0]) > R.YEAR_MAX:
            continue
        months, ambiguous = R.whole_months_between(a, t)
        rep.seen(("ym", a, t))
        if ambiguous:
            amb += 1
            rep.undecided += 1
            continue
        direction = "forward" if a <= t else "backward"
        span = "same-year" if a[0] == t[0] else "cross-year"
        desc = "years and months duration(%s, %s)" % (R.fmt_date(*a), R.fmt_date(*t))

        def cb(rep_, how, got, rcase, months=months, desc=desc, sig="ym-between:%s:%s" % (direction, span)):
            if how == "panic":
                rep_.violation(R.panic_site_signature(got), "panic in %s: %s" % (desc, got.get("msg")), {"variant": "dbg", "case": rcase})
                return
            want = R.canon_ymd(months)
            g = got.get("ymd") if isinstance(got, dict) else None
            if g == want or (months == 0 and g in R.ZERO_YMD):
                return
            kind = "null" if got is None else "wrong"
            c = R.classify_ymd(g) if isinstance(g, str) else None
            if c is not None and c.status == "valid" and c.value - months == -1:
                kind = "one-month-too-low"
            rep_.violation("%s:%s" % (sig, kind), "%s: expected %s, observed %s" % (desc, want, show(got)), {"variant": "dbg", "case": rcase, "expected": want, "observed": got})

        b.group([dval(a), dval(t)], [("years and months duration({0}, {1})", cb)])
    b.run(rep, "ymbetween")
    rep.extra["ym_between_pairs"] = n
    rep.extra["ym_between_ambiguous_end_of_month"] = amb


# ------------------------------------------------------------------------------------------------
# G. durations
# ------------------------------------------------------------------------------------------------


def rand_dtd(rng):
    mag = rng.choice([rng.randint(0, 200), rng.randint(0, 10**6), rng.randint(0, 10 ** rng.randint(7, 18)), 86400, 86399, 3600, 60, 59, 0])
    total = mag * R.NANOS
    if rng.random() < 0.25:
        n = rand_safe_nanos(rng)
        total += n
    return -total if rng.random() < 0.4 else total


def rand_ymd(rng):
    mag = rng.choice([rng.randint(0, 30), rng.randint(0, 10**4), rng.randint(0, 10 ** rng.randint(5, 17)), 12, 11, 13, 0])
    return -mag if rng.random() < 0.4 else mag


def dur_text(kind, total):
    """A literal for the value, not always in normal form."""
    return R.canon_dtd(total) if kind == "dtd" else R.canon_ymd(total)


def run_durations(rep, rng, quick):
    n = 4000 if quick else 60000
    b = Batch(per_case=10)
    for k in range(n):
        kind = "dtd" if rng.random() < 0.6 else "ymd"
        gen = rand_dtd if kind == "dtd" else rand_ymd
        a = gen(rng)
        x = rng.choice([a, -a, a + (R.NANOS if kind == "dtd" else 1), gen(rng), gen(rng)])
        y = gen(rng)
        lo, hi = min(x, y), max(x, y)
        canon = R.canon_dtd if kind == "dtd" else R.canon_ymd
        key = kind
        desc = "a=%s x=%s lo=%s hi=%s" % (canon(a), canon(x), canon(lo), canon(hi))
        rep.seen(("dur", kind, a, x, y))
        fm = (lambda g, key=key: g.get(key) if isinstance(g, dict) else g)
        items = [
            ("{0} + {1}", expect("dur:%s:add" % kind, "a + x, " + desc, canon(a + x), fm)),
            ("-{0}", expect("dur:%s:neg" % kind, "-a, " + desc, canon(-a), fm)),
            ("{0} = {1}", expect("dur:%s:eq" % kind, "a = x, " + desc, a == x)),
            ("{0} != {1}", expect("dur:%s:eq" % kind, "a != x, " + desc, a != x)),
            ("{0} in (< {1})", expect("dur:%s:unary" % kind, "a in (< x), " + desc, a < x)),
            ("{0} in (<= {1})", expect("dur:%s:unary" % kind, "a in (<= x), " + desc, a <= x)),
            ("{0} in (> {1})", expect("dur:%s:unary" % kind, "a in (> x), " + desc, a > x)),
            ("{0} in (>= {1})", expect("dur:%s:unary" % kind, "a in (>= x), " + desc, a >= x)),
            ("{0} between {2} and {3}", expect("dur:%s:range" % kind, "a between lo and hi, " + desc, lo <= a <= hi)),
            ("{0} in [{2}..{3}]", expect("dur:%s:range" % kind, "a in [lo..hi], " + desc, lo <= a <= hi)),
            ("{0} in ({2}..{3})", expect("dur:%s:range" % kind, "a in (lo..hi), " + desc, lo < a < hi)),
        ]
        if kind == "dtd":

            def cb(rep_, how, got, rcase, a=a):
                if how == "panic":
                    rep_.violation(R.panic_site_signature(got), "panic reading components of %s" % R.canon_dtd(a), {"variant": "dbg", "case": rcase})
                    return
                comps = [num(v) for v in got] if isinstance(got, list) else None
                if not comps or any(c is None for c in comps):
                    rep_.violation("dur:dtd:components:null", "components of %s: %s" % (R.canon_dtd(a), show(got)), {"variant": "dbg", "case": rcase, "observed": got})
                    return
                d, h, mi, s = comps
                whole = abs(a) // R.NANOS * (1 if a >= 0 else -1)
                frac = Decimal(abs(a) % R.NANOS) / Decimal(R.NANOS) * (1 if a >= 0 else -1)
                total = ((d * 24 + h) * 60 + mi) * 60 + s
                in_range = abs(h) < 24 and abs(mi) < 60 and abs(s) < 60
                same_sign = all(c >= 0 for c in comps) if a >= 0 else all(c <= 0 for c in comps)
                if in_range and same_sign and total in (whole, whole + frac):
                    return
                if a < 0 and in_range and -total in (whole, whole + frac):
                    rep_.violation(
                        "dur:dtd:components:negative-sign-lost",
                        "components of %s are [%s, %s, %s, %s]: they add up to the opposite duration" % (R.canon_dtd(a), d, h, mi, s),
                        {"variant": "dbg", "case": rcase, "expected": "components adding up to %s s" % whole, "observed": got},
                    )
                    return
                rep_.violation("dur:dtd:components:wrong", "components of %s are [%s, %s, %s, %s]" % (R.canon_dtd(a), d, h, mi, s), {"variant": "dbg", "case": rcase, "expected": "components adding up to %s s" % whole, "observed": got})

            items.append(("[{0}.days, {0}.hours, {0}.minutes, {0}.seconds]", cb))
        else:

            def cb(rep_, how, got, rcase, a=a):
                if how == "panic":
                    rep_.violation(R.panic_site_signature(got), "panic reading components of %s" % R.canon_ymd(a), {"variant": "dbg", "case": rcase})
                    return
                comps = [num(v) for v in got] if isinstance(got, list) else None
                if not comps or any(c is None for c in comps):
                    rep_.violation("dur:ymd:components:null", "components of %s: %s" % (R.canon_ymd(a), show(got)), {"variant": "dbg", "case": rcase, "observed": got})
                    return
                yy, mm = comps
                same_sign = all(c >= 0 for c in comps) if a >= 0 else all(c <= 0 for c in comps)
                if abs(mm) < 12 and same_sign and yy * 12 + mm == a:
                    return
                if a < 0 and abs(mm) < 12 and -(yy * 12 + mm) == a:
                    rep_.violation("dur:ymd:components:negative-sign-lost", "components of %s are [%s, %s]" % (R.canon_ymd(a), yy, mm), {"variant": "dbg", "case": rcase, "observed": got})
                    return
                rep_.violation("dur:ymd:components:wrong", "components of %s are [%s, %s]" % (R.canon_ymd(a), yy, mm), {"variant": "dbg", "case": rcase, "expected": "years*12 + months = %d" % a, "observed": got})

            items.append(("[{0}.years, {0}.months]", cb))
        b.group([{kind: dur_text(kind, a)}, {kind: dur_text(kind, x)}, {kind: dur_text(kind, lo)}, {kind: dur_text(kind, hi)}], items)
    b.run(rep, "durations")
    rep.extra["duration_groups"] = n


# ------------------------------------------------------------------------------------------------
# run
# ------------------------------------------------------------------------------------------------


def run(rep, tier, seed):
    quick = tier == "quick"
    rep.rule = (
        "exhaustive in both tiers: every (y, m, d) with y in -1..2400, m in 0..13, d in 0..32 (validity through date(y, m, d) and through the literal, weekday of every valid date, "
        "order of consecutive dates); seeded: out-of-range components of date(y, m, d), date triples up to year +-999999999 (<, <=, >, >=, =, !=, between, in, unary tests, "
        "year/month/day/weekday), date-time triples with offsets and named zones (=, !=, unary tests, between, 4 interval forms, subtraction both ways, all properties), "
        "whole months between two dates, duration triples (add, negate, =, unary tests, between, in, components). A case is distinct by its operands; trivial cases: none."
    )
    rep.assumptions = [
        "proleptic Gregorian day-number arithmetic on unbounded integers (lib/rtemporal.py), cross-checked against datetime/calendar for years 1..9999 at every run",
        "named zones: instants in 1980-2019 at which the system tz database AND the tz database bundled with chrono-tz 0.6 (2022a, compiled with zic from the crate's sources) give the same UTC offset and whose local wall-clock time is neither ambiguous nor non-existent in either (PEP 495 fold test); 30%% of the zoned groups are placed within 16 h of a transition of a curated zone (%d curated zones; every zone id without digits/+/- is used otherwise); without the compiled copy only the curated zones on the system database and only instants whose offset is constant from 48 h before to 48 h after; everything else with a named zone is not generated" % len(CURATED_ZONES),
        "date-times are ordered through `between`, `in` and unary tests (the evaluator does not implement `<` for them); local date-times are compared only with local ones, with TZ=UTC in the driver's environment",
        "literal fractions are restricted to digit patterns that survive the implementation's f64 detour (C14 finding lossy:time:fraction-minus-1ns), so that C15 judges the time line, not the literal reader",
        "undecided: year 0000 as a literal; whole months when the later day-of-month is the clipped end of a shorter month (Jan 31 -> Feb 28); results of comparisons with a date-time inside a DST gap or with an offset beyond +-24 h (only panics count there)",
    ]
    n_self = R.self_test()
    rep.extra["reference_calendar_selfcheck_comparisons"] = n_self
    rep.sample({"reference": "weekday(2021, 1, 1) = %d, days_from_civil(2000, 3, 1) = %d" % (R.weekday(2021, 1, 1), R.days_from_civil(2000, 3, 1))})
    _BUNDLED["dir"] = build_bundled_tzdb(rep.workdir)
    _ZI.clear()
    del ALL_ZONES[:]
    rep.extra["bundled_tzdb_compiled"] = bool(_BUNDLED["dir"])
    if _BUNDLED["dir"]:
        zr, _ = runner.run_cases("dbg", [{"op": "zones"}], rep.workdir, label="zones", extra_env=ENV)
        _harness_ok(zr[0])
        for zid in sorted(zr[0].get("zones") or []):
            if all(c.isalpha() and c.isascii() or c in "_/" for c in zid) and _zone_objects(zid):
                ALL_ZONES.append(zid)
    rep.extra["zones_decidable"] = len(ALL_ZONES) or len(CURATED_ZONES)
    cells = sweep(rep, -1, 2400)
    rep.extra["exhaustive"] = True
    rep.extra["exhaustive_parts"] = ["calendar sweep y in -1..2400 x m in 0..13 x d in 0..32"]
    run_ctor(rep, rng_for(seed, "c15-ctor"), quick)
    run_date_order(rep, rng_for(seed, "c15-dates"), quick)
    run_date_times(rep, rng_for(seed, "c15-dt"), quick)
    run_ym_between(rep, rng_for(seed, "c15-ym"), quick)
    run_durations(rep, rng_for(seed, "c15-dur"), quick)
    if cells < 2402 * 14 * 33:
        rep.inconclusive_reason("calendar sweep incomplete: %d cells" % cells)
    floor = 2_250_000 if quick else 3_000_000
    if rep.evaluations < floor:
        rep.inconclusive_reason("only %d observations (floor %d)" % (rep.evaluations, floor))
