"""C08 — built-in functions return their specified value for all arguments.

Two monitors over observations of the real parser + evaluator (driver op `evalmany`):

1. reference oracle: every invocation `f(args)` is compared with R-BIF (lib/rbif.py), an independent
   Python reference of the listed functions written from DMN 1.3 section 10.3.4;
2. metamorphic: `f(name1: a, name2: b)` (parameter names of the specification / named.rs, in
   several orders) must give the same value as `f(a, b)` — no reference involved.

Argument VALUES are bound to names in the scope (the lexer is not involved in building them);
a share of the tuples is additionally spelled with literal arguments.
"""
import itertools
import json
import os
import re
from decimal import Decimal as D

import runner
import rbif
from rbif import ABSENT, UNDECIDED, Amb, Ctx, Opaque, kind
from common import crash_signature, panic_signature, rng_for, warm

LEVEL = "exploration"

# ------------------------------------------------------------------------------------------------
# value pools
# ------------------------------------------------------------------------------------------------
FN_LT = Opaque("function", {"feel": "function(x,y) x < y"}, tag="lt")
FN_GT = Opaque("function", {"feel": "function(x,y) x > y"}, tag="gt")
FN_UNARY = Opaque("function", {"feel": "function(x) x"}, tag=None)
DATE = Opaque("date", {"d": "2021-01-01"})
DURATION = Opaque("days and time duration", {"dtd": "P1D"})
RANGE = Opaque("range", {"r": [{"n": "1"}, True, {"n": "2"}, True]})

LITERAL_OF_OPAQUE = {
    id(FN_LT): "function(x,y) x < y",
    id(FN_GT): "function(x,y) x > y",
    id(FN_UNARY): "function(x) x",
    id(DATE): 'date("2021-01-01")',
    id(DURATION): 'duration("P1D")',
    id(RANGE): "[1..2]",
}

STRINGS = ["", "a", "abc", "foobar", "a b", " abc ", "ab ab", "é", "aéb", "中文字", "a中b", "\U0001F600", "a\U0001F600b", "\U0001F600\U0001F600", "é中\U0001F600", "abcabc", "ABC", "1", "12.5", "x,y;z"]
MATCHES = ["", "a", "b", "ab", "bc", "abc", " ", "é", "中", "\U0001F600", "b\U0001F600", "A", "z", "abcabc", "é中"]
POS_STRINGS = ["", "a", "ab", "abc", "foobar", "aéb", "中文字", "a\U0001F600b", "\U0001F600\U0001F600", "é中\U0001F600x", " abc "]

n = D
POS_LISTS = [
    [],
    [n(1)],
    [n(1), n(2)],
    [n(1), n(2), n(3)],
    [n(1), None, n(3)],
    [[n(1)], [n(2), n(3)]],
    [n(1), n(2), n(2), n(3), n(1)],
    ["a", "b", "a", None, "\U0001F600", [n(1)]],
    [n(5), n(3), n(8), n(1), n(9), n(2), n(7), n(3)],
]
NUM_LISTS = [
    [],
    [n(1)],
    [n("2.5")],
    [n(1), n(2), n(6)],
    [n(1), n(2), n(3), n(4)],
    [n(2), n(4), n(7), n(5)],
    [n(6), n(3), n(9), n(6), n(6)],
    [n(6), n(1), n(9), n(6), n(1)],
    [n(1), n("1.0"), n(2)],
    [n(3), n(1), n(2)],
    [n(-1), n(1)],
    [n("0.1"), n("0.2"), n("0.3")],
    [n(1), n(1), n(1)],
    [n(1), n(2)],
    [n(5), n(3), n(8), n(1), n(9), n(2), n(7), n(3)],
    [n(1), n(2), n(3), n(4), n(5), n(6), n(7), n(10)],
    [n("1E+2"), n(100), n("100.0")],
    [n(1), None],
    [None, n(1)],
    [n(1), None, n(3)],
    [None],
    [None, None],
    [n(1), "a"],
    ["a", n(1)],
    [n(1), True],
    [[n(1)], [n(2)]],
    [n(1), [n(2)]],
    ["a", "b", "c"],
    ["b", "a", "é", "\U0001F600"],
    ["John", "Johnny"],
    ["a", None],
    ["", "a"],
    [True, False],
    [DATE, DATE],
]
GEN_LISTS = [
    [],
    [n(1)],
    [None],
    [[]],
    [n(1), n(2), n(3)],
    [n(1), n(2), n(2), n(3), n(1)],
    [n(1), n("1.0"), n(2)],
    [n(1), None, n(3)],
    [None, None],
    [[n(1)], [n(2), [n(3)]]],
    [[n(1), n(2)], [n(1), n(2)]],
    [[n(1)], [n("1.0")], [n(2)]],
    [[[[n(1)]]], []],
    ["a", "b", "a"],
    ["b", "a", "é", "\U0001F600"],
    [True, False, True],
    [n(1), "a", True, None],
    [n(1), "1", [n(1)]],
    [n(5), n(3), n(8), n(1), n(9), n(2), n(7), n(3)],
    [Ctx([("a", n(1))]), Ctx([("a", n("1.0"))]), Ctx([("b", n(2))])],
    [Ctx([("a", None)]), Ctx([]), None],
    ["", " ", ""],
]
ELEMENTS = [n(1), n("1.0"), n(2), n(9), None, "a", "1", "", True, [n(1)], [n("1.0")], [], [n(1), n(2)], Ctx([("a", n(1))]), Ctx([("a", n("1.00"))]), Ctx([])]
CONTEXTS = [
    Ctx([]),
    Ctx([("a", n(1))]),
    Ctx([("a", n(1)), ("b", "x")]),
    Ctx([("a", None)]),
    Ctx([("key", "k"), ("value", n(2))]),
    Ctx([("a", Ctx([("b", n(1))]))]),
    Ctx([("a", [n(1), n(2)]), ("b", True), ("c", None)]),
]
KEYS = ["a", "b", "c", "key", "value", "zz", "", "A"]
BOOL_ITEMS = [True, False, None]
NUMBER_FROM = [
    "1", "12", "0", "007", "1.5", "1,5", "1 000", "1,000.21", "1.000,21", "1 000,5", "1 000.5", "-1", "-.5", ".5", "-0.5", "0.10",
    "1.", "+1", "1e5", "1E5", "1e-2", " 1", "1 ", "", "abc", "1,2,3", "1..2", "1,,5", "0x10", "--1", "-", ".", ",", "١٢", "1\u00000",
    "Infinity", "NaN", "-Infinity", "inf", "12345678901234567890123456789012345", "1234567890123456789012345678901234", "1 000 000", "1.000.000,5",
]
NUMBER_GROUPING = [None, " ", ",", ".", ";", "", "  ", n(1), True]
NUMBER_DECIMAL = [None, ".", ",", ";", " ", "", n(1), False]
STRING_FROM = [
    n(0), n(1), n(-1), n("1.0"), n("1.10"), n("1.5"), n("-2.50"), n("0.1"), n("100"), n("1E+2"), n("1E+3"), n("12345.678"), n("1E-7"), n("-0.00000015"),
    n("0.000001"), n("123456789012345678901234567890.1234"), n("-0.0"), n("1E+10"), n("0.5"), n("-0.5"), n("0.05"), n("-12.00"),
    "", "a", " a ", "\U0001F600", True, False, None, [], [n(1), "a"], Ctx([("a", n(1))]), DATE, DURATION, RANGE, FN_LT,
]
DIVERSE = [None, True, n(1), n("1.0"), n("1.5"), "a", "", [], [n(1)], ["a"], [n(1), n(2)], Ctx([("a", n(1))]), DATE, DURATION, RANGE, FN_LT]

REGEX_SUBJECTS = ["abracadabra 12345678", "hello world", "", "a", "abc", "foobar", "abracadabra", "a b  c", "  abc ", "ABC", "aXbxc", "a1b22c333", "a;b;c;;", "é中\U0001F600", "a\U0001F600b", "hello\nworld", "x,y;z", "aaa"]
REGEX_PATTERNS = [
    "a", "b", "abc", "z", "^a", "a$", "^abc$", "^fo*b", "bra", "^a.*a$", "^bra", "hello.*world", ".", "a.c", "a*", "a+", "ab?c", "o{2}", "a{1,2}", "a{2,}",
    "a|b", "abc|foo", "(a|b)c", "(ab)+", "(a)(b)", "(b)(r)?", "[abc]", "[a-c]", "[^a-c]", "[a-c]+", "[0-9]+", "\\d", "\\d+", "\\s", "\\s+", "[;,]", ";", "\\.", "b\\s*c",
    "\U0001F600", "[é中]", "a\U0001F600", "A", "[A-Z]", "x", "(x)", " ", "a b", "  ",
    # Unicode-aware classes under counted repetition (large compiled programs: the size limits of the regex engine are far away)
    "\\w", "\\w+", "\\W", "\\W+", "\\w{6}", "^\\w{3}$", "\\w{3,6}", "(\\w{3})(\\w{3})", "\\w{2}\\d", "\\s\\w{5}", "\\S{8}", "\\d{9}", ".{9}", "\\w{9}\\w{9}", "\\w{11}", "[a-z]{11}", "\\S{3}\\s\\S{5}", "\\w{12}|\\w{5}", "\\D{10}",
    # outside the decided subset (counted as undecided; the calls are still checked for panics and named = positional)
    "", "(", "a**", "*a", "a+?", "(?:a)", "(?i)a", "\\p{L}", "[a-c-[b]]", "\\bfoo", "a{,2}", "(a)\\1", "$", "^", "a|", "[", "\\",
]
REGEX_FLAGS = [ABSENT, "", "i", "s", "x", "ix", "m", None, "q", "ii", "g", n(1)]
REPLACEMENTS = ["", "x", "[$1]", "$1", "$2$1", "-", " ", "$0", "\\$", "$", "$1x", "$12", "\U0001F600", None, n(1)]

# named.rs looks `list contains` up under `match`; DMN 1.3 table 74 names the parameter `element`.
# The metamorphic monitor uses the implementation's names (they are the specification's for every
# other function); the specification's name for `list contains` is checked separately.
IMPL_PARAM_NAMES = {"list contains": ["list", "match"]}


# ------------------------------------------------------------------------------------------------
# rendering
# ------------------------------------------------------------------------------------------------
class Interner:
    def __init__(self):
        self.index = {}
        self.values = []

    def name(self, v):
        j = rbif.to_json(v)
        key = json.dumps(j, sort_keys=True, ensure_ascii=True)
        k = self.index.get(key)
        if k is None:
            k = len(self.values)
            self.index[key] = k
            self.values.append(j)
        return "v%d" % k


_SAFE_LITERAL_CHARS = set("abcdefghijklmnopqrstuvwxyzABCDEFGHIJKLMNOPQRSTUVWXYZ0123456789 ,;.:_-+=!@%<>/()[]{}|*?^$'") | set("é中文字\U0001F600")


def literal(v):
    """FEEL literal text of a value, or None when it cannot be spelled without escapes."""
    if v is None:
        return "null"
    if isinstance(v, bool):
        return "true" if v else "false"
    if isinstance(v, D):
        if not v.is_finite() or (v == 0 and v.is_signed()):
            return None  # `-0.0` is the expression -(0.0), not necessarily the bound value
        t = format(v, "f")
        if len(t) > 40:
            return None
        return t
    if isinstance(v, str):
        if all(ch in _SAFE_LITERAL_CHARS for ch in v):
            return '"' + v + '"'
        return None
    if isinstance(v, list):
        parts = [literal(x) for x in v]
        if any(p is None for p in parts):
            return None
        return "[" + ", ".join(parts) + "]"
    if isinstance(v, Ctx):
        parts = []
        for k, x in v.entries:
            lx = literal(x)
            if lx is None or not k.isalnum() or not k.isascii():
                return None
            parts.append("%s: %s" % (k, lx))
        return "{" + ", ".join(parts) + "}"
    if isinstance(v, Opaque):
        return LITERAL_OF_OPAQUE.get(id(v))
    return None


def param_names(spec, nargs):
    names = IMPL_PARAM_NAMES.get(spec.name) or [p[0] for p in spec.params]
    return names[:nargs]


def named_applicable(spec, args):
    if not spec.named:
        return False
    lo, hi = spec.arities()
    if spec.variadic == "items":
        # f(list: x) binds the list parameter; f(x) with a non-list x is the c1..cN form: not the same call
        return len(args) == 1 and (isinstance(args[0], list) or args[0] is None)
    return lo <= len(args) <= (hi if hi is not None else len(args))


def orders_for(nargs, tier, salt):
    ident = tuple(range(nargs))
    if nargs <= 1:
        return [ident]
    perms = list(itertools.permutations(range(nargs)))
    if tier == "thorough":
        if len(perms) <= 6:
            return perms
        return [ident] + [perms[(salt * 7 + k * 5) % len(perms)] for k in range(1, 6)]
    other = perms[1 + (salt % (len(perms) - 1))]
    return [ident, other]


# ------------------------------------------------------------------------------------------------
# argument classes (evidence + fallback signatures)
# ------------------------------------------------------------------------------------------------
def argclass(v):
    if v is None:
        return "null"
    if isinstance(v, bool):
        return "bool"
    if isinstance(v, D):
        if v == 0:
            return "zero"
        sign = "-" if v < 0 else "+"
        if v.copy_abs() >= D(2) ** 63:
            return sign + "huge"
        if rbif.is_int(v):
            return sign + ("int" if v.as_tuple().exponent >= 0 else "int.0")
        return sign + "frac"
    if isinstance(v, str):
        if v == "":
            return "s-empty"
        top = max(ord(ch) for ch in v)
        cls = "s-ascii" if top < 128 else ("s-bmp" if top < 0x10000 else "s-astral")
        if v != v.strip():
            cls += "+ws"
        if any(ord(ch) < 32 for ch in v):
            cls += "+ctl"
        return cls
    if isinstance(v, list):
        if not v:
            return "l-empty"
        kinds = sorted(set(kind(x) for x in v))
        cls = "l-" + (kinds[0] if len(kinds) == 1 else "mixed")
        if any(x is None for x in v) and len(kinds) > 1:
            cls += "+null"
        if len(v) == 1:
            cls += "+single"
        if any(rbif.same_elem(a, b) for a, b in itertools.combinations(v, 2) if not isinstance(a, Opaque)):
            cls += "+dup"
        return cls
    if isinstance(v, Ctx):
        return "ctx-empty" if not v.entries else "ctx"
    return kind(v)


def position_class(seq, p):
    """Class of a position / length argument relative to the subject's length."""
    if not isinstance(p, D) or not isinstance(seq, (str, list)):
        return argclass(p)
    L = len(seq)
    a = p.copy_abs()
    if p == 0:
        rel = "zero"
    elif a < 1:
        rel = "below1"
    elif a <= L:
        rel = "edge" if (a == L or a == 1) else "in"
    elif a <= L + 1:
        rel = "L+1"
    else:
        rel = "beyond"
    form = "int" if (rbif.is_int(p) and p.as_tuple().exponent >= 0) else ("int.0" if rbif.is_int(p) else "frac")
    return "%s%s/%s" % ("-" if p < 0 else "+", rel, form)


POSITIONAL_FUNCS = {"substring": (1, 2), "sublist": (1, 2), "insert before": (1,), "remove": (1,)}


def classes_of(fname, args):
    out = []
    for k, a in enumerate(args):
        if fname in POSITIONAL_FUNCS and k in POSITIONAL_FUNCS[fname] and args:
            out.append(position_class(args[0], a))
        else:
            out.append(argclass(a))
    return tuple(out)


# ------------------------------------------------------------------------------------------------
# workload
# ------------------------------------------------------------------------------------------------
def _position_values(L):
    ints = list(range(-(L + 2), L + 3))
    vals = [n(k) for k in ints]
    vals += [D("%d.0" % k) for k in ints]
    vals += [D("%d.5" % k) for k in (-(L + 1), -1, 0, 1, L)] + [D("-0.5"), D("0.5"), D("1.00")]
    return vals


def _length_values(L):
    ints = list(range(-1, L + 3))
    return [n(k) for k in ints] + [D("1.0"), D("2.0"), D("1.5"), D("0.5"), D("%d.0" % max(L, 1))]


def gen_focus(tier, rng):
    """Function-specific sweeps. Yields (fname, args, origin)."""
    T = []
    # ---- substring / sublist: every start and every length around the subject's length
    for fname, subjects in (("substring", POS_STRINGS), ("sublist", POS_LISTS)):
        for s in subjects:
            L = len(s)
            ints = [n(k) for k in range(-(L + 2), L + 3)]
            for st in ints:
                T.append((fname, [s, st], "sweep"))
                for ln in [n(k) for k in range(-1, L + 3)]:
                    T.append((fname, [s, st, ln], "sweep"))
            extra_starts = [x for x in _position_values(L) if x not in ints or x.as_tuple().exponent < 0]
            for st in extra_starts:
                T.append((fname, [s, st], "sweep-scale"))
                T.append((fname, [s, st, n(1)], "sweep-scale"))
            for st in (n(1), n(-1), n(2), n(-L) if L else n(-1)):
                for ln in (D("1.0"), D("2.0"), D("1.5"), D("0.5"), D("%d.0" % max(L, 1)), D("%d.5" % L), None):
                    T.append((fname, [s, st, ln], "sweep-scale"))
        big = [D("18446744073709551615"), D("18446744073709551616"), D("9223372036854775807"), D("9223372036854775808"), D("-9223372036854775808"), D("-9223372036854775809"), D("1E+30"), D("-1E+30"), D("4294967296")]
        subj = subjects[3]
        for b in big:
            T.append((fname, [subj, b], "sweep-huge"))
            T.append((fname, [subj, n(2), b], "sweep-huge"))
            T.append((fname, [subj, n(-5), b], "sweep-huge"))
            T.append((fname, [subj, b, n(1)], "sweep-huge"))
        T.append((fname, [subj, n(-5), n(1)], "sweep-huge"))
    # ---- the same sweeps over seeded random subjects
    alphabet = ["a", "b", "c", " ", "Z", "0", "é", "ß", "中", "字", "\U0001F600", "\U0001F40E", "\U00010348"]
    elems = [n(1), n(2), n(3), n("1.0"), None, "a", "b", True, [n(1)], [], Ctx([("a", n(1))])]
    n_random = 12 if tier == "quick" else 350
    random_strings = ["".join(rng.choice(alphabet) for _ in range(rng.randint(0, 8))) for _ in range(n_random)]
    random_lists = [[rng.choice(elems) for _ in range(rng.randint(0, 8))] for _ in range(n_random)]
    for fname, subjects in (("substring", random_strings), ("sublist", random_lists)):
        for s in subjects:
            L = len(s)
            for st in range(-(L + 2), L + 3):
                T.append((fname, [s, n(st)], "random-sweep"))
                for ln in range(-1, L + 3):
                    T.append((fname, [s, n(st), n(ln)], "random-sweep"))
    for lst in random_lists:
        for p in range(-(len(lst) + 2), len(lst) + 3):
            T.append(("remove", [lst, n(p)], "random-sweep"))
            T.append(("insert before", [lst, n(p), rng.choice(elems)], "random-sweep"))
        for e in elems:
            T.append(("index of", [lst, e], "random-sweep"))
            T.append(("list contains", [lst, e], "random-sweep"))
        T.append(("distinct values", [lst], "random-sweep"))
        T.append(("reverse", [lst], "random-sweep"))
        T.append(("flatten", [lst], "random-sweep"))
        T.append(("count", [lst], "random-sweep"))
        other = rng.choice(random_lists)
        T.append(("union", [lst, other], "random-sweep"))
        T.append(("concatenate", [lst, other], "random-sweep"))
        T.append(("append", [lst, rng.choice(elems), rng.choice(elems)], "random-sweep"))
    for s in random_strings:
        T.append(("string length", [s], "random-sweep"))
        for _ in range(6):
            if s and rng.random() < 0.7:
                i = rng.randrange(len(s))
                m = s[i : i + rng.randint(0, 3)]
            else:
                m = "".join(rng.choice(alphabet) for _ in range(rng.randint(0, 2)))
            for fname in ("contains", "starts with", "ends with", "substring before", "substring after"):
                T.append((fname, [s, m], "random-sweep"))
    # ---- insert before / remove
    for lst in POS_LISTS:
        for p in _position_values(len(lst)) + [D("18446744073709551616"), D("-9223372036854775809")]:
            T.append(("remove", [lst, p], "sweep"))
            for item in (n(9), None, [n(9)]):
                T.append(("insert before", [lst, p, item], "sweep"))
    # ---- two-string functions
    for fname in ("contains", "starts with", "ends with", "substring before", "substring after"):
        for s in STRINGS:
            for m in MATCHES:
                T.append((fname, [s, m], "grid"))
    for s in STRINGS + ["\t\n", "a" * 40]:
        T.append(("string length", [s], "grid"))
    # ---- aggregates
    extra_lists = []
    pool = [n(0), n(1), n(2), n(3), n(-1), n("1.0"), n("2.5"), n("0.1"), n(10), n(-7), n("3.25"), n(100)]
    for _ in range(150 if tier == "quick" else 4000):
        extra_lists.append([rng.choice(pool) for _ in range(rng.randint(0, 8))])
    for _ in range(40 if tier == "quick" else 1000):
        lst = [rng.choice(pool) for _ in range(rng.randint(1, 8))]
        lst[rng.randrange(len(lst))] = rng.choice([None, "a", True, [n(1)]])
        extra_lists.append(lst)
    spool = ["a", "b", "ab", "", "B", "é", "中", "\U0001F600", "a\U0001F600"]
    for _ in range(40 if tier == "quick" else 1000):
        extra_lists.append([rng.choice(spool) for _ in range(rng.randint(1, 8))])
    for fname in ("min", "max", "sum", "mean", "median", "mode", "stddev"):
        for lst in NUM_LISTS + extra_lists:
            T.append((fname, [lst], "list"))
            if 1 <= len(lst) <= 8:
                T.append((fname, list(lst), "spread"))
    for fname in ("count", "reverse", "flatten", "distinct values"):
        for lst in GEN_LISTS + NUM_LISTS + extra_lists[: (60 if tier == "quick" else 2000)]:
            T.append((fname, [lst], "list"))
    # ---- all
    for k in range(0, 4):
        for combo in itertools.product(BOOL_ITEMS, repeat=k):
            T.append(("all", [list(combo)], "exhaustive-0..3"))
            if k >= 1:
                T.append(("all", list(combo), "spread"))
    for _ in range(120 if tier == "quick" else 3000):
        lst = [rng.choice([True, True, True, False, None]) for _ in range(rng.randint(4, 8))]
        T.append(("all", [lst], "random"))
    for lst in ([n(1)], [True, n(1)], [False, n(1)], [n(1), True, True], [n(1), False], ["a"], [[True]], [[False]]):
        T.append(("all", [lst], "non-boolean"))
    # ---- equality-driven list functions
    for lst in GEN_LISTS:
        for e in ELEMENTS:
            T.append(("index of", [lst, e], "grid"))
            T.append(("list contains", [lst, e], "grid"))
            T.append(("append", [lst, e], "grid"))
        T.append(("append", [lst, n(1), None, [n(2)]], "grid"))
    some = GEN_LISTS[:14]
    for a in some:
        for b in some:
            T.append(("union", [a, b], "pairs"))
            T.append(("concatenate", [a, b], "pairs"))
    for a in GEN_LISTS:
        T.append(("union", [a], "single"))
        T.append(("concatenate", [a], "single"))
        T.append(("union", [a, GEN_LISTS[5], a], "triple"))
        T.append(("concatenate", [a, GEN_LISTS[7], a], "triple"))
        T.append(("union", [a, n(1)], "non-list"))
        T.append(("concatenate", [a, None], "non-list"))
    # ---- sort
    sort_lists = [l for l in NUM_LISTS + GEN_LISTS] + extra_lists[: (80 if tier == "quick" else 2000)]
    for lst in sort_lists:
        for f in (FN_LT, FN_GT):
            T.append(("sort", [lst, f], "list"))
    for lst in GEN_LISTS[:6]:
        for f in (FN_UNARY, None, n(1), "x", [FN_LT]):
            T.append(("sort", [lst, f], "non-function"))
    # ---- contexts
    for m in CONTEXTS + [None, n(1), "a", [], [Ctx([("a", n(1))])]]:
        T.append(("get entries", [m], "grid"))
        for key in KEYS + [None, n(1), ["a"]]:
            T.append(("get value", [m, key], "grid"))
    # ---- not / string / number
    for v in DIVERSE + [False, [True], [False, True]]:
        T.append(("not", [v], "grid"))
    for v in STRING_FROM:
        T.append(("string", [v], "grid"))
    for _ in range(60 if tier == "quick" else 3000):
        digits = rng.randint(1, 12)
        coeff = rng.randint(1, 10**digits - 1) * rng.choice([1, -1])
        T.append(("string", [D(coeff).scaleb(rng.randint(-12, 6))], "random-number"))
    for frm in NUMBER_FROM:
        for g in NUMBER_GROUPING:
            for d in NUMBER_DECIMAL:
                T.append(("number", [frm, g, d], "grid"))
    # ---- regular expressions
    base_flags = [ABSENT, "", "i", "s", "x"]
    for s in REGEX_SUBJECTS:
        for p in REGEX_PATTERNS:
            T.append(("matches", [s, p], "grid"))
            T.append(("split", [s, p], "grid"))
    for s in REGEX_SUBJECTS[:10]:
        for p in REGEX_PATTERNS[:49:2]:
            for fl in REGEX_FLAGS[1:]:
                T.append(("matches", [s, p, fl], "flags"))
    for s in REGEX_SUBJECTS[:12]:
        for p in REGEX_PATTERNS[:49]:
            for r in ("x", "[$1]", ""):
                T.append(("replace", [s, p, r], "grid"))
    for s in ("abc", "  abc ", "abracadabra", "a;b;c;;"):
        for p in ("b", "(a)(b)", "[a-c]", "a|b", "(b)(r)?", ";"):
            for r in REPLACEMENTS:
                T.append(("replace", [s, p, r], "replacement"))
                for fl in ("", "i", "x", None, "q", n(1), True):
                    T.append(("replace", [s, p, r, fl], "flags"))
    # ---- size boundaries: long arguments (an implementation may switch algorithm with the size: a hash index beyond N items,
    # a byte fast path for long ASCII strings, chunked processing); every list / string function over lists and strings whose
    # length sits on and next to powers of two, all-strings / all-numbers / mixed, with duplicates and in no particular order
    sizes = [16, 17, 32, 33, 65, 130] if tier == "quick" else [15, 16, 17, 31, 32, 33, 34, 63, 64, 65, 100, 127, 128, 129, 130, 255, 256, 257, 300]
    for L in sizes:
        kinds = []
        for rep_ in range(1 if tier == "quick" else 3):
            m = rng.choice([3, L // 2 + 1, L - 1, L + 5])
            order = list(range(L))
            rng.shuffle(order)
            kinds.append(["s%d" % (i % m) for i in order])
            kinds.append([n(i % m) for i in order])
            kinds.append([("s%d" % (i % m)) if i % 3 else n(i % m) for i in order])
            kinds.append([rng.choice(["a", "b", "é", "\U0001F600"]) + str(i % m) for i in order])
        for lst in kinds:
            other = rng.choice(kinds)
            for fname in ("distinct values", "reverse", "flatten", "count", "mode", "min", "max"):
                T.append((fname, [lst], "long"))
            if all(isinstance(x, D) for x in lst):
                for fname in ("sum", "mean", "median", "stddev"):
                    T.append((fname, [lst], "long"))
            T.append(("union", [lst, other], "long"))
            T.append(("union", [lst[: L // 2], lst[L // 2 :]], "long"))
            T.append(("concatenate", [lst, other], "long"))
            T.append(("append", [lst, lst[0], None], "long"))
            T.append(("sort", [lst, FN_LT], "long"))
            T.append(("sort", [lst, FN_GT], "long"))
            for e in (lst[0], lst[-1], lst[L // 2], "nosuch", None):
                T.append(("index of", [lst, e], "long"))
                T.append(("list contains", [lst, e], "long"))
            for p_ in (1, 2, L // 2, L - 1, L, L + 1, -1, -L, -(L + 1)):
                T.append(("remove", [lst, n(p_)], "long"))
                T.append(("insert before", [lst, n(p_), "new"], "long"))
                T.append(("sublist", [lst, n(p_)], "long"))
                T.append(("sublist", [lst, n(p_), n(L // 3)], "long"))
        for alpha in ("ab", "aé", "a\U0001F600,", "x, "):
            st = "".join(alpha[i % len(alpha)] for i in range(L))
            T.append(("string length", [st], "long"))
            for p_ in (1, 2, L // 2, L - 1, L, L + 1, -1, -L, -(L + 1)):
                T.append(("substring", [st, n(p_)], "long"))
                T.append(("substring", [st, n(p_), n(L // 3)], "long"))
            for m_ in (st[:2], st[-2:], st[L // 2 : L // 2 + 3], "zz", st):
                for fname in ("contains", "starts with", "ends with", "substring before", "substring after"):
                    T.append((fname, [st, m_], "long"))
            T.append(("split", [st, ","], "long"))
            T.append(("replace", [st, "a", "[$0]"], "long"))
            T.append(("matches", [st, "^[^z]+$"], "long"))
            T.append(("string", [st], "long"))
    if tier == "thorough":
        for _ in range(60000):
            p = random_pattern(rng)
            s = "".join(rng.choice("abcxAB1; \U0001F600") for _ in range(rng.randint(0, 7)))
            which = rng.randrange(3)
            if which == 0:
                fl = rng.choice(base_flags)
                T.append(("matches", [s, p] if fl is ABSENT else [s, p, fl], "random"))
            elif which == 1:
                T.append(("replace", [s, p, rng.choice(["x", "[$1]", "$2$1", ""])], "random"))
            else:
                T.append(("split", [s, p], "random"))
    return T


def random_pattern(rng, depth=0):
    def atom():
        r = rng.random()
        if r < 0.5:
            return rng.choice("abcxAB1;")
        if r < 0.6:
            return "."
        if r < 0.75:
            return rng.choice(["[abc]", "[a-c]", "[^ab]", "[0-9]", "\\d", "\\s"])
        if r < 0.8:
            return "\U0001F600"
        if depth < 2:
            return "(" + random_pattern(rng, depth + 1) + ")"
        return "b"

    def piece():
        a = atom()
        r = rng.random()
        if r < 0.6:
            return a
        return a + rng.choice(["*", "+", "?", "{2}", "{1,2}", "{0,1}", "{2,}"])

    branches = []
    for _ in range(1 if rng.random() < 0.7 else 2):
        branches.append("".join(piece() for _ in range(rng.randint(1, 3))))
    p = "|".join(branches)
    if depth == 0:
        if rng.random() < 0.15:
            p = "^" + p
        if rng.random() < 0.15:
            p = p + "$"
    return p


def gen_matrix(tier, rng):
    """Every function x every arity 0..4 x diverse (mostly wrongly typed) arguments."""
    for spec in rbif.SPECS:
        yield (spec.name, [], "arity0")
        for a in DIVERSE:
            yield (spec.name, [a], "arity1")
        for a in DIVERSE:
            for b in DIVERSE:
                yield (spec.name, [a, b], "arity2")
        for combo in itertools.product(DIVERSE, repeat=3):
            yield (spec.name, list(combo), "arity3")
        if tier == "thorough":
            for combo in itertools.product(DIVERSE, repeat=4):
                yield (spec.name, list(combo), "arity4")
        else:
            for _ in range(1200):
                yield (spec.name, [rng.choice(DIVERSE) for _ in range(4)], "arity4")
        # well-typed first argument, everything else diverse: reaches the checks behind the first one
        first = {"string": "abc", "list": [n(1), n(2), n(3)], "context": Ctx([("a", n(1))]), "boolean": True, "any": n(1)}[spec.params[0][1]]
        for b in DIVERSE:
            yield (spec.name, [first, b], "arity2-typed")
            for c in DIVERSE[:: (1 if tier == "thorough" else 3)]:
                yield (spec.name, [first, b, c], "arity3-typed")


# ------------------------------------------------------------------------------------------------
# run
# ------------------------------------------------------------------------------------------------
BATCH = 300
SEGMENT = 120000  # argument tuples generated, executed and judged at a time (bounds memory in the thorough tier)


def build_calls(tuples, tier, base):
    """Expands tuples into texts. Returns (calls, interner); call = dict(t=tuple index, form, text, ...)."""
    interner = Interner()
    calls = []
    for local, (fname, args, origin) in enumerate(tuples):
        ti = base + local  # global index: drives every deterministic choice below
        spec = rbif.BY_NAME[fname]
        names = [interner.name(a) for a in args]
        calls.append({"t": local, "form": "positional", "text": "%s(%s)" % (fname, ", ".join(names)), "uses": names})
        if ti % 3 == 1 and names:
            # the same arguments written as small value-preserving expressions over the names instead of the bare names
            # (a double negation for numbers, a singleton list indexed, a conditional, a context entry)
            wrapped = []
            for k, (a, nm) in enumerate(zip(args, names)):
                w = (ti + k) % 4
                if w == 0 and isinstance(a, D) and not isinstance(a, bool):
                    wrapped.append("-(-%s)" % nm)
                elif w == 1:
                    wrapped.append("[%s][1]" % nm)
                elif w == 2:
                    wrapped.append("(if true then %s else null)" % nm)
                else:
                    wrapped.append("{x: %s}.x" % nm)
            calls.append({"t": local, "form": "wrapped", "text": "%s(%s)" % (fname, ", ".join(wrapped)), "uses": names})
        lits = None
        if (ti % 4 == 0) or origin.startswith("sweep"):
            lits = [literal(a) for a in args]
            if any(x is None for x in lits):
                lits = None
        if lits is not None and ((ti % 4 == 0) or (ti % 3 == 0)):
            calls.append({"t": local, "form": "literal", "text": "%s(%s)" % (fname, ", ".join(lits)), "uses": []})
        if named_applicable(spec, args) and len(args) > 0:
            pn = param_names(spec, len(args))
            for order in orders_for(len(args), tier, ti):
                text = "%s(%s)" % (fname, ", ".join("%s: %s" % (pn[k], names[k]) for k in order))
                calls.append({"t": local, "form": "named", "order": order, "text": text, "uses": names})
            if lits is not None and ti % 8 == 0:
                text = "%s(%s)" % (fname, ", ".join("%s: %s" % (pn[k], lits[k]) for k in range(len(args))))
                calls.append({"t": local, "form": "named-literal", "text": text, "uses": []})
            if fname == "list contains" and len(args) == 2:
                calls.append({"t": local, "form": "named-spec-name", "text": "list contains(list: %s, element: %s)" % (names[0], names[1]), "uses": names})
            # a required parameter left out: the named form of a wrong arity
            lo, _ = spec.arities()
            if len(args) == lo and lo >= 2 and ti % 5 == 0:
                drop = ti % lo
                text = "%s(%s)" % (fname, ", ".join("%s: %s" % (pn[k], names[k]) for k in range(len(args)) if k != drop))
                calls.append({"t": local, "form": "named-missing", "text": text, "uses": names})
    return calls, interner


def _segments(iterable, size):
    seg = []
    for item in iterable:
        seg.append(item)
        if len(seg) >= size:
            yield seg
            seg = []
    if seg:
        yield seg


class Acc:
    """Counters accumulated over the segments of one run."""

    def __init__(self):
        self.per_fn = {}
        self.undecided_fn = {}
        self.named_pairs_fn = {}
        self.forms = {}
        self.origins = {}
        self.decided_calls = 0
        self.named_pairs = 0
        self.tuples = 0
        self.batches = 0
        self.null_classes = set()
        self.sampled = set()
        self.asan_same = 0
        self.asan_batches = 0
        self.retried_batches = 0


def run(rep, tier, seed):
    rep.rule = (
        "one evaluation = one FEEL invocation text parsed and evaluated by the real code. A case key is (function, tuple of "
        "argument classes): null / bool / sign+{int,int.0,frac,huge} / string plane {empty,ascii,bmp,astral}+edge whitespace / "
        "list element kinds+null+single+dup / context / opaque kind; for substring, sublist, insert before, remove the position "
        "and length arguments are classed relative to the subject length L ({zero,below1,edge,in,L+1,beyond} x {int,int.0,frac}). "
        "A key is non-trivial (counted in distinct_nontrivial) when at least one call of the class was decided by the reference "
        "with a result other than plain null; classes whose decided result is always null (wrong types, wrong arity, out of "
        "range) are counted separately in classes_with_null_reference; undecided calls are counted nowhere."
    )
    rep.assumptions = [
        "R-BIF (lib/rbif.py) is my reading of DMN 1.3 section 10.3.4: positions in code points from 1, negative from the end, null outside the domain, wrong arity -> null",
        "where the specification text supports two readings (implicit to/from singleton-list conversion of an argument, explicit null for an optional parameter, non-integer length, `.` kept when the decimal separator is `,`, non-Boolean items in all()) both results are accepted",
        "regex functions are decided only on the subset on which XPath/XSD, Rust `regex` and Python `re` agree (validated by a recursive-descent parser in rbif._Rx); everything else is undecided",
        "sum/mean/median are compared within 2 ulp of the exact result, stddev within 1e-31*max|x| + 10 ulp (two-pass decimal128 evaluation)",
        "string(number) is accepted when it is a plain numeric literal denoting exactly the number; string() of lists, contexts, temporal values is undecided",
        "values are bound to scope names programmatically; named invocations use the parameter names of DMN 1.3 tables 72-76 (= named.rs, except `list contains`, see IMPL_PARAM_NAMES)",
    ]
    bad = rbif.selftest()
    if bad:
        raise runner.Inconclusive("R-BIF does not reproduce the examples of DMN 1.3 tables 72-76: %s" % "; ".join(bad[:5]))
    rep.extra["specification_examples_reproduced_by_reference"] = len(rbif.SPEC_EXAMPLES)
    rng = rng_for(seed, "c08")
    acc = Acc()
    base = 0
    stream = itertools.chain(gen_focus(tier, rng), gen_matrix(tier, rng))
    for tuples in _segments(stream, SEGMENT):
        calls, interner = build_calls(tuples, tier, base)
        base += len(tuples)
        # ---- batches: one scope per batch holding only the values the batch uses
        cases = []
        spans = []
        for lo in range(0, len(calls), BATCH):
            chunk = calls[lo : lo + BATCH]
            used = sorted({u for c in chunk for u in c["uses"]}, key=lambda s: int(s[1:]))
            scope = [[[u, interner.values[int(u[1:])]] for u in used]]
            cases.append(warm({"op": "evalmany", "scope": scope, "texts": [c["text"] for c in chunk]}))
            spans.append((lo, len(chunk)))
        results, _ = runner.run_cases("dbg", cases, rep.workdir, label="bifs", case_timeout=60.0)
        # a batch that made no progress for 60 s on a loaded machine is re-run alone with a 300 s budget;
        # only a second failure to complete is reported (as hang:c08-batch)
        stalled = [k for k, r in enumerate(results) if r is not None and "timeout" in r]
        if stalled:
            again, _ = runner.run_cases("dbg", [cases[k] for k in stalled], rep.workdir, label="bifs-retry", nshards=min(4, len(stalled)), case_timeout=300.0)
            for k, r in zip(stalled, again):
                results[k] = r
            acc.retried_batches += len(stalled)
        judge(rep, acc, tuples, calls, cases, spans, results, interner, "dbg")
        if tier == "thorough":
            replay_on_asan(rep, acc, cases, results)
        del calls, cases, results
    rep.extra["calls_per_function"] = dict(sorted(acc.per_fn.items()))
    rep.extra["undecided_per_function"] = dict(sorted(acc.undecided_fn.items()))
    rep.extra["named_vs_positional_pairs"] = acc.named_pairs
    rep.extra["named_vs_positional_pairs_per_function"] = dict(sorted(acc.named_pairs_fn.items()))
    rep.extra["decided_calls"] = acc.decided_calls
    rep.extra["calls_by_form"] = dict(sorted(acc.forms.items()))
    rep.extra["calls_by_origin"] = dict(sorted(acc.origins.items()))
    rep.extra["argument_tuples"] = acc.tuples
    rep.extra["functions"] = len(rbif.SPECS)
    rep.extra["classes_with_null_reference"] = len(acc.null_classes - rep.distinct)
    rep.extra["batches"] = acc.batches
    rep.extra["batches_rerun_after_a_stall"] = acc.retried_batches
    if tier == "thorough":
        rep.extra["asan_replayed_calls"] = acc.asan_same
        rep.extra["asan_replayed_batches"] = acc.asan_batches
    # ---- observation floor
    missing = [s.name for s in rbif.SPECS if acc.per_fn.get(s.name, 0) < 200]
    if missing:
        rep.inconclusive_reason("fewer than 200 calls observed for: %s" % ", ".join(missing))
    if acc.decided_calls < 30000 or acc.named_pairs < 5000:
        rep.inconclusive_reason("too few observations (decided calls=%d, named/positional pairs=%d)" % (acc.decided_calls, acc.named_pairs))
    if tier == "thorough" and acc.asan_same < 10000:
        rep.inconclusive_reason("too few calls replayed on the ASan build (%d)" % acc.asan_same)


def replay_on_asan(rep, acc, cases, results):
    """10 % of the batches again on the ASan build: same values, no sanitizer report."""
    idx = list(range(acc.batches % 10, len(cases), 10))
    if not idx:
        return
    a_results, a_meta = runner.run_cases("asan", [cases[k] for k in idx], rep.workdir, label="bifs", case_timeout=300.0)
    for k, ar in zip(idx, a_results):
        _harness_ok(ar)
        if "rs" not in ar:
            if "timeout" in ar:
                rep.inconclusive_reason("an ASan batch made no progress for 300 s")
            else:
                rep.violation(crash_signature(ar, "c08-batch-asan"), "ASan build died in a batch: %s" % json.dumps(ar)[:1500], {"variant": "asan", "case": cases[k]})
            continue
        dr = results[k]
        if "rs" not in dr:
            continue
        acc.asan_batches += 1
        for j, (x, y) in enumerate(zip(dr["rs"], ar["rs"])):
            if x.get("v", x.get("panic", {}).get("msg")) != y.get("v", y.get("panic", {}).get("msg")):
                one = {"op": "evalmany", "scope": cases[k]["scope"], "texts": [cases[k]["texts"][j]]}
                rep.violation("asan-differs-from-dbg", "text %r: dbg %s, asan %s" % (cases[k]["texts"][j], json.dumps(x)[:200], json.dumps(y)[:200]), {"variant": "asan", "case": one})
            else:
                acc.asan_same += 1
    for text in a_meta.get("sanitizer_reports", []):
        rep.violation("asan-report", text[-1500:], None)


def _harness_ok(res):
    if res is None or "harness_error" in res or res.get("missing"):
        raise runner.Inconclusive("driver reported a harness error: %s" % json.dumps(res)[:300])


def judge(rep, acc, tuples, calls, cases, spans, results, interner, variant):
    expected_cache = {}
    observed = {}  # call index -> ("v", value, null message) | ("panic", p) | ("err", rec)
    acc.tuples += len(tuples)
    acc.batches += len(cases)
    # ---- collect
    for (lo, cnt), res, case in zip(spans, results, cases):
        _harness_ok(res)
        if "rs" not in res:
            rep.violation(crash_signature(res, "c08-batch"), "driver process died or hung (twice, the second time alone with a 300 s budget) in a batch of built-in invocations: %s" % json.dumps(res)[:600], {"variant": variant, "case": case})
            continue
        if len(res["rs"]) != cnt:
            raise runner.Inconclusive("batch returned %d results for %d texts" % (len(res["rs"]), cnt))
        for k, r in enumerate(res["rs"]):
            if "rep_diff" in r:
                rep.violation("repeated-evaluation-differs:%s" % case["texts"][k].split("(")[0].replace(" ", "_"), "the same prepared invocation `%s` evaluated twice over the same scope gave %s" % (case["texts"][k][:160], json.dumps(r["rep_diff"])[:300]), {"variant": variant, "case": {"op": "evalmany", "scope": case["scope"], "warm_scope": case.get("warm_scope"), "reps": 2, "texts": [case["texts"][k]]}})
            if "panic" in r:
                observed[lo + k] = ("panic", r["panic"])
            elif "v" in r:
                observed[lo + k] = ("v", rbif.from_json(r["v"]), r.get("nm"))
            else:
                observed[lo + k] = ("err", r)
    # ---- judge
    positional_obs = {}
    literal_obs = {}
    for ci, call in enumerate(calls):
        if ci in observed and call["form"] == "positional":
            positional_obs[call["t"]] = observed[ci]
        elif ci in observed and call["form"] == "literal":
            literal_obs[call["t"]] = observed[ci]
    for ci, call in enumerate(calls):
        if ci not in observed:
            continue
        ti = call["t"]
        fname, args, origin = tuples[ti]
        rep.count()
        acc.per_fn[fname] = acc.per_fn.get(fname, 0) + 1
        acc.forms[call["form"]] = acc.forms.get(call["form"], 0) + 1
        acc.origins[origin] = acc.origins.get(origin, 0) + 1
        obs = observed[ci]
        if obs[0] == "panic":
            sig = "%s:fn=%s" % (panic_signature(_panic_class(obs[1])), fname)
            rep.violation(sig, "panic in `%s` with %s: %s at %s" % (call["text"], _bindings(call, args), obs[1].get("msg"), obs[1].get("loc")), _replay(variant, _one(call, interner), fname, args, call, "a value", obs[1]))
            continue
        if obs[0] == "err":
            rep.violation("no-value:%s:%s" % (fname, "+".join(sorted(k for k in obs[1].keys() if k != "i"))), "`%s` did not evaluate: %s" % (call["text"], json.dumps(obs[1])[:300]), _replay(variant, _one(call, interner), fname, args, call, "a value", obs[1]))
            continue
        value = obs[1]
        # -- expected
        if call["form"] == "named-missing":
            expected = None
        else:
            if ti not in expected_cache:
                expected_cache[ti] = rbif.reference(fname, args)
            expected = expected_cache[ti]
        classes = classes_of(fname, args)
        if expected is UNDECIDED:
            rep.undecided += 1
            acc.undecided_fn[fname] = acc.undecided_fn.get(fname, 0) + 1
        else:
            acc.decided_calls += 1
            if expected is None:
                acc.null_classes.add((fname, classes))
            else:
                rep.seen((fname, classes))
            if fname not in acc.sampled and len(acc.sampled) < 6 and origin in ("sweep", "grid", "list") and value is not None:
                acc.sampled.add(fname)
                rep.sample({"text": call["text"], "bindings": _bindings(call, args), "reference": rbif.show(expected), "observed": rbif.show(value)})
        # -- metamorphic: named == positional
        if call["form"] in ("named", "named-literal", "named-spec-name"):
            # a named invocation with literal arguments is paired with the positional one spelled the same way
            pobs = literal_obs.get(ti) if call["form"] == "named-literal" else positional_obs.get(ti)
            if pobs is not None and pobs[0] == "v":
                acc.named_pairs += 1
                acc.named_pairs_fn[fname] = acc.named_pairs_fn.get(fname, 0) + 1
                if not rbif.same_observation(pobs[1], value):
                    sig = named_signature(fname, args, call, pobs[1], value)
                    if call["form"] == "named-literal":
                        ptext = "%s(%s)" % (fname, ", ".join(literal(a) for a in args))
                    else:
                        ptext = "%s(%s)" % (fname, ", ".join(interner.name(a) for a in args))
                    two = {"op": "evalmany", "scope": _scope_of(interner, [interner.name(a) for a in args]), "texts": [call["text"], ptext]}
                    rep.violation(
                        sig,
                        "named and positional invocation differ: `%s` gave %s but `%s` gave %s, with %s" % (call["text"], rbif.show(value), ptext, rbif.show(pobs[1]), _bindings(call, args)),
                        _replay(variant, two, fname, args, call, "the same value from both invocations", {"named": rbif.to_json(value), "positional": rbif.to_json(pobs[1])}),
                    )
                continue  # the positional twin is the one compared with the reference
        # -- reference oracle
        if expected is UNDECIDED:
            continue
        if not rbif.agrees(expected, value):
            sig = value_signature(fname, args, classes, expected, value, call)
            rep.violation(
                sig,
                "`%s` with %s gave %s; DMN 1.3 (R-BIF) gives %s%s" % (call["text"], _bindings(call, args), rbif.show(value), rbif.show(expected), (" [implementation says: %s]" % obs[2]) if len(obs) > 2 and obs[2] else ""),
                _replay(variant, _one(call, interner), fname, args, call, rbif.show(expected), rbif.to_json(value)),
            )


def _scope_of(interner, names):
    return [[[u, interner.values[int(u[1:])]] for u in sorted(set(names), key=lambda s: int(s[1:]))]]


def _one(call, interner):
    return {"op": "evalmany", "scope": _scope_of(interner, call["uses"]), "texts": [call["text"]]}


def _panic_class(p):
    """The panic record with operand-dependent payloads cut out of the message."""
    q = dict(p)
    q["msg"] = re.sub(r"NulError\(.*$", "NulError", str(q.get("msg", "")))
    return q


def _bindings(call, args):
    if not call["uses"]:
        return "literal arguments"
    seen = []
    for u, a in zip(call["uses"], args):
        item = "%s=%s" % (u, rbif.show(a))
        if item not in seen:
            seen.append(item)
    return ", ".join(seen) if seen else "no arguments"


def _replay(variant, case, fname, args, call, expected, observed):
    return {"variant": variant, "case": case, "function": fname, "form": call["form"], "args": [rbif.to_json(a) for a in args], "expected": expected, "observed": observed}


# ------------------------------------------------------------------------------------------------
# signatures: function x failure class, computed from the shape of the failure
# ------------------------------------------------------------------------------------------------
def _okind(v):
    return kind(v)


def _ekind(e):
    if isinstance(e, Amb):
        return "|".join(sorted(set(_ekind(a) for a in e.alts)))
    if isinstance(e, rbif.Approx):
        return "number"
    if isinstance(e, rbif.NumText):
        return "string"
    if isinstance(e, rbif.Bag):
        return "list"
    return kind(e)


def named_signature(fname, args, call, positional_value, named_value):
    if call["form"] == "named-spec-name":
        return "named:%s:specification-parameter-name-not-recognised" % fname
    if fname == "mean" and named_value is not None:
        med = rbif.reference("median", args)
        if med is not UNDECIDED and rbif.agrees(med, named_value):
            return "named:mean:dispatches-to-median"
    if named_value is None:
        return "named:%s:null-where-positional-gives-%s" % (fname, _okind(positional_value))
    if positional_value is None:
        return "named:%s:%s-where-positional-gives-null" % (fname, _okind(named_value))
    return "named:%s:differs-from-positional:%s" % (fname, _okind(named_value))


def value_signature(fname, args, classes, expected, value, call):
    cls = diagnose(fname, args, expected, value)
    if cls:
        return "value:%s:%s" % (fname, cls)
    form = "" if call["form"] in ("positional", "literal") else ":" + call["form"]
    return "value:%s:exp=%s,obs=%s:%s%s" % (fname, _ekind(expected), _okind(value), ",".join(classes), form)


def diagnose(fname, args, expected, value):
    """Failure classes that were triaged on the pinned tree. Each rule looks only at the shape of
    the failure; anything it does not recognise falls through to the generic signature."""
    alts = expected.alts if isinstance(expected, Amb) else [expected]
    if fname == "all" and value is None and any(a is False for a in alts):
        return "null-although-an-item-is-false"
    if fname in ("matches", "replace"):
        fpos = 2 if fname == "matches" else 3
        if len(args) == fpos + 1:
            flags = args[fpos]
            if flags == "" and isinstance(flags, str) and value is None and expected is not None:
                return "empty-flags-give-null"
            if flags is not None and not isinstance(flags, str) and expected is None and value is not None:
                return "non-string-flags-ignored"
    if fname == "replace" and isinstance(value, str):
        for a in alts:
            if isinstance(a, str) and a != value and a.strip() == value:
                return "result-trimmed"
    if fname == "max" and expected is None and value is not None:
        items = rbif._items(args)
        rest = [x for x in items if x is not None]
        if len(rest) < len(items) and rest:
            try:
                if rbif.agrees(rbif.f_max([rest]), value):
                    return "null-item-ignored"
            except rbif.Undecided:
                pass
    if fname == "number" and expected is None and isinstance(value, D) and len(args) == 3 and isinstance(args[0], str):
        return "accepts-text-that-is-not-a-numeric-literal"
    if fname == "string" and isinstance(expected, rbif.NumText) and isinstance(value, str):
        if not rbif.NUM_LITERAL.match(value):
            return "number-text-is-not-a-plain-literal"
        return "number-text-denotes-another-value"
    if fname == "sublist" and expected is None and value == [] and len(args) == 3 and isinstance(args[2], D) and args[2] == 0:
        return "zero-length-gives-empty-list"
    return None


def replay(rp):
    """./check C08 --replay <file>: re-executes the recorded invocation(s) and re-judges them."""
    r = rp.get("replay") or {}
    case = r.get("case")
    if not case:
        print(json.dumps(rp, indent=1)[:3000])
        return 3
    res, _ = runner.run_single(r.get("variant", "dbg"), case, os.path.join(runner.WORK, "replay"), label="replay")
    print("texts    :", json.dumps(case.get("texts"), ensure_ascii=False))
    print("scope    :", json.dumps(case.get("scope"), ensure_ascii=True)[:1500])
    print("expected :", r.get("expected"))
    print("recorded :", json.dumps(r.get("observed"), ensure_ascii=True)[:1500])
    print("observed :", json.dumps(res.get("rs", res), ensure_ascii=True)[:1500])
    if "rs" not in res:
        print("VIOLATION property=C08 replay=<replayed> (driver died)")
        return 1
    fname = r.get("function")
    args = [_arg_from_json(a) for a in r.get("args", [])]
    rs = res["rs"]
    bad = False
    if any("panic" in x or "v" not in x for x in rs):
        bad = True
    elif len(rs) == 2:
        bad = not rbif.same_observation(rbif.from_json(rs[0]["v"]), rbif.from_json(rs[1]["v"]))
    elif r.get("form") == "named-missing":
        bad = rs[0]["v"] is not None
    else:
        exp = rbif.reference(fname, args)
        bad = exp is not UNDECIDED and not rbif.agrees(exp, rbif.from_json(rs[0]["v"]))
    if bad:
        print("VIOLATION property=C08 replay=<replayed>")
        return 1
    print("the recorded failure no longer reproduces")
    return 0


def _arg_from_json(j):
    if isinstance(j, dict) and "feel" in j:
        for o in (FN_LT, FN_GT, FN_UNARY):
            if o.json == j:
                return o
        return Opaque("function", j)
    if isinstance(j, list):
        return [_arg_from_json(x) for x in j]
    v = rbif.from_json(j)
    if isinstance(v, Ctx):
        return Ctx([(k, _arg_from_json(x)) for k, x in (j.get("c") or [])])
    return v
