"""C05 — FEEL parsing and evaluation are total: a result or an error, never a crash.

Oracle: the channel itself (panic events, process death, sanitizer report, bounded progress).
Workload: grammar-derived texts, mutations of the repository's own corpus (harvested at run time),
arbitrary Unicode, deep nesting, built-in argument sweeps over an extreme alphabet; all six parser
entry points + parse_name / parse_longest_name; three parsing/evaluation scopes; builds dbg AND rel
(overflow checks on / off) in full, ASan on a slice.
"""
import json
import os
import re

import gfeel
import rfeel
import runner
from common import chunks, crash_signature, panic_signature, rng_for

LEVEL = "exploration"

REPO = os.environ.get("VERIF_REPO") or "/repo"

BATCH = 120
ENTRIES = ["expr", "textual", "textuals", "boxed", "context", "unary"]


# ------------------------------------------------------------------------------------------
# scopes
# ------------------------------------------------------------------------------------------
def scopes():
    big_s = "abc" * 1000
    big_l = [{"n": str(k % 97)} for k in range(400)]
    populated = [
        ["a", {"n": "1"}], ["b", {"n": "2.5"}], ["s", {"s": "text"}], ["t", True], ["z", None], ["l", [{"n": "1"}, {"n": "2"}, {"n": "3"}]],
        ["c", {"c": [["x", {"n": "1"}], ["y", {"c": [["z", {"s": "deep"}]]}]]}],
        ["bigs", {"s": big_s}], ["bigl", big_l], ["nuls", {"s": "a\u0000b"}], ["astral", {"s": "\U0001F600\U00010000"}],
        ["huge", {"n": "9.999999999999999999999999999999999E+6144"}], ["tiny", {"n": "1E-6176"}], ["u64", {"n": "18446744073709551615"}], ["i63", {"n": "9223372036854775808"}],
        ["e3000", {"n": "1E+3000"}], ["em3000", {"n": "1E-3000"}], ["neg", {"n": "-7"}], ["half", {"n": "0.5"}], ["one0", {"n": "1.0"}],
        ["ctxl", [{"c": [["k", {"n": "1"}]]}, {"c": [["k", {"n": "2"}]]}]], ["nestl", [[{"n": "1"}], [[{"n": "2"}]], []]], ["nulll", [None, {"n": "1"}, None]],
        ["f", {"feel": "function(p, q) p + q"}],
    ]
    nested = [
        [[["Full", "Name"], {"s": "John"}], [["a", "-", "b"], {"n": "10"}], ["a", {"n": "3"}], ["b", {"n": "2"}], [["x", "+", "y"], {"n": "7"}], [["Order", "Size"], {"n": "5"}]],
        [[["Monthly", "Salary"], {"n": "1000"}], ["in", {"n": "1"}], [["for", "x"], {"n": "2"}], [["date", "of", "birth"], {"d": "2000-02-29"}], ["item", {"n": "99"}], ["partial", [{"n": "1"}]]],
        populated[:10],
    ]
    return {"empty": None, "populated": [populated], "nested": nested}


# ------------------------------------------------------------------------------------------
# corpus harvest (run time, from the working tree)
# ------------------------------------------------------------------------------------------
def harvest():
    texts = set()
    lit1 = re.compile(r'r#"(.*?)"#', re.S)
    lit2 = re.compile(r'"((?:[^"\\\n]|\\.)*)"')
    for crate in ("feel-evaluator", "feel-parser", "feel", "model-evaluator", "evaluator"):
        base = os.path.join(REPO, crate, "src")
        for root, _, files in os.walk(base):
            if "tests" not in root and not root.endswith("tests"):
                continue
            for f in files:
                if not f.endswith(".rs"):
                    continue
                try:
                    src = open(os.path.join(root, f), encoding="utf-8", errors="replace").read()
                except OSError:
                    continue
                for m in lit1.finditer(src):
                    texts.add(m.group(1))
                for m in lit2.finditer(src):
                    s = m.group(1)
                    if 0 < len(s) < 400:
                        try:
                            texts.add(bytes(s, "utf-8").decode("unicode_escape") if "\\" in s and "\\u" not in s else s)
                        except Exception:
                            texts.add(s)
    tx = re.compile(r"<(?:\w+:)?text>(.*?)</(?:\w+:)?text>", re.S)
    for root, _, files in os.walk(os.path.join(REPO, "examples")):
        for f in files:
            if f.endswith(".dmn"):
                try:
                    src = open(os.path.join(root, f), encoding="utf-8", errors="replace").read()
                except OSError:
                    continue
                for m in tx.finditer(src):
                    s = m.group(1)
                    s = s.replace("&lt;", "<").replace("&gt;", ">").replace("&amp;", "&").replace("&quot;", '"').replace("&apos;", "'")
                    if 0 < len(s) < 600:
                        texts.add(s)
    return sorted(t for t in texts if len(t) < 3000)


def bif_names():
    src = open(os.path.join(REPO, "feel", "src", "bif.rs"), encoding="utf-8").read()
    return sorted(set(re.findall(r'"([^"]+)" => Ok\(Self::', src)))


TOKENS = ["for", "in", "return", "if", "then", "else", "some", "every", "satisfies", "between", "and", "or", "not", "null", "true", "false", "function", "instance", "of", "external",
          "(", ")", "[", "]", "{", "}", ",", ":", "..", ".", "+", "-", "*", "/", "**", "=", "!=", "<", "<=", ">", ">=", "@", '"', "//", "/*", "*/", "?", "item", "date", "time", "duration",
          "list", "context", "range", "->", "<>", "1", "0", "99999999999999999999999999999999999999", "1e5", ".5", "5.", "\\u0041", "\\U01F600", "\\", "'", " ", " ", "\t", "\n", "\r\n", "\u0000"]


def mutate(rng, s):
    k = rng.randrange(14)
    if not s:
        return rng.choice(TOKENS)
    pos = rng.randrange(len(s) + 1)
    if k == 0:
        return s[:pos] + s[pos + rng.randint(1, 4):]
    if k == 1:
        j = rng.randrange(len(s) + 1)
        a, b = min(pos, j), max(pos, j)
        return s[:a] + s[a:b] * 2 + s[b:]
    if k == 2:
        return s[:pos] + " " + rng.choice(TOKENS) + " " + s[pos:]
    if k == 3:
        return s[:pos] + rng.choice(TOKENS) + s[pos:]
    if k == 4:
        parts = re.split(r"(\s+|[()\[\]{},:])", s)
        if len(parts) > 3:
            i, j = rng.randrange(len(parts)), rng.randrange(len(parts))
            parts[i], parts[j] = parts[j], parts[i]
        return "".join(parts)
    if k == 5:
        return s.replace(rng.choice("()[]{}\","), "", 1)
    if k == 6:
        return s[:pos] + rng.choice(["/* c */", "// c\n", "/*", "*/", "/**/ /**/", "//"]) + s[pos:]
    if k == 7:
        return re.sub(r"\d+", lambda m: m.group(0) * rng.choice([1, 5, 20]), s, count=1)
    if k == 8:
        return s[:pos] + rng.choice(["\\", "\\u", "\\uD800", "\\uDC00", "\\U110000", "\\x", '\\"']) + s[pos:]
    if k == 9:
        return s[:pos]
    if k == 10:
        return s[pos:]
    if k == 11:
        return s[:pos] + chr(rng.choice([0, 1, 0x7F, 0x85, 0xA0, 0x2028, 0x2029, 0xFEFF, 0xD7FF, 0xE000, 0xFFFF, 0x10000, 0x10FFFF, 0x3000, 0x200B])) + s[pos:]
    if k == 12:
        return "for " + s
    return s + rng.choice([" in(", " in (1)", " [", " (", " .", " ..", " between", " and", " instance of", " return", " satisfies"])


def token_pair_texts():
    """every ordered pair of lexical tokens / keywords in four surroundings"""
    out = []
    for a in TOKENS:
        for b in TOKENS:
            out.append("%s %s" % (a, b))
            out.append("%s %s 1" % (a, b))
            out.append("x %s %s 1" % (a, b))
            out.append("%s%s(1)" % (a, b))
    # after for / some / every the lexer looks for the iteration variable up to `in`: every token pair there
    for head in ("for", "some", "every"):
        tail = " return 1" if head == "for" else " satisfies true"
        for a in TOKENS:
            for b in TOKENS:
                out.append("%s %s%s1)%s" % (head, a, b, tail))
                out.append("%s %s %s [1]%s" % (head, a, b, tail))
    return out


def deep_texts():
    out = []
    for d in (50, 120, 200):
        out += [
            "(" * d + "1" + ")" * d,
            "[" * d + "1" + "]" * d,
            "".join("{a: " for _ in range(d)) + "1" + "}" * d,
            "".join("if true then (" for _ in range(d)) + "1" + "".join(") else 0" for _ in range(d)),
            "-" * d + "1",
            "- " * d + "1",
            "".join("not(" for _ in range(d)) + "true" + ")" * d,
            "".join("1 + (" for _ in range(d)) + "1" + ")" * d,
            " + ".join(["1"] * (d * 5)),
            " and ".join(["true"] * (d * 5)),
            "x" + "[1]" * d,
            "c" + ".y" * d,
            "".join("function(p) " for _ in range(d)) + "1",
            "".join("(function(p) " for _ in range(d)) + "p" + ")(1)" * d,
            "".join("abs(" for _ in range(d)) + "1" + ")" * d,
            "".join("for x in [" for _ in range(d)) + "1" + "] return x" * d,
            "".join("some x in [" for _ in range(min(d, 60))) + "1" + "] satisfies x" * min(d, 60),
            "1 in " + "(" * d + "1" + ")" * d,
            "<" * d + "1",
            "list<" * d + "number" + ">" * d,
            "1 instance of " + "list<" * d + "number" + ">" * d,
            "1 instance of " + "".join("function<" for _ in range(d)) + ">" * d + "->number",
            "{" + ", ".join("k%d: %d" % (k, k) for k in range(d * 5)) + "}",
            "[" + ", ".join(str(k) for k in range(d * 20)) + "]",
            '"' + "a" * (d * 100) + '"',
            "a" * (d * 50),
            " ".join(["w"] * (d * 10)),
            "/*" + "*" * d * 10 + "*/ 1",
            "1" * 400 + "." + "2" * 400,
            "for x in 1.." + str(d * 10) + " return x",
            "for x in 1..60, y in 1..60 return x * y",
            "for x in 1..15, y in 1..15, z in 1..15 return x + y + z",
            "every x in [1,2,3,4,5,6,7,8,9,10,11,12,13,14,15,16], y in [1,2,3,4,5,6,7,8,9,10,11,12,13,14,15,16] satisfies x + y > 0",
            "for x in %d..1 return x" % (d * 10),
        ]
    return out


ARG_TEXTS = [
    "null", "true", "false", "0", "-0", "1", "-1", "2", "0.5", "-0.5", "1.5", "1.0", "255", "256", "257", "2147483647", "2147483648", "-2147483649", "4294967296", "9223372036854775807",
    "9223372036854775808", "18446744073709551615", "18446744073709551616", "99999999999999999999999999999999999", "0.00000000000000000000000000000000001", "huge", "tiny", "e3000", "em3000", "-huge",
    '""', '"a"', '"abc"', '"ABC abc"', '"\U0001F600"', "bigs", "nuls", "astral", '"("', '"["', '"*"', '"a{99999}"', '"(?i)"', '"\\\\"', '"$1"', '"$99"', '","', '"."', '" "', '"x"',
    '"2021-01-01"', '"2021-02-30"', '"999999999-12-31"', '"-999999999-01-01"', '"10:00:00"', '"24:00:00"', '"10:00:00+14:59"', '"10:00:00-18:00"', '"10:00:00@Europe/Warsaw"', '"10:00:00@Nowhere/City"',
    '"2021-03-28T02:30:00@Europe/Warsaw"', '"2021-10-31T02:30:00@Europe/Warsaw"', '"2021-01-01T10:00:00Z"', '"2021-01-01T24:00:00"', '"999999999-12-31T23:59:59.999999999+14:00"',
    '"P1D"', '"-P1D"', '"P1Y"', '"P9223372036854775807Y"', '"P999999999999999999D"', '"PT9223372036854775807S"', '"P1Y1D"', '"PT0.0000000001S"',
    "[]", "[1]", "[1, 2, 3]", "[3, 1, 2, 1]", "[null]", "[1, null]", '["a", 1, true]', "[[1], [2, [3]]]", "bigl", "nestl", "nulll", "ctxl", "[[]]", "[1..3]",
    "{}", "{a: 1}", "{a: {b: 1}}", "c", '{"": 1}',
    'date("2021-01-01")', 'date("2020-02-29")', 'date(999999999, 12, 31)', 'date(-999999999, 1, 1)', 'time("10:00:00")', 'time("23:59:59.999999999Z")', 'time("10:00:00@Europe/Warsaw")',
    'date and time("2021-01-01T10:00:00")', 'date and time("2021-03-28T02:30:00@Europe/Warsaw")', 'date and time("2021-10-31T02:30:00@Europe/Warsaw")', 'date and time("999999999-12-31T23:59:59Z")',
    'duration("P1D")', 'duration("-PT1S")', 'duration("P2D")', 'duration("P1Y")', 'duration("P9223372036854775807Y")', 'duration("P106751991167D")', 'duration("PT9223372036S")',
    "[1..2]", "(1..2)", "[\"a\"..\"z\"]", "function(a) a", "function(a, b) a < b", "abs", "f", "item", "a", "b", "l", "s", "z", "t",
    'time(10, 0, 0, duration("P2D"))', 'time(10, 0, 0, duration("-P2D"))', 'time(23, 59, 59.999999999, duration("PT14H"))', 'time(10, 0, 0, duration("PT18H"))', 'time(10, 0, 0, duration("PT0.5S"))',
    'date and time(date("2021-03-28"), time("02:30:00@Europe/Warsaw"))', 'date and time(date("999999999-12-31"), time("23:59:59+14:00"))', 'date and time(date("-999999999-01-01"), time("00:00:00-14:00"))',
    'date and time("262143-12-31T23:59:59Z")', 'date and time("262144-01-01T00:00:00Z")', 'date("262144-01-01")', 'date("-262145-01-01")', 'time("00:00:00@America/Sao_Paulo")', 'time("02:30:00@Europe/Warsaw")',
    'duration("P178956970Y")', 'duration("-P999999999Y11M")', 'years and months duration(date("-999999999-01-01"), date("999999999-12-31"))', 'date("2021-01-31") + duration("P1M")',
    'date and time("2021-01-01T00:00:00@Europe/Warsaw") - date and time("1021-01-01T00:00:00Z")', "@\"2021-03-28T02:30:00@Europe/Warsaw\"", "@\"P9223372036854775807Y\"",
]
REDUCED = ['time(10, 0, 0, duration("P2D"))', 'date and time("262144-01-01T00:00:00Z")', 'date and time(date("2021-03-28"), time("02:30:00@Europe/Warsaw"))', "null", "0", "1", "-1", "1.5", "18446744073709551615", "huge", "tiny", '""', '"abc"', "bigs", "nuls", "[]", "[1, 2, 3]", "[1, null]", "bigl", "{a: 1}", 'date("2021-01-01")',
           'time("10:00:00@Europe/Warsaw")', 'date and time("2021-03-28T02:30:00@Europe/Warsaw")', 'duration("P2D")', 'duration("P1Y")', 'duration("P9223372036854775807Y")', "function(a, b) a < b", "[1..2]", "true"]
OPERATORS = ["+", "-", "*", "/", "**", "=", "!=", "<", "<=", ">", ">=", "and", "or", "in"]
PROPS = ["year", "month", "day", "weekday", "hour", "minute", "second", "time offset", "timezone", "days", "hours", "minutes", "seconds", "years", "months", "start", "end", "x"]
PARAM_NAMES = ["list", "n", "number", "string", "input", "pattern", "flags", "replacement", "start position", "length", "match", "delimiter", "position", "newItem", "item", "precedes", "from",
               "grouping separator", "decimal separator", "date", "time", "year", "month", "day", "hour", "minute", "second", "offset", "scale", "dividend", "divisor", "negand", "m", "key", "context",
               "to", "value", "value1", "value2", "point", "range", "point1", "point2", "range1", "range2", "list1", "list2"]


SMALL = ["null", "0", "1", "-1", "-5", "2", "1.5", "18446744073709551615", "huge", '"abc"', "nuls", '"."', "[1, 2, 3]", 'duration("P2D")', "l", "s"]


TYPES = ["number", "string", "boolean", "date", "time", "date and time", "days and time duration", "years and months duration", "list<number>", "list<list<string>>", "context<a: number>",
         "function<number>->number", "range<number>", "Any", "Null"]


def edge_texts():
    """shapes whose size is small but whose arithmetic sits on a boundary"""
    out = []
    # typed formal parameters: every argument of the extreme alphabet is coerced to every type, positionally and by name
    for ty in TYPES:
        for a in ARG_TEXTS:
            out.append("{f: function(x: %s) x, r: f(%s)}.r" % (ty, a))
            out.append("{f: function(x: %s, y: %s) [x, y], r: f(y: %s, x: %s)}.r" % (ty, ty, a, a))
    # iteration ranges of 1-3 steps at the edges of the integer types and of decimal128, ascending and descending
    edges = ["0", "127", "128", "255", "256", "32767", "32768", "65535", "65536", "2147483647", "2147483648", "4294967295", "4294967296", "9223372036854775806", "9223372036854775807", "9223372036854775808",
             "18446744073709551614", "18446744073709551615", "18446744073709551616", "99999999999999999999999999999999998", "9999999999999999999999999999999999", "1e30", "1e6144", "0.5", "1.5"]
    for e in edges:
        for lo, hi in (("%s" % e, "%s + 1" % e), ("%s - 1" % e, "%s" % e), ("-(%s) - 1" % e, "-(%s)" % e), ("-(%s)" % e, "-(%s) + 1" % e), ("%s + 1" % e, "%s - 1" % e), ("%s" % e, "%s" % e)):
            out.append("for i in %s..%s return i" % (lo, hi))
            out.append("some i in %s..%s satisfies i > 0" % (lo, hi))
            out.append("for i in 1..2, j in %s..%s return i + j" % (lo, hi))
            out.append("count(for i in (%s)..(%s) return 1)" % (lo, hi))
    # external function definitions: defined, invoked, passed on
    for body in ['{java: {class: "java.lang.Math", method signature: "abs(double)"}}', '{pmml: {document: "d", model: "m"}}', "{}", "{java: 1}", "null", "1", '{java: {class: null, method signature: null}}', "x"]:
        for arg in ("1", "null", '"a"', "[1]", "x: 1"):
            out.append("(function(x) external %s)(%s)" % (body, arg))
        out.append("{f: function(a, b) external %s, r: [f(1, 2), f, f = f, string(f), f instance of function<number, number>->number]}.r" % body)
        out.append("for g in [function(x) external %s] return g(2)" % body)
    # every ordered pair of escapes around the UTF-16 surrogate ranges, in both escape spellings, also as the last thing in the literal
    marks = ["D7FF", "D800", "D83D", "DBFF", "DC00", "DE00", "DFFF", "E000", "0041", "FFFF", "0000"]
    for a in marks:
        for b in marks:
            for fa, fb in (("\\u%s", "\\u%s"), ("\\U00%s", "\\u%s"), ("\\u%s", "\\U00%s"), ("\\U00%s", "\\U00%s")):
                out.append('"x%sy"' % ((fa % a) + (fb % b)))
        out.append('"\\u%s' % a)
        out.append('"\\u%s\\u' % a)
        out.append('"\\u%s\\uD8"' % a)
        out.append('string length("\\u%s\\U10FFFF\\U110000")' % a)
    # sort() with ordering functions that are not strict weak orders, on lists long enough for every algorithm path
    lists = ["for i in 1..50 return i", "for i in 1..50 return modulo(i * 7, 11)", "for i in 1..21 return -i", "for i in 1..64 return if modulo(i, 3) = 0 then null else i", "for i in 1..30 return \"s\" + string(modulo(i, 4))", "[3, 1, 2]", "[]", "[1]", "nestl", "bigl"]
    orders = ["function(x, y) true", "function(x, y) false", "function(x, y) null", "function(x, y) 1", "function(x, y) modulo(x + y, 3) = 0", "function(x, y) x != y", "function(x, y) x >= y", "function(x, y) modulo(x, 2) < modulo(y, 2)",
              "function(x, y) x < y", "function(x, y) y < x", "function(x) true", "function(x, y, z) true", "function(x, y) sort([y, x], function(a, b) a < b)[1] = x", "abs", "null", "1"]
    for l in lists:
        for o in orders:
            out.append("sort(%s, %s)" % (l, o))
            out.append("sort(list: %s, precedes: %s)" % (l, o))
    # many DISTINCT arguments for one built-in within one expression (and so within one process): whatever a built-in keeps
    # between calls (compiled patterns, parsed literals, zone rules) is driven past any small fixed capacity
    S = '"x" + string(i)'
    many = ['matches("x77", %s)' % S, 'matches(%s, "x.7")' % S, 'matches(%s, "X7", "i")' % S, 'replace("x1x2", %s, "y")' % S, 'replace(%s, "7", "y")' % S, 'split("ax1bx2c", %s)' % S, 'split(%s, "1")' % S,
            'number("1" + string(i), ".", ",")', 'string length(%s)' % S, 'upper case(%s)' % S, 'substring(%s, 2)' % S, 'contains(%s, "1")' % S, 'starts with(%s, "x1")' % S, 'substring before(%s, "7")' % S,
            'date(2021, modulo(i, 12) + 1, modulo(i, 28) + 1)', 'date("2021-01-" + (if i < 10 then "0" else "") + string(modulo(i, 28) + 1))', 'time(modulo(i, 24), modulo(i, 60), 0)', 'duration("P" + string(i) + "D")',
            'duration("P" + string(i) + "M")', 'string(date and time("2021-03-27T00:00:00@Europe/Warsaw") + duration("PT" + string(i) + "H"))', 'date and time("2021-01-01T00:00:00Z") + duration("P" + string(i) + "D") > date and time("2021-03-01T00:00:00@America/New_York")',
            'decimal(i / 7, modulo(i, 12))', 'string(i / 7)', 'floor(i / 3) + ceiling(i / 3)', 'get value({a: i}, "a")', 'get entries({a: i})', '(function(p) p + 1)(i)', 'fa(i)', 'i instance of number', 'index of([1, i], i)',
            'day of week(date(2021, 1, modulo(i, 28) + 1))', 'week of year(date(2021, modulo(i, 12) + 1, 1))', 'years and months duration(date(2000, 1, 1), date(2000 + i, 1, 1))', 'string(time("10:00:00@Europe/Paris") + duration("PT" + string(i) + "M"))']
    # UTC offsets written in time and date-and-time strings: every combination of sign, hours around the limits 14 / 24 / 99,
    # minutes and optional seconds around 59 / 60; the value alone and in the operations that convert it to an instant
    for sign in "+-":
        for hh in ("00", "01", "13", "14", "15", "18", "23", "24", "25", "48", "59", "60", "99"):
            for mm in ("00", "01", "30", "59", "60", "99"):
                for ss in ("", ":00", ":59", ":60"):
                    off = "%s%s:%s%s" % (sign, hh, mm, ss)
                    t_, d_ = 'time("10:00:00%s")' % off, 'date and time("2021-01-01T10:00:00%s")' % off
                    out.append("[%s, %s, @\"10:00:00%s\", @\"2021-01-01T10:00:00%s\"]" % (t_, d_, off, off))
                    out.append("{t: %s, d: %s, r: [t = t, d = d, string(t), string(d), t.time offset, d.time offset, d - date and time(\"2021-01-01T00:00:00Z\"), t - time(\"00:00:00Z\"), d in [date and time(\"2020-01-01T00:00:00Z\")..date and time(\"2022-01-01T00:00:00Z\")], t < time(\"12:00:00Z\"), d + duration(\"PT1H\"), t + duration(\"PT1H\")]}.r" % (t_, d_))
    for t in many:
        for n in (70, 150, 300):
            out.append("for i in 1..%d return %s" % (n, t))
        out.append("count(for i in 1..300 return %s)" % t)
        out.append("some i in 1..300 satisfies %s = null" % t)
    return out


def _str_pairs():
    words = ["\u017c\u00f3\u0142w", "a\u20acb", "\U0001F600x", "x\U0001F600", "a\u00e9\U0001F600\u20acz", "e\u0301a", "\u00df\u00df", "\u0130i", "\u20ac\u20ac\u20ac", "ab\u00e9"]
    out = []
    for w in words:
        subs = []
        for i in range(len(w)):
            for j in range(i + 1, min(len(w), i + 3) + 1):
                if w[i:j] not in subs:
                    subs.append(w[i:j])
        if w not in subs:
            subs.append(w)
        for sub in subs:
            out.append(('"%s"' % w, '"%s"' % sub))
    return out


STR_PAIRS = _str_pairs()


def bif_sweep(rng, bifs, tier):
    out = []
    per3 = 40 if tier == "quick" else 1500
    per45 = 20 if tier == "quick" else 500
    small = SMALL if tier == "thorough" else SMALL[:11]
    for f in bifs:
        out.append("%s()" % f)
        for a in ARG_TEXTS:
            out.append("%s(%s)" % (f, a))
        for a in REDUCED:
            for b in REDUCED:
                out.append("%s(%s, %s)" % (f, a, b))
        # related strings: the second argument is a prefix / infix / suffix / the whole of the first, over
        # characters of 1, 2, 3 and 4 UTF-8 bytes (byte offset vs. character count arithmetic)
        for a, b in STR_PAIRS:
            out.append("%s(%s, %s)" % (f, a, b))
            out.append("%s(%s, %s)" % (f, b, a))
            out.append("%s(%s, %s, %s)" % (f, a, b, '"\u00e9"'))
            out.append("%s(%s, %s, %s)" % (f, a, b, "2"))
            out.append("%s(%s, %s, %s)" % (f, a, "2", b))
        # every triple of a small alphabet (positions, lengths, separators: the usual index arithmetic)
        first = ['"abc"', "[1, 2, 3]", "1", "nuls", "null", 'date("2021-01-01")', "10"]
        for a in first:
            for b in small:
                for c in small:
                    out.append("%s(%s, %s, %s)" % (f, a, b, c))
        for _ in range(per3):
            out.append("%s(%s, %s, %s)" % (f, rng.choice(ARG_TEXTS), rng.choice(ARG_TEXTS), rng.choice(ARG_TEXTS)))
        for _ in range(per45):
            k = rng.choice([4, 5, 6])
            out.append("%s(%s)" % (f, ", ".join(rng.choice(ARG_TEXTS) for _ in range(k))))
        for _ in range(per45):
            k = rng.choice([1, 2, 3, 4])
            out.append("%s(%s)" % (f, ", ".join("%s: %s" % (rng.choice(PARAM_NAMES), rng.choice(ARG_TEXTS)) for _ in range(k))))
    for op in OPERATORS:
        for a in ARG_TEXTS:
            for b in (REDUCED if tier == "quick" else ARG_TEXTS):
                out.append("%s %s %s" % (a, op, b))
    for a in ARG_TEXTS:
        out.append("-%s" % a)
        for p in PROPS:
            out.append("(%s).%s" % (a, p))
        for b in REDUCED:
            out.append("(%s)[%s]" % (a, b))
            out.append("%s between %s and %s" % (a, b, rng.choice(REDUCED)))
            out.append("for x in %s return x + %s" % (b, a))
            out.append("%s instance of %s" % (a, rng.choice(["number", "string", "list<number>", "context<a: number>", "function<number>->number", "range<number>", "Any", "Null", "date and time"])))
    return out


def unicode_texts(rng, n):
    out = []
    ranges = [(0, 0x7F), (0x80, 0x7FF), (0x800, 0xD7FF), (0xE000, 0xFFFF), (0x10000, 0x10FFFF), (0x2000, 0x206F), (0x3000, 0x303F), (0, 0x20)]
    for _ in range(n):
        lo, hi = rng.choice(ranges)
        s = "".join(chr(rng.randint(lo, hi)) for _ in range(rng.randint(1, 40)))
        out.append(s)
        if rng.random() < 0.5:
            out.append('"' + s.replace('"', "") + '"')
        if rng.random() < 0.3:
            out.append(s + " + 1")
    return out


def grammar_texts(rng, n):
    out = []
    for _ in range(n):
        g = gfeel.Gen(rng, max_depth=rng.choice([2, 3, 4, 5, 6]), wrong_rate=rng.choice([0.0, 0.1, 0.3]))
        tree = g.gen(g.pick_type() if rng.random() < 0.7 else "any", 0)
        out.append(rfeel.render(tree))
    return out


def run(rep, tier, seed):
    rng = rng_for(seed, "c05")
    rep.rule = (
        "texts: grammar-derived (typed generator), mutations of every string literal of the repository's FEEL tests and every <text> of the shipped models (harvested at run time), arbitrary Unicode, "
        "nesting to depth 200 and iteration products < 4096, every built-in x arities 0..6 (positional and named) over an extreme argument alphabet, every operator / property / filter over that alphabet; "
        "x 6 parser entry points + parse_name/parse_longest_name x 3 scopes; builds dbg and rel in full, ASan on a slice. Distinct = (entry, scope, text); non-trivial = text longer than 2 characters."
    )
    rep.assumptions = ["a returned Err / null is never a violation; only panics, process deaths, sanitizer reports and bounded-progress failures are",
                       "bounded progress: a case exceeding the shard watchdog is re-run alone with 300 s; only a second failure is a violation"]
    corpus = harvest()
    bifs = bif_names()
    rep.extra["corpus_texts_harvested"] = len(corpus)
    rep.extra["builtins_found"] = len(bifs)
    if len(corpus) < 500 or len(bifs) < 50:
        raise runner.Inconclusive("corpus harvest too small (%d texts, %d built-ins)" % (len(corpus), len(bifs)))
    n_mut = 3 if tier == "quick" else 60
    texts_by_class = {}
    texts_by_class["corpus"] = list(corpus)
    texts_by_class["mutated"] = [mutate(rng, t) for t in corpus for _ in range(n_mut)] + [mutate(rng, mutate(rng, t)) for t in corpus for _ in range(max(1, n_mut // 3))]
    texts_by_class["grammar"] = grammar_texts(rng, 6000 if tier == "quick" else 300000)
    texts_by_class["grammar-mutated"] = [mutate(rng, t) for t in texts_by_class["grammar"][: (3000 if tier == "quick" else 150000)]]
    texts_by_class["unicode"] = unicode_texts(rng, 1500 if tier == "quick" else 60000)
    texts_by_class["deep"] = deep_texts()
    texts_by_class["token-pairs"] = token_pair_texts()
    texts_by_class["edge"] = edge_texts()
    if tier == "thorough":
        _libfuzzer_class(rep, texts_by_class, seed)
    texts_by_class["bif"] = bif_sweep(rng, bifs, tier)
    # iteration domains outside the property's bound (size product of a few thousand) are legitimate
    # long-running work, not hangs: keep mutated texts with such ranges out of the workload
    big_range = re.compile(r"\d{4,}[\s)]*\.\.|\.\.[\s(-]*\d{4,}|\d\s*\*\*\s*\d{3,}")
    for cls in ("mutated", "grammar-mutated", "corpus", "libfuzzer"):
        if cls not in texts_by_class:
            continue
        before = len(texts_by_class[cls])
        texts_by_class[cls] = [t for t in texts_by_class[cls] if not big_range.search(t)]
        rep.extra["outside_domain_skipped:" + cls] = before - len(texts_by_class[cls])
    scs = scopes()
    fscs = dict(scs)
    fscs.update(FUZZ_SCOPES)
    cases, meta = [], []
    for cls, texts in texts_by_class.items():
        rep.extra["texts:" + cls] = len(texts)
        for group in chunks(texts, BATCH if cls != "deep" else 4):
            if cls in ("bif",):
                combos = [("expr", "populated")]
            elif cls == "deep":
                combos = [("expr", "populated"), ("unary", "populated"), ("boxed", "empty"), ("textual", "nested")]
            elif cls == "corpus":
                combos = [(e, s) for e in ENTRIES for s in scs]
            elif cls == "libfuzzer":
                combos = [(e, s) for e in ENTRIES for s in ("empty", "fuzz1", "fuzz2")]
            else:
                combos = [(rng.choice(ENTRIES), rng.choice(list(scs))), ("expr", rng.choice(list(scs)))]
            for entry, sname in combos:
                cases.append({"op": "evalmany", "scope": fscs[sname], "entry": entry, "texts": group})
                meta.append((cls, entry, sname, group))
    # parse_name / parse_longest_name
    name_texts = texts_by_class["corpus"][:2000] + texts_by_class["mutated"][:4000] + texts_by_class["unicode"][:1500] + texts_by_class["deep"]
    for group in chunks(name_texts, BATCH):
        for longest in (False, True):
            cases.append({"op": "name", "scope": scs["nested"], "texts": group, "longest": longest})
            meta.append(("names", "name-longest" if longest else "name", "nested", group))
    total_texts = sum(len(m[3]) for m in meta)
    rep.extra["driver_cases"] = len(cases)
    plans = [("dbg", 1), ("rel", 1), ("asan", 6 if tier == "quick" else 4)]
    for variant, stride in plans:
        try:
            runner.build(variant)
        except runner.Inconclusive as ex:
            if variant in ("dbg", "rel"):
                raise
            print("NOTE property=C05 sanitizer build unavailable, asan replay skipped: %s" % str(ex)[:200])
            rep.extra["asan_unavailable"] = str(ex)[:300]
            continue
        idx = [k for k in range(len(cases)) if k % stride == 0]
        sub = [cases[k] for k in idx]
        results, m = runner.run_cases(variant, sub, rep.workdir, label="total", case_timeout=60)
        for san in m["sanitizer_reports"]:
            rep.violation("sanitizer-report:" + variant, san[-1500:], None)
        retry = []
        for k, res in zip(idx, results):
            cls, entry, sname, group = meta[k]
            if "harness_error" in res or res.get("missing"):
                raise runner.Inconclusive("driver harness error: %s" % json.dumps(res)[:300])
            if "rs" in res:
                _scan(rep, variant, cls, entry, sname, group, res["rs"], cases[k])
            elif "panic" in res:
                # a panic outside the per-text guard (e.g. while building the scope) is a harness problem, not a verdict
                raise runner.Inconclusive("panic outside the per-text guard: %s" % json.dumps(res["panic"])[:300])
            else:
                retry.append(k)
        # batches that died or hung: re-run text by text to find the culprits
        single, smeta = [], []
        for k in retry:
            cls, entry, sname, group = meta[k]
            for t in group:
                c = dict(cases[k])
                c["texts"] = [t]
                single.append(c)
                smeta.append((cls, entry, sname, t))
        if single:
            sres, _ = runner.run_cases(variant, single, rep.workdir, label="single", case_timeout=30)
            # texts that stayed silent alone (30 s, then 150 s): bounded progress is judged once more, on the plain debug build
            # (sanitizer builds are 5-20x slower), all of them side by side with 300 s each. At most 8 texts per class go through
            # this last stage: it costs five minutes whatever it finds, and one confirmed hang per class is a verdict already.
            hung = [j for j, res in enumerate(sres) if "rs" not in res and "timeout" in res]
            per_class, slow_idx = {}, []
            for j in hung:
                c_ = smeta[j][0]
                per_class[c_] = per_class.get(c_, 0) + 1
                if per_class[c_] <= 8:
                    slow_idx.append(j)
                else:
                    rep.bump("timeouts_not_confirmed_beyond_8_per_class")
            slow_res = {}
            if slow_idx:
                again, _ = runner.run_cases("dbg" if variant == "asan" else variant, [single[j] for j in slow_idx], rep.workdir, label="slow", case_timeout=300, confirm_timeouts=False)
                slow_res = dict(zip(slow_idx, again))
            for j, ((cls, entry, sname, t), c, res) in enumerate(zip(smeta, single, sres)):
                if "rs" in res:
                    _scan(rep, variant, cls, entry, sname, [t], res["rs"], c)
                    continue
                if "timeout" in res:
                    if j not in slow_res:
                        rep.count()  # accounted for: same class as a text that went through the last stage
                        continue
                    res2 = slow_res[j]
                    if "rs" in res2:
                        _scan(rep, variant, cls, entry, sname, [t], res2["rs"], c)
                        rep.bump("slow_but_finished")
                        continue
                    res = res2
                rep.count()
                sig = crash_signature(res, _text_class(cls, t))
                rep.violation("%s:%s" % (sig, variant if variant == "asan" else "any"), "process died / hung on %s entry=%s scope=%s text=%r: %s" % (variant, entry, sname, t[:200], json.dumps(res)[:500]), {"variant": variant, "case": c})
    if rep.evaluations < total_texts:
        rep.inconclusive_reason("observed %d of %d planned executions on dbg+rel" % (rep.evaluations, total_texts))


# the scopes of harness/fuzz/fuzz_targets/fuzz_feel.rs (kind % 3 = 1, 2)
_F1 = [["a", {"n": "1"}], ["b", {"n": "2.5"}], ["s", {"s": "abc"}], ["l", [{"n": "1"}, {"n": "2"}, {"n": "3"}]], ["c", {"c": [["x", {"n": "1"}], ["y", {"c": [["z", {"s": "q"}]]}]]}], ["d", {"d": "2021-03-04"}], ["t", None]]
FUZZ_SCOPES = {"fuzz1": [_F1], "fuzz2": [_F1 + [[["net", "income"], True], [["net", "income", "/", "loss"], False], [["a", "-", "b"], False]]]}


def _libfuzzer_class(rep, texts_by_class, seed):
    """coverage-guided generation (libFuzzer on the ASan build of harness/fuzz): crash artifacts and the final corpus become
    one more class of texts; the verdict on each is the driver's, as for every other class"""
    import fuzzing

    seeds = [b"\x08" + t.encode("utf-8") for t in texts_by_class["corpus"] if len(t) < 400]
    try:
        crashes, stats = fuzzing.run("fuzz_feel", seeds, fuzzing.SECONDS, rep.workdir, max_len=600, seed=seed, dictionary=KEYWORDS)
    except runner.Inconclusive as ex:
        print("NOTE property=C05 libFuzzer slot skipped: %s" % str(ex)[:300])
        rep.extra["libfuzzer"] = "unavailable: " + str(ex)[:300]
        return
    texts = []
    for blob in crashes + stats.pop("corpus"):
        try:
            texts.append(blob[1:].decode("utf-8"))
        except UnicodeDecodeError:
            pass
    texts_by_class["libfuzzer"] = sorted(set(t for t in texts if t))
    stats["crash_candidates_replayed_in_driver"] = len(crashes)
    rep.extra["libfuzzer"] = stats


KEYWORDS = ["for ", " in ", " return ", "some ", "every ", " satisfies ", "if ", " then ", " else ", " between ", " and ", " or ", "instance of ", "function(", "not(", "null", "true", "false", "..", "**", "date(", "time(",
            "duration(", "date and time(", "@\"", "list<", "context<", "range<", "->", "item", "?", "/*", "*/", "//", "\\u", "\\U"]


def _text_class(cls, t):
    if cls != "deep":
        return cls
    m = re.match(r"[\w ]*?([^\w\s])", t)
    return "deep:" + (t[:12].replace(" ", "_"))


def _scan(rep, variant, cls, entry, sname, group, rs, case):
    for t, r in zip(group, rs):
        rep.count()
        if len(t) > 2 and variant == "dbg":
            rep.seen((entry, sname, t))
        if isinstance(r, dict) and "panic" in r:
            p = r["panic"]
            c = dict(case)
            c["texts"] = [t]
            rep.violation(panic_signature(p), "panic on %s (entry=%s, scope=%s) for text %r: %s at %s" % (variant, entry, sname, t[:300], p.get("msg"), p.get("loc")), {"variant": variant, "case": c})
        elif isinstance(r, dict):
            if "v" in r:
                rep.bump("outcome:value")
            elif "perr" in r or "err" in r:
                rep.bump("outcome:parse_error")
            elif "berr" in r:
                rep.bump("outcome:build_error")
            elif "name" in r:
                rep.bump("outcome:name")
            if len(rep.samples) < 6 and cls in ("mutated", "bif") and len(t) < 120 and "v" in r:
                rep.sample({"class": cls, "entry": entry, "scope": sname, "text": t, "outcome": r})
