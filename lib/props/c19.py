"""C19 — a decision table drawn as text is recognised exactly as drawn.

Oracle 1 (recognition): an abstract table is drawn by G-DRAW (lib/gdraw.py) in both orientations with
random cell widths, padding, multi-line cells and merged identical input entries; the real
`dmntk_recognizer::build` must return a DecisionTable whose every field equals the abstract table
(texts compared in whitespace-normal form, rule entries in order).
Oracle 2 (evaluation): the recognised table is evaluated with `build_decision_table_evaluator` on
input tuples steered to match no / one / several rules; the same table written as DMN 1.3 XML and
evaluated through ModelEvaluator must give the same values.
Oracle 3 (totality): single-character corruptions of the drawings, deleted/duplicated/ragged/
truncated lines and arbitrary text must give a table or an error, never a panic/abort/hang, on the
debug (overflow checks on), release (overflow checks off) and, for a 10 % slice, ASan builds;
debug and release must agree on accepted/rejected.
"""
import json
import multiprocessing
import os
import re
import shutil
from decimal import Decimal

import gdraw
import runner
from common import crash_signature, panic_signature, rng_for, stable_hash

LEVEL = "exploration"

TIERS = {
    # tables are drawn twice (rules as rows, rules as columns)
    "quick": {"tables": 4092, "chunk": 62, "corruptions_per_drawing": 10, "exhaustive_drawings": 4, "random_texts": 3000, "shipped_reps": 2},
    "thorough": {"tables": 100100, "chunk": 130, "corruptions_per_drawing": 10, "exhaustive_drawings": 8, "random_texts": 60000, "shipped_reps": 10},
}

LETTERS = "xU1-\"<"
JUNCTIONS = "┌┐└┘├┤┬┴┼╞╡╪╤╧╟╢╫╥╨╬"
CORRUPTION_KINDS = ["junction", "box2box", "box2space", "box2letter", "text2box", "delchar", "inschar", "newline", "delline", "dupline", "ragged", "truncate"]


# --------------------------------------------------------------------------------------------
# helpers
# --------------------------------------------------------------------------------------------
def _err_class(msg):
    msg = re.sub(r"'[^']*'", "'_'", msg or "")
    msg = re.sub(r"\([^()]*\)", "(_)", msg)
    msg = re.sub(r"\[[^\[\]]*\]", "[_]", msg)
    msg = re.sub(r"\d+", "N", msg)
    return msg[:70]


def psig(p):
    """panic_signature over the first frame that is a function of a dmntk crate (not a std function instantiated
    with a dmntk type), spelled the same by the stable and the nightly toolchain."""
    own = [f for f in (p.get("frames") or []) if re.match(r"<?dmntk_\w+::", f)]
    q = dict(p)
    if own:
        q["frame"] = own[0]
    return re.sub(r"<([A-Za-z0-9_:]+)>", r"\1", panic_signature(q))


def _num(s):
    try:
        return Decimal(s)
    except Exception:
        return s


def veq(a, b):
    """Structural equality of value JSON; numbers numerically."""
    if isinstance(a, dict) and isinstance(b, dict):
        if "n" in a and "n" in b:
            return _num(a["n"]) == _num(b["n"])
        if a.keys() != b.keys():
            return False
        return all(veq(a[k], b[k]) for k in a)
    if isinstance(a, list) and isinstance(b, list):
        return len(a) == len(b) and all(veq(x, y) for x, y in zip(a, b))
    return type(a) == type(b) and a == b


def apply_edit(text, edit):
    chars = list(text)
    s, e, rep = edit
    s = min(s, len(chars))
    e = min(max(e, s), len(chars))
    return "".join(chars[:s]) + rep + "".join(chars[e:])


def _harness_ok(res):
    if res is None or "harness_error" in res or res.get("missing"):
        raise runner.Inconclusive("driver reported a harness error: %s" % json.dumps(res)[:300])


class Acc:
    """Picklable accumulator returned by a work unit."""

    def __init__(self):
        self.count = 0
        self.counters = {}
        self.distinct = set()
        self.violations = []  # (sig, what, replay)
        self.undecided = 0
        self.samples = []
        self.inconclusive = []
        self._sigs = {}

    def bump(self, key, n=1):
        self.counters[key] = self.counters.get(key, 0) + n

    def violation(self, sig, what, replay):
        k = self._sigs.get(sig, 0)
        self._sigs[sig] = k + 1
        if k < 1:
            self.violations.append([sig, what, replay, 1])
        else:
            for v in self.violations:
                if v[0] == sig:
                    v[3] += 1
                    break


def _run(acc, variant, cases, workdir, label, timeout=120.0):
    """Runs the cases in one driver process. A case whose process died or made no progress for `timeout` s is
    run once more alone with a 300 s budget (DESIGN: bounded progress, decided by the second run); a stall that
    does not repeat is only counted (`watchdog_stalls_not_repeated`), every case still gets its observation."""
    res, meta = runner.run_cases(variant, cases, workdir, label=label, nshards=1, case_timeout=timeout)
    bad = [k for k, r in enumerate(res) if r is None or "timeout" in r or "crash" in r or r.get("missing")]
    if bad:
        res2, _ = runner.run_cases(variant, [cases[k] for k in bad], workdir, label=label + ".again", nshards=1, case_timeout=300.0)
        for k, r in zip(bad, res2):
            if r is not None and not ("timeout" in r or "crash" in r or r.get("missing")):
                acc.bump("watchdog_stalls_not_repeated" if "timeout" in (res[k] or {}) else "process_deaths_not_repeated")
                if "crash" in (res[k] or {}):
                    acc.inconclusive.append("a driver process died on %s in a case that completes when run again: %s" % (variant, json.dumps(res[k])[:300]))
            res[k] = r
    return res, meta


def run_recog_items(acc, variant, items, workdir, label, brief, batch=100):
    """items: list of ("text", text) or ("edit", base, edit). Returns one record per item; a batch
    that died is re-run item by item so that the culprit is identified (crash / hang records)."""
    cases, spans = [], []
    k = 0
    while k < len(items):
        if items[k][0] == "text":
            j = k
            while j < len(items) and j - k < batch and items[j][0] == "text":
                j += 1
            cases.append({"op": "recog", "texts": [it[1] for it in items[k:j]], "brief": brief})
        else:
            base = items[k][1]
            j = k
            while j < len(items) and j - k < batch and items[j][0] == "edit" and (items[j][1] is base or items[j][1] == base):
                j += 1
            cases.append({"op": "recog", "base": base, "edits": [it[2] for it in items[k:j]], "brief": brief})
        spans.append((k, j))
        k = j
    results, _ = _run(acc, variant, cases, workdir, label)
    out = [None] * len(items)
    for (a, b), res, case in zip(spans, results, cases):
        _harness_ok(res)
        if "rs" in res and len(res["rs"]) == b - a:
            out[a:b] = res["rs"]
            continue
        # the batch died (crash / timeout / panic outside the per-item guard): isolate
        singles = [{"op": "recog", "texts": [item_text(items[i])], "brief": brief} for i in range(a, b)]
        sres, _ = _run(acc, variant, singles, workdir, label + ".iso", timeout=300.0)
        found = False
        for i, r in zip(range(a, b), sres):
            _harness_ok(r)
            if "rs" in r and len(r["rs"]) == 1:
                out[i] = r["rs"][0]
            else:
                out[i] = r  # crash / timeout / panic record
                found = True
        if not found:
            acc.inconclusive.append("a recog batch died on %s (%s) but no single item reproduced it" % (variant, json.dumps(res)[:200]))
    return out


def item_text(item):
    return item[1] if item[0] == "text" else apply_edit(item[1], item[2])


def check_total(acc, variant, item, rec, kind):
    """No-panic clause for one observed record. Returns 'ok' / 'err' / 'bad'."""
    if rec is None:
        return "bad"
    if "panic" in rec:
        text = item_text(item)
        acc.violation(
            psig(rec["panic"]),
            "panic recognising a %s text on %s: %s at %s" % (kind, variant, rec["panic"].get("msg"), rec["panic"].get("loc")),
            {"kind": "nopanic", "variant": variant, "case": {"op": "recog", "texts": [text], "brief": True}, "expected": "a decision table or an error", "observed": {"panic": rec["panic"]}},
        )
        return "bad"
    if "crash" in rec or "timeout" in rec:
        text = item_text(item)
        acc.violation(
            crash_signature(rec, "c19-recog"),
            "process death / hang recognising a %s text on %s: %s" % (kind, variant, json.dumps(rec)[:300]),
            {"kind": "nopanic", "variant": variant, "case": {"op": "recog", "texts": [text], "brief": True}, "expected": "a decision table or an error", "observed": rec},
        )
        return "bad"
    if "ok" in rec or "dt" in rec:
        return "ok"
    if "err" in rec:
        return "err"
    raise runner.Inconclusive("unexpected recog record: %s" % json.dumps(rec)[:300])


# --------------------------------------------------------------------------------------------
# corruptions
# --------------------------------------------------------------------------------------------
def random_corruption(text, rng, kind):
    """An edit [start, end, replacement] (char indices) of the given kind, or None."""
    chars = text
    n = len(chars)
    box_pos = [i for i, ch in enumerate(chars) if ch in gdraw.BOX_CHARS]
    if kind == "junction":
        # a corner / tee / crossing becomes another corner / tee / crossing
        pos = [i for i in box_pos if chars[i] in JUNCTIONS]
        if not pos:
            return None
        p = rng.choice(pos)
        return [p, p + 1, rng.choice([c for c in JUNCTIONS if c != chars[p]])]
    if kind in ("box2box", "box2space", "box2letter"):
        if not box_pos:
            return None
        p = rng.choice(box_pos)
        if kind == "box2box":
            rep = rng.choice([c for c in gdraw.BOX_CHARS if c != chars[p]])
        elif kind == "box2space":
            rep = " "
        else:
            rep = rng.choice(LETTERS)
        return [p, p + 1, rep]
    if kind == "text2box":
        pos = [i for i, ch in enumerate(chars) if ch not in gdraw.BOX_CHARS and ch != "\n"]
        if not pos:
            return None
        p = rng.choice(pos)
        return [p, p + 1, rng.choice(gdraw.BOX_CHARS)]
    if kind == "delchar":
        p = rng.choice(box_pos) if box_pos and rng.random() < 0.7 else rng.randrange(n)
        return [p, p + 1, ""]
    if kind == "inschar":
        p = rng.randrange(n + 1)
        return [p, p, rng.choice(gdraw.BOX_CHARS + LETTERS + " ")]
    if kind == "newline":
        p = rng.randrange(n)
        return [p, p + 1, "\n"]
    # line based
    starts = [0] + [i + 1 for i, ch in enumerate(chars) if ch == "\n"]
    lines = [(s, (starts[k + 1] - 1) if k + 1 < len(starts) else n) for k, s in enumerate(starts)]
    lines = [(s, e) for s, e in lines if e > s]
    if not lines:
        return None
    s, e = rng.choice(lines)
    if kind == "delline":
        return [s, min(e + 1, n), ""]
    if kind == "dupline":
        return [s, s, chars[s:e] + "\n"]
    if kind == "ragged":
        q = rng.randint(s, e - 1)
        return [q, e, ""]
    if kind == "truncate":
        p = rng.randrange(n)
        return [p, n, ""]
    raise ValueError(kind)


def exhaustive_corruptions(text):
    """Every position x {space, letter, 6 box characters, deletion}; every junction x every box character."""
    out = []
    for p, ch in enumerate(text):
        if ch == "\n":
            out.append(("delnl", [p, p + 1, ""]))
            continue
        if ch in JUNCTIONS:
            for rep in gdraw.BOX_CHARS:
                if rep != ch and rep not in "┼╬║═┌┘":
                    out.append(("pos-junction", [p, p + 1, rep]))
        for rep, kind in ((" ", "pos-space"), ("x", "pos-letter"), ("", "pos-delete"), ("┼", "pos-box"), ("╬", "pos-box"), ("║", "pos-box"), ("═", "pos-box"), ("┌", "pos-box"), ("┘", "pos-box")):
            if rep != ch:
                out.append((kind, [p, p + 1, rep]))
    return out


# --------------------------------------------------------------------------------------------
# work unit: one chunk of tables (runs in a pool worker)
# --------------------------------------------------------------------------------------------
def combo_key(t, orientation, merged):
    no = len(t["outputs"])
    return (
        orientation,
        "name" if t["name"] is not None else "noname",
        "values" if t["inputs"][0]["values"] is not None else "novalues",
        "label" if t["label"] else "nolabel",
        "out%d" % no,
        "ann%d" % len(t["anns"]),
        "merged" if merged else "unmerged",
    )


def chunk_unit(args):
    seed, tier, chunk_index, first_table, n_tables, workroot, use_asan = args
    cfg = TIERS[tier]
    acc = Acc()
    rng = rng_for(seed, "c19-chunk", chunk_index)
    workdir = os.path.join(workroot, "chunk%05d" % chunk_index)
    os.makedirs(workdir, exist_ok=True)
    try:
        _chunk(acc, rng, cfg, first_table, n_tables, workdir, use_asan)
    except runner.Inconclusive as e:
        acc.inconclusive.append(str(e)[:600])
    finally:
        if not acc.inconclusive:  # replay files carry the complete driver case; the shard files are not needed
            shutil.rmtree(workdir, ignore_errors=True)
    return acc


def _chunk(acc, rng, cfg, first_table, n_tables, workdir, use_asan):
    drawings = []  # (table, orientation, text, merged_count)
    tables = []
    for k in range(n_tables):
        marker = gdraw.MARKERS[(first_table + k) % len(gdraw.MARKERS)]
        t = gdraw.random_table(rng, marker=marker)
        if rng.random() < 0.15:
            # string literals with runs of blanks inside them (a cell line carries them as they are; they are part of the value)
            gdraw.space_strings(t, rng, drawable=True)
            acc.bump("tables_with_blank_runs_inside_string_literals")
        t["inputs_steered"] = gdraw.steer_inputs(t, rng)
        tables.append(t)
        for orientation in ("row", "col"):
            style = None
            if rng.random() < 0.15:
                style = {"pad_small": 0, "pad_big_p": 0.0, "tall_p": 0.0, "multiline_p": 0.5}  # tight: no padding at all
            elif rng.random() < 0.1:
                style = {"pad_big_p": 0.5, "tall_p": 0.5, "multiline_p": 0.6}
            text, info = gdraw.draw(t, orientation, rng, style)
            drawings.append((k, orientation, text, info["merged"]))
            if info["crlf"]:
                acc.bump("drawings_with_crlf")
            if info["multiline_cells"]:
                acc.bump("drawings_with_multiline_cells")
            acc.bump("widest_cell:%02d" % min(info["widest_cell"], 30))
    # ---- oracle 1: recognition, field by field ----
    recs = run_recog_items(acc, "dbg", [("text", d[2]) for d in drawings], workdir, "recog", brief=False, batch=50)
    for (k, orientation, text, merged), rec in zip(drawings, recs):
        t = tables[k]
        acc.count += 1
        acc.bump("drawings")
        acc.bump("orientation:" + orientation)
        acc.bump("marker:%s:%s" % (t["marker"], orientation))
        acc.bump("combo:" + "/".join(combo_key(t, orientation, merged)))
        acc.bump("shape:in%d" % len(t["inputs"]))
        acc.bump("shape:rules%d" % len(t["rules"]))
        if merged:
            acc.bump("drawings_with_merged_entries")
        acc.distinct.add(stable_hash([{x: t[x] for x in ("marker", "name", "label", "inputs", "outputs", "anns")}, [[r["i"], r["o"], r["a"]] for r in t["rules"]], orientation]))
        exp = gdraw.expected(t, orientation)
        replay = {"kind": "recog", "variant": "dbg", "case": {"op": "recog", "texts": [text]}, "expected": exp}
        state = check_total(acc, "dbg", ("text", text), rec, "drawn")
        if state == "bad":
            continue
        if state == "err":
            replay["observed"] = rec
            tag = ":first-input-reads-like-marker" if gdraw.norm(t["inputs"][0]["expr"]) in gdraw.MARKERS else ""
            acc.violation("rejected:%s%s:%s" % (orientation, tag, _err_class(rec["err"])), "a table drawn by G-DRAW (%s) was rejected: %s\n%s" % ("/".join(combo_key(t, orientation, merged)), rec["err"], text), replay)
            continue
        got = gdraw.normalise_recognised(rec["dt"])
        diffs = gdraw.diff_fields(exp, got)
        if diffs:
            replay["observed"] = rec
            for cls in sorted({d[0] for d in diffs}):
                detail = [d[1] for d in diffs if d[0] == cls][:3]
                acc.violation("mismatch:%s:%s" % (orientation, cls), "recognised table differs from the drawing (%s): %s\n%s" % ("/".join(combo_key(t, orientation, merged)), "; ".join(detail), text), replay)
        else:
            acc.bump("recognised_as_drawn")
            if len(acc.samples) < 1 and orientation == "col" and merged:
                acc.samples.append({"drawing": text, "recognised": rec["dt"]})
    # ---- oracle 2: evaluation against the XML twin ----
    ditems, dmeta = [], []
    mcases = []
    for k, t in enumerate(tables):
        tuples = t["inputs_steered"]
        ctxs = [gdraw.input_context(t, tup) for tup, _ in tuples]
        xml, dname = gdraw.to_dmn_xml(t, "row", raw=bool(t.get("spaced")))
        mcases.append({"op": "model", "xml": xml, "calls": [[dname, c] for c in ctxs]})
        for (kk, orientation, text, merged) in drawings:
            if kk == k:
                ditems.append({"text": text, "inputs": ctxs})
                dmeta.append((k, orientation, text))
    dcases, dspans = [], []
    for a in range(0, len(ditems), 20):
        dcases.append({"op": "dtext", "items": ditems[a : a + 20]})
        dspans.append((a, min(a + 20, len(ditems))))
    dres, _ = _run(acc, "dbg", dcases, workdir, "dtext")
    mres, _ = _run(acc, "dbg", mcases, workdir, "model")
    drecs = [None] * len(ditems)
    for (a, b), res, case in zip(dspans, dres, dcases):
        _harness_ok(res)
        if "rs" in res and len(res["rs"]) == b - a:
            drecs[a:b] = res["rs"]
        else:
            sig = psig(res["panic"]) if "panic" in res else crash_signature(res, "c19-dtext")
            acc.violation(sig, "dtext batch died: %s" % json.dumps(res)[:300], {"kind": "nopanic", "variant": "dbg", "case": case, "observed": res})
    for (k, orientation, text), drec in zip(dmeta, drecs):
        if drec is None:
            continue
        t = tables[k]
        mrec = mres[k]
        _harness_ok(mrec)
        tuples = t["inputs_steered"]
        dcase = {"op": "dtext", "items": [{"text": text, "inputs": [gdraw.input_context(t, tup) for tup, _ in tuples]}]}
        replay = {"kind": "eval", "variant": "dbg", "case": dcase, "model_case": mcases[k]}
        if "panic" in drec:
            acc.violation(psig(drec["panic"]) + ":dtext-" + str(drec.get("stage")), "panic in %s of a drawn table: %s" % (drec.get("stage"), drec["panic"].get("msg")), dict(replay, observed=drec))
            continue
        twin_ok = "rs" in mrec
        if "err" in drec:
            continue  # recognition failure: already reported by oracle 1
        if "build_err" in drec:
            if twin_ok:
                acc.violation("eval-text-rejected:%s:%s" % (orientation, _err_class(drec["build_err"])), "evaluator of the recognised table cannot be built (%s) while the XML twin evaluates\n%s" % (drec["build_err"], text), dict(replay, observed=drec))
            else:
                acc.undecided += 1
                acc.bump("eval_both_rejected")
                acc.bump("eval_both_rejected:" + _err_class(drec["build_err"]))
            continue
        if not twin_ok:
            acc.undecided += len(tuples)
            acc.bump("eval_twin_rejected")
            acc.bump("eval_twin_rejected:" + _err_class(mrec.get("build_err") or mrec.get("parse_err") or json.dumps(mrec)[:80]))
            continue
        for j, ((tup, nmatch), dv) in enumerate(zip(tuples, drec["vs"])):
            mv = mrec["rs"][j]
            acc.count += 1
            if "panic" in dv:
                acc.violation(psig(dv["panic"]) + ":dtext-eval", "panic evaluating a recognised table: %s" % dv["panic"].get("msg"), dict(replay, observed=dv))
                continue
            if "panic" in mv:
                acc.undecided += 1
                acc.bump("eval_twin_panicked")
                continue
            acc.bump("evaluation_comparisons")
            acc.bump("tuples_matching_%s" % ("no_rule" if nmatch == 0 else "one_rule" if nmatch == 1 else "several_rules"))
            if dv["v"] is not None:
                acc.bump("evaluations_non_null")
            if not veq(dv["v"], mv["v"]):
                acc.violation(
                    "eval-differs:%s:hp=%s" % (orientation, t["marker"]),
                    "input %s: recognised table gives %s (%s), XML twin gives %s (%s)\n%s" % (json.dumps(gdraw.input_context(t, tup), ensure_ascii=False), json.dumps(dv["v"]), dv.get("nm"), json.dumps(mv["v"]), mv.get("nm"), text),
                    dict(replay, expected=mv["v"], observed=dv["v"], input_index=j),
                )
            elif len(acc.samples) < 2 and nmatch >= 2 and dv["v"] is not None:
                acc.samples.append({"drawing": text, "input": gdraw.input_context(t, tup), "recognised_table_value": dv["v"], "xml_twin_value": mv["v"], "rules_matching": nmatch})
    # ---- oracle 3: corruptions ----
    items, kinds = [], []
    for (k, orientation, text, merged) in drawings:
        for c in range(cfg["corruptions_per_drawing"]):
            kind = CORRUPTION_KINDS[(c + k) % len(CORRUPTION_KINDS)] if rng.random() < 0.8 else rng.choice(CORRUPTION_KINDS)
            edit = random_corruption(text, rng, kind)
            if edit is None:
                continue
            items.append(("edit", text, edit))
            kinds.append(kind)
    corruption_pass(acc, items, kinds, workdir, "corr", use_asan)


def corruption_pass(acc, items, kinds, workdir, label, use_asan):
    variants = ["dbg", "rel"] + (["asan"] if use_asan else [])
    outcomes = {}
    for variant in variants:
        recs = run_recog_items(acc, variant, items, workdir, label, brief=True, batch=200)
        outcomes[variant] = []
        for item, kind, rec in zip(items, kinds, recs):
            acc.count += 1
            state = check_total(acc, variant, item, rec, "corrupted (%s)" % kind)
            outcomes[variant].append(state)
            acc.bump("corruptions:%s" % variant)
            if variant == "dbg":
                acc.bump("corruption_kind:%s" % kind)
                acc.bump("corruption_outcome:%s:%s" % (kind, {"ok": "still_recognised", "err": "rejected", "bad": "PANIC"}[state]))
                if state == "err":
                    acc.bump("error_class:" + _err_class(rec["err"]))
    for variant in variants[1:]:
        for item, kind, a, b in zip(items, kinds, outcomes["dbg"], outcomes[variant]):
            if a == "bad" and b == "ok" and variant == "rel":
                # the overflow-checked build panics, the unchecked build goes on and accepts the text
                text = item_text(item)
                acc.violation("release-accepts-where-debug-panics:%s" % kind, "debug build panics, release build returns a decision table for the same text", {"kind": "nopanic", "variant": "dbg", "case": {"op": "recog", "texts": [text], "brief": True}, "expected": "a decision table or an error", "observed": "panic"})
            if "bad" in (a, b):
                continue
            if a != b:
                text = item_text(item)
                acc.violation("build-divergence:dbg-vs-%s:%s" % (variant, kind), "debug build says %s, %s build says %s for the same text" % (a, variant, b), {"kind": "nopanic", "variant": variant, "case": {"op": "recog", "texts": [text], "brief": True}, "expected": a, "observed": b})


# --------------------------------------------------------------------------------------------
# units run in the main process
# --------------------------------------------------------------------------------------------
def shipped_examples():
    src = open(os.path.join(os.environ.get("VERIF_REPO") or "/repo", "examples/src/examples/valid.rs"), encoding="utf-8").read()
    return [(m.group(1), m.group(2)) for m in re.finditer(r'pub const (EX_\d+): &str = r#"(.*?)"#;', src, re.S)]


def shipped_unit(args):
    """Re-draw every shipped example that the recognizer accepts, in both orientations; the
    re-drawings must be recognised identically to the originals."""
    seed, tier, workroot = args
    cfg = TIERS[tier]
    acc = Acc()
    rng = rng_for(seed, "c19-shipped")
    workdir = os.path.join(workroot, "shipped")
    os.makedirs(workdir, exist_ok=True)
    try:
        ex = shipped_examples()
        recs = run_recog_items(acc, "dbg", [("text", text) for _, text in ex], workdir, "orig", brief=False)
        tables = []
        for (name, text), rec in zip(ex, recs):
            state = check_total(acc, "dbg", ("text", text), rec, "shipped")
            if state == "ok":
                tables.append((name, gdraw.table_from_recognised(rec["dt"])))
        acc.bump("shipped_examples_recognised", len(tables))
        drawn = []
        for name, t in tables:
            for orientation in ("row", "col"):
                for _ in range(cfg["shipped_reps"]):
                    try:
                        text, _info = gdraw.draw(t, orientation, rng)
                    except gdraw.NotDrawable:
                        # what was recognised cannot be drawn in the recognizer's own conventions: nothing to compare here
                        # (the generated drawings below decide); counted so that it is visible
                        acc.bump("shipped_examples_recognised_but_not_redrawable")
                        continue
                    drawn.append((name, t, orientation, text))
        recs = run_recog_items(acc, "dbg", [("text", d[3]) for d in drawn], workdir, "redraw", brief=False)
        for (name, t, orientation, text), rec in zip(drawn, recs):
            acc.count += 1
            acc.bump("shipped_redrawings")
            exp = gdraw.expected(t, orientation)
            replay = {"kind": "recog", "variant": "dbg", "case": {"op": "recog", "texts": [text]}, "expected": exp, "observed": rec}
            state = check_total(acc, "dbg", ("text", text), rec, "re-drawn shipped example")
            if state == "err":
                acc.violation("rejected:%s:%s" % (orientation, _err_class(rec["err"])), "shipped example %s re-drawn by G-DRAW was rejected: %s\n%s" % (name, rec["err"], text), replay)
            elif state == "ok":
                diffs = gdraw.diff_fields(exp, gdraw.normalise_recognised(rec["dt"]))
                for cls in sorted({d[0] for d in diffs}):
                    acc.violation("mismatch:%s:%s" % (orientation, cls), "shipped example %s re-drawn is recognised differently: %s\n%s" % (name, [d[1] for d in diffs if d[0] == cls][:3], text), replay)
                if not diffs:
                    acc.bump("shipped_redrawings_recognised_identically")
    except runner.Inconclusive as e:
        acc.inconclusive.append(str(e)[:600])
    return acc


SMALL_ALPHABET = ["┌", "┘", "╬", "╥", "╨", "╞", "╡", "─", "│", "\n", "a", " "]


def arbitrary_unit(args):
    """Arbitrary text, in parts: ("enum",) every string of length <= 3 over a 12-symbol alphabet;
    ("random", k) seeded random box/letter soups, box rectangles, shuffled / spliced lines of real drawings;
    ("positions", k) every-position corruptions of one small drawing (independent of the seed)."""
    seed, tier, workroot, use_asan, part = args
    acc = Acc()
    workdir = os.path.join(workroot, "arbitrary-" + "-".join(str(x) for x in part))
    os.makedirs(workdir, exist_ok=True)
    try:
        items, kinds = [], []
        if part[0] == "enum":
            texts = [""]
            for a in SMALL_ALPHABET:
                texts.append(a)
                for b in SMALL_ALPHABET:
                    texts.append(a + b)
                    for c in SMALL_ALPHABET:
                        texts.append(a + b + c)
            items = [("text", x) for x in texts]
            kinds = ["enumerated"] * len(texts)
            acc.bump("enumerated_texts", len(texts))
        elif part[0] == "random":
            rng = rng_for(seed, "c19-arbitrary", part[1])
            real = []
            for k in range(40):
                t = gdraw.random_table(rng, shape={"n": rng.randint(1, 3), "ni": rng.randint(1, 2)})
                real.append(gdraw.draw(t, rng.choice(["row", "col"]), rng)[0])
            soup = gdraw.BOX_CHARS + "  \n\nxU1"
            for k in range(RANDOM_TEXTS_PER_PART):
                mode = k % 4
                if mode == 0:
                    items.append(("text", "".join(rng.choice(soup) for _ in range(rng.randint(1, 120)))))
                    kinds.append("soup")
                elif mode == 1:
                    w = rng.randint(1, 12)
                    lines = ["".join(rng.choice(gdraw.BOX_CHARS + " ") for _ in range(w)) for _ in range(rng.randint(1, 8))]
                    if rng.random() < 0.7:
                        lines[0] = "┌" + lines[0][1:]
                        lines[-1] = lines[-1][:-1] + "┘"
                    items.append(("text", "\n".join(lines)))
                    kinds.append("box-rectangle")
                elif mode == 2:
                    lines = rng.choice(real).split("\n")
                    rng.shuffle(lines)
                    items.append(("text", "\n".join(lines)))
                    kinds.append("shuffled-lines")
                else:
                    a, b = rng.choice(real).split("\n"), rng.choice(real).split("\n")
                    cut = rng.randint(0, len(a))
                    items.append(("text", "\n".join(a[:cut] + b[rng.randint(0, len(b)) :])))
                    kinds.append("spliced-drawings")
        elif part[0] == "file":
            with open(part[1], encoding="utf-8") as fh:
                texts = json.load(fh)
            items = [("text", x) for x in texts]
            kinds = ["libfuzzer"] * len(texts)
            acc.bump("libfuzzer_texts", len(texts))
        else:
            k = part[1]
            frng = rng_for(0, "c19-exhaustive-positions", k)
            t = gdraw.random_table(frng, shape=POSITION_SHAPES[(k // 2) % len(POSITION_SHAPES)])
            text = gdraw.draw(t, "row" if k % 2 == 0 else "col", frng, {"pad_big_p": 0.0, "pad_small": 1, "indent_max": 1, "preamble_p": 0.0, "trailer_p": 0.0})[0]
            for kind, edit in exhaustive_corruptions(text):
                items.append(("edit", text, edit))
                kinds.append(kind)
            acc.bump("exhaustive_position_corruptions", len(items))
            acc.bump("exhaustive_position_drawings")
        corruption_pass(acc, items, kinds, workdir, "arb", use_asan)
        if not acc.inconclusive:
            shutil.rmtree(workdir, ignore_errors=True)
    except runner.Inconclusive as e:
        acc.inconclusive.append(str(e)[:600])
    return acc


RANDOM_TEXTS_PER_PART = 3000
POSITION_SHAPES = [
    {"ni": 1, "no": 1, "na": 0, "n": 1, "name": False, "values": False},
    {"ni": 2, "no": 2, "na": 1, "n": 2, "name": True, "values": True, "label": True},
    {"ni": 1, "no": 1, "na": 1, "n": 2, "name": True, "values": True},
    {"ni": 2, "no": 2, "na": 0, "n": 2, "name": False, "values": False, "label": True},
]


# --------------------------------------------------------------------------------------------
# entry points
# --------------------------------------------------------------------------------------------
def run(rep, tier, seed):
    cfg = TIERS[tier]
    rep.rule = (
        "a drawing is distinct by (abstract table content, orientation); every generated table is non-trivial: it has >= 1 input, "
        ">= 1 output, >= 1 rule and is drawn in both orientations with its own random layout. Corruptions and arbitrary texts are "
        "counted as executions, not as distinct cases."
    )
    rep.assumptions = [
        "G-DRAW's conventions are those of the shipped examples (examples/src/examples/valid.rs); it is validated in every run by re-drawing all shipped examples the recognizer accepts and requiring identical recognition",
        "cell texts are compared in whitespace-normal form (lines trimmed and joined by one blank); a blank output label cell of a single-output table equals 'no label'",
        "the XML twin is loaded by dmntk_model::parse + ModelEvaluator::new and is the reference for evaluation; where the twin itself is rejected or panics the comparison is undecided",
        "the Python reading of unary tests is used only to steer input tuples to no/one/several matching rules, never for a verdict",
    ]
    for variant in ("dbg", "rel"):
        runner.build(variant)
    asan_ok = True
    try:
        runner.build("asan")
    except runner.Inconclusive as e:
        asan_ok = False
        rep.extra["asan_slice"] = {"status": "inconclusive", "reason": str(e)[-400:]}
    workroot = os.path.join(rep.workdir, "units")
    shutil.rmtree(workroot, ignore_errors=True)
    os.makedirs(workroot)
    units = []
    n_chunks = (cfg["tables"] + cfg["chunk"] - 1) // cfg["chunk"]
    for c in range(n_chunks):
        first = c * cfg["chunk"]
        n = min(cfg["chunk"], cfg["tables"] - first)
        units.append((chunk_unit, (seed, tier, c, first, n, workroot, asan_ok and c % 10 == 0)))
    units.append((shipped_unit, (seed, tier, workroot)))
    units.append((arbitrary_unit, (seed, tier, workroot, asan_ok, ("enum",))))
    for k in range(cfg["exhaustive_drawings"]):
        units.append((arbitrary_unit, (seed, tier, workroot, asan_ok and k % 4 == 0, ("positions", k))))
    for k in range(cfg["random_texts"] // RANDOM_TEXTS_PER_PART):
        units.append((arbitrary_unit, (seed, tier, workroot, asan_ok and k % 10 == 0, ("random", k))))
    if tier == "thorough":
        path = _libfuzzer_texts(rep, seed, workroot)
        if path:
            units.append((arbitrary_unit, (seed, tier, workroot, asan_ok, ("file", path))))
    ctx = multiprocessing.get_context("fork")
    with ctx.Pool(processes=runner.NCPU) as pool:
        handles = [pool.apply_async(f, (a,)) for f, a in units]
        accs = [h.get() for h in handles]
    counters = {}
    for acc in accs:
        rep.count(acc.count)
        rep.undecided += acc.undecided
        for key in acc.distinct:
            rep.seen(key)
        for k, v in acc.counters.items():
            counters[k] = counters.get(k, 0) + v
        for sig, what, replay, count in acc.violations:
            for _ in range(count):
                rep.violation(sig, what, replay)
        for s in acc.samples:
            rep.sample(s, limit=4)
        for r in acc.inconclusive:
            rep.inconclusive_reason(r)

    def group(prefix):
        return {k[len(prefix) :]: v for k, v in sorted(counters.items()) if k.startswith(prefix)}

    combos = group("combo:")
    rep.extra["drawings"] = counters.get("drawings", 0)
    rep.extra["drawings_recognised_as_drawn"] = counters.get("recognised_as_drawn", 0)
    rep.extra["drawings_with_merged_entries"] = counters.get("drawings_with_merged_entries", 0)
    rep.extra["drawings_with_multiline_cells"] = counters.get("drawings_with_multiline_cells", 0)
    rep.extra["drawings_with_crlf_line_ends"] = counters.get("drawings_with_crlf", 0)
    rep.extra["tables_with_blank_runs_inside_string_literals"] = counters.get("tables_with_blank_runs_inside_string_literals", 0)
    rep.extra["drawings_by_widest_cell"] = group("widest_cell:")
    rep.extra["orientations"] = group("orientation:")
    rep.extra["hit_policy_markers_by_orientation"] = group("marker:")
    rep.extra["optional_part_combinations_covered"] = len(combos)
    rep.extra["optional_part_combinations_possible"] = 2 * 2 * 2 * 2 * 3 * 3 * 2
    rep.extra["optional_part_combinations"] = combos if len(combos) <= 600 else "too many to list"
    rep.extra["tables_by_inputs"] = group("shape:in")
    rep.extra["tables_by_rules"] = group("shape:rules")
    rep.extra["shipped_examples_recognised"] = counters.get("shipped_examples_recognised", 0)
    rep.extra["shipped_redrawings"] = counters.get("shipped_redrawings", 0)
    rep.extra["shipped_redrawings_recognised_identically"] = counters.get("shipped_redrawings_recognised_identically", 0)
    rep.extra["evaluation_comparisons"] = counters.get("evaluation_comparisons", 0)
    rep.extra["evaluations_non_null"] = counters.get("evaluations_non_null", 0)
    rep.extra["evaluation_tuples"] = {k: counters.get("tuples_matching_" + k, 0) for k in ("no_rule", "one_rule", "several_rules")}
    rep.extra["evaluation_undecided"] = {k: v for k, v in counters.items() if k.startswith("eval_")}
    rep.extra["corruptions_by_build"] = group("corruptions:")
    rep.extra["corruptions_by_kind"] = group("corruption_kind:")
    rep.extra["corruption_outcomes"] = group("corruption_outcome:")
    rep.extra["error_classes_seen"] = group("error_class:")
    rep.extra["exhaustive_position_corruptions"] = counters.get("exhaustive_position_corruptions", 0)
    rep.extra["exhaustive_position_drawings"] = counters.get("exhaustive_position_drawings", 0)
    rep.extra["enumerated_texts"] = counters.get("enumerated_texts", 0)
    rep.extra["watchdog_stalls_not_repeated"] = counters.get("watchdog_stalls_not_repeated", 0)
    if asan_ok:
        rep.extra["asan_slice"] = {"status": "run", "recognitions": counters.get("corruptions:asan", 0)}
    # observation floors
    floor_d = 0.9 * 2 * cfg["tables"]
    if counters.get("drawings", 0) < floor_d:
        rep.inconclusive_reason("only %d drawings observed (floor %d)" % (counters.get("drawings", 0), floor_d))
    if len(group("marker:")) < 2 * len(gdraw.MARKERS):
        rep.inconclusive_reason("not every hit policy marker was drawn in both orientations")
    if counters.get("evaluation_comparisons", 0) < 2 * cfg["tables"]:
        rep.inconclusive_reason("only %d evaluation comparisons (floor %d)" % (counters.get("evaluation_comparisons", 0), 2 * cfg["tables"]))
    for cls in ("no_rule", "one_rule", "several_rules"):
        if counters.get("tuples_matching_" + cls, 0) < cfg["tables"] // 4:
            rep.inconclusive_reason("too few input tuples matching %s" % cls)
    for variant in ("dbg", "rel"):
        if counters.get("corruptions:" + variant, 0) < 0.9 * 2 * cfg["tables"] * cfg["corruptions_per_drawing"]:
            rep.inconclusive_reason("too few corruptions observed on %s" % variant)
    if counters.get("shipped_redrawings_recognised_identically", 0) < 100 and not rep.violations:
        rep.inconclusive_reason("renderer self-validation on shipped examples observed too little")
    if rep.undecided > 0.05 * max(1, counters.get("evaluation_comparisons", 0)):
        rep.inconclusive_reason("too many undecided evaluation comparisons (%d)" % rep.undecided)
    if not rep.inconclusive:
        shutil.rmtree(workroot, ignore_errors=True)


def _libfuzzer_texts(rep, seed, workroot):
    """coverage-guided generation (libFuzzer on the ASan build of harness/fuzz, target fuzz_table) seeded with the shipped and
    with generated drawings: crash artifacts and the final corpus become one more family of arbitrary texts for the no-panic
    clause; the verdict on each is the driver's (dbg, rel, asan)"""
    import fuzzing

    rng = rng_for(seed, "c19-libfuzzer")
    seeds = [text.encode("utf-8") for _, text in shipped_examples()]
    for k in range(200):
        t = gdraw.random_table(rng, shape={"n": rng.randint(1, 3), "ni": rng.randint(1, 3)})
        seeds.append(gdraw.draw(t, rng.choice(["row", "col"]), rng)[0].encode("utf-8"))
    try:
        crashes, stats = fuzzing.run("fuzz_table", seeds, fuzzing.SECONDS, rep.workdir, max_len=6000, seed=seed, dictionary=list(gdraw.BOX_CHARS) + ["\n", " U ", " C+ ", " P ", ">=", "<", "[1..2]", "-"], keep_corpus=20000)
    except runner.Inconclusive as ex:
        print("NOTE property=C19 libFuzzer slot skipped: %s" % str(ex)[:300])
        rep.extra["libfuzzer"] = "unavailable: " + str(ex)[:300]
        return None
    texts = []
    for blob in crashes + stats.pop("corpus"):
        try:
            texts.append(blob.decode("utf-8"))
        except UnicodeDecodeError:
            pass
    texts = sorted(set(texts))
    path = os.path.join(workroot, "libfuzzer_texts.json")
    with open(path, "w", encoding="utf-8") as fh:
        json.dump(texts, fh)
    stats["texts_replayed_in_driver"] = len(texts)
    rep.extra["libfuzzer"] = stats
    return path


def replay(rp):
    """Re-executes a recorded violation and re-applies its oracle."""
    r = rp.get("replay") or {}
    kind = r.get("kind")
    variant = r.get("variant", "dbg")
    work = os.path.join(runner.WORK, "replay")
    res, _ = runner.run_single(variant, r["case"], work, label="c19replay")
    print("signature:", rp.get("signature"))
    print("what     :", str(rp.get("what"))[:3000])
    still = False
    if kind == "recog":
        rec = (res.get("rs") or [res])[0]
        if "dt" in rec:
            diffs = gdraw.diff_fields(r["expected"], gdraw.normalise_recognised(rec["dt"]))
            print("expected :", json.dumps(r["expected"], ensure_ascii=False)[:3000])
            print("observed :", json.dumps(gdraw.normalise_recognised(rec["dt"]), ensure_ascii=False)[:3000])
            print("diffs    :", diffs[:10])
            still = bool(diffs)
        else:
            print("expected : the drawn table;  observed :", json.dumps(rec, ensure_ascii=False)[:2000])
            still = True
    elif kind == "eval":
        mres, _ = runner.run_single(variant, r["model_case"], work, label="c19replaym")
        item = (res.get("rs") or [res])[0]
        print("text side:", json.dumps(item.get("vs", item), ensure_ascii=False)[:3000])
        print("xml twin :", json.dumps(mres.get("rs", mres), ensure_ascii=False)[:3000])
        if "vs" in item and "rs" in mres:
            still = any(("v" not in a) or ("v" in b and not veq(a["v"], b["v"])) for a, b in zip(item["vs"], mres["rs"]))
        else:
            still = "rs" in mres
    else:
        rec = (res.get("rs") or [res])[0] if "rs" in res else res
        print("expected : a decision table or an error;  observed :", json.dumps(rec, ensure_ascii=False)[:3000])
        if r.get("expected") in ("ok", "err"):
            state = "ok" if "ok" in rec or "dt" in rec else "err" if "err" in rec else "bad"
            still = state != r["expected"]
        else:
            still = any(k in rec for k in ("panic", "crash", "timeout"))
    if still:
        print("VIOLATION property=C19 replay=<replayed>")
        return 1
    print("replay no longer reproduces the recorded violation")
    return 0
