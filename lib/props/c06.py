"""C06 — the parser builds the tree dictated by FEEL precedence and associativity.

Oracle: the generator's own tree. For a tree T the expected `AstNode` Debug text is computed here;
parse(full(T)) and parse(min(T)) must both give it, min(T) with one needed pair of parentheses
removed must give a different tree or a syntax error, and token-preserving layouts (blanks, tabs,
newlines, Unicode spaces, comments) must give the same tree. String escapes (\\uXXXX, \\UXXXXXX,
surrogate pairs) are swept over code-point classes and compared with the Python-computed string.
The precedence table is an independent restatement of the FEEL grammar, cross-read with feel.y:
  open-ended (if/for/some/every/function) < or < and < comparison (non-assoc) < between < in (right)
  < + - < * / < ** (left) < unary minus < instance of < filter/invocation/path (postfix, left).
"""
import json
import re

import runner
from common import chunks, crash_signature, panic_signature, rng_for, shape_decoy_scope

LEVEL = "exploration"

NAMES = ["a", "b", "c", "d", "e", "A", "D"]  # A / D: names that differ from another bound name in letter case only
FN = "f"

# precedence levels
P_OPEN, P_OR, P_AND, P_CMP, P_BETWEEN, P_IN, P_ADD, P_MUL, P_EXP, P_NEG, P_INST, P_POST, P_ATOM = 1, 3, 4, 5, 6, 8, 9, 10, 11, 12, 13, 15, 99

BIN = {
    "or": ("Or", P_OR, "L", "or"), "and": ("And", P_AND, "L", "and"),
    "=": ("Eq", P_CMP, "N", "="), "!=": ("Nq", P_CMP, "N", "!="), "<": ("Lt", P_CMP, "N", "<"), "<=": ("Le", P_CMP, "N", "<="), ">": ("Gt", P_CMP, "N", ">"), ">=": ("Ge", P_CMP, "N", ">="),
    "in": ("In", P_IN, "R", "in"),
    "+": ("Add", P_ADD, "L", "+"), "-": ("Sub", P_ADD, "L", "-"), "*": ("Mul", P_MUL, "L", "*"), "/": ("Div", P_MUL, "L", "/"), "**": ("Exp", P_EXP, "L", "**"),
}
TYPES = [("number", "FeelType(Number)"), ("string", "FeelType(String)"), ("boolean", "FeelType(Boolean)"), ("date", "FeelType(Date)"), ("Any", "FeelType(Any)"),
         ("list<number>", "ListType(FeelType(Number))"), ("range<number>", "RangeType(FeelType(Number))"), ("context<k: string>", 'ContextType([ContextTypeEntry(ContextTypeEntryKey(Name("k")), FeelType(String))])'),
         ("function<number, string>->boolean", "FunctionType(ParameterTypes([FeelType(Number), FeelType(String)]), FeelType(Boolean))"), ("list<list<string>>", "ListType(ListType(FeelType(String)))")]
NUMS = [("1", 'Numeric("1", "")'), ("42", 'Numeric("42", "")'), ("12.50", 'Numeric("12", "50")'), (".5", 'Numeric("0", "5")'), ("0.0", 'Numeric("0", "0")'), ("007", 'Numeric("007", "")'),
        ("1234567890123456789012345678901234", 'Numeric("1234567890123456789012345678901234", "")'), ("0.000001", 'Numeric("0", "000001")')]
STRS = ["", "x", "hello world", "a+b", "(", "if then else", "1 in 2", "ü", "// no comment", "/* no comment */", "p\u200bq", "\ufeffx", "a\u2060b", "t\u00a0u\u3000v"]

FORMS = ["name", "num", "str", "bool", "null", "neg", "or", "and", "=", "!=", "<", "<=", ">", ">=", "between", "in", "in_tests", "+", "-", "*", "/", "**", "instance", "path", "filter", "call", "callnamed",
         "if", "for", "forrange", "some", "every", "function", "list", "context", "range"]
OPEN_FORMS = ("if", "for", "forrange", "some", "every", "function")


def prec(t):
    k = t[0]
    if k in BIN:
        return BIN[k][1]
    if k == "between":
        return P_BETWEEN
    if k == "in_tests":
        return P_IN
    if k == "neg":
        return P_NEG
    if k == "instance":
        return P_INST
    if k in ("path", "filter", "call", "callnamed"):
        return P_POST
    if k in OPEN_FORMS:
        return P_OPEN
    return P_ATOM


def lprec(t):
    """how loosely the LEFT end of the form binds (matters when the form is a right operand)"""
    k = t[0]
    if k == "neg" or k in OPEN_FORMS:
        return P_ATOM  # starts with a prefix token: nothing to its left can be captured
    return prec(t)


def rprec(t):
    """how loosely the RIGHT end of the form binds (matters when the form is a left operand)"""
    k = t[0]
    if k in ("in_tests", "instance", "path", "filter", "call", "callnamed"):
        return P_ATOM  # ends with a closing bracket or a type: nothing to its right can be captured
    return prec(t)


def rstr(s):
    """Rust {:?} of a str restricted to the characters used in AST-shape tests (printable, no quote/backslash)"""
    return '"' + s + '"'


def dbg(t):
    k = t[0]
    if k == "name":
        return 'Name(Name("%s"))' % t[1]
    if k == "num":
        return t[2]
    if k == "str":
        return "String(%s)" % rstr(t[1])
    if k == "bool":
        return "Boolean(%s)" % ("true" if t[1] else "false")
    if k == "null":
        return "Null"
    if k == "neg":
        return "Neg(%s)" % dbg(t[1])
    if k in BIN:
        return "%s(%s, %s)" % (BIN[k][0], dbg(t[1]), dbg(t[2]))
    if k == "between":
        return "Between(%s, %s, %s)" % (dbg(t[1]), dbg(t[2]), dbg(t[3]))
    if k == "in_tests":
        return "In(%s, ExpressionList([%s]))" % (dbg(t[1]), ", ".join(dbg_test(u) for u in t[2]))
    if k == "instance":
        return "InstanceOf(%s, %s)" % (dbg(t[1]), t[2][1])
    if k == "path":
        return 'Path(%s, Name(Name("%s")))' % (dbg(t[1]), t[2])
    if k == "filter":
        return "Filter(%s, %s)" % (dbg(t[1]), dbg(t[2]))
    if k == "call":
        return "FunctionInvocation(%s, PositionalParameters([%s]))" % (dbg(t[1]), ", ".join(dbg(a) for a in t[2]))
    if k == "callnamed":
        return "FunctionInvocation(%s, NamedParameters([%s]))" % (dbg(t[1]), ", ".join('NamedParameter(ParameterName(Name("%s")), %s)' % (n, dbg(a)) for n, a in t[2]))
    if k == "if":
        return "If(%s, %s, %s)" % (dbg(t[1]), dbg(t[2]), dbg(t[3]))
    if k == "for":
        return "For(IterationContexts([%s]), EvaluatedExpression(%s))" % (", ".join('IterationContextSingle(Name(Name("%s")), %s)' % (v, dbg(d)) for v, d in t[1]), dbg(t[2]))
    if k == "forrange":
        return 'For(IterationContexts([IterationContextRange(Name(Name("%s")), %s, %s)]), EvaluatedExpression(%s))' % (t[1], dbg(t[2]), dbg(t[3]), dbg(t[4]))
    if k in ("some", "every"):
        return "%s(QuantifiedContexts([%s]), Satisfies(%s))" % ("Some" if k == "some" else "Every", ", ".join('QuantifiedContext(Name(Name("%s")), %s)' % (v, dbg(d)) for v, d in t[1]), dbg(t[2]))
    if k == "function":
        return "FunctionDefinition(FormalParameters([%s]), FunctionBody(%s, false))" % (", ".join('FormalParameter(ParameterName(Name("%s")), FeelType(Any))' % p for p in t[1]), dbg(t[2]))
    if k == "list":
        return "List([%s])" % ", ".join(dbg(x) for x in t[1])
    if k == "context":
        return "Context([%s])" % ", ".join('ContextEntry(ContextEntryKey(Name("%s")), %s)' % (n, dbg(v)) for n, v in t[1])
    if k == "range":
        return "Range(IntervalStart(%s, %s), IntervalEnd(%s, %s))" % (dbg(t[1]), "true" if t[2] else "false", dbg(t[3]), "true" if t[4] else "false")
    raise ValueError(k)


def dbg_test(u):
    if u[0] == "cmp":
        return "%s(%s)" % ({"<": "UnaryLt", "<=": "UnaryLe", ">": "UnaryGt", ">=": "UnaryGe"}[u[1]], dbg(u[2]))
    return dbg(u[1])


class R:
    """renderer producing a token list; mode 'full' or 'min'; `skip` = id of the paren site left out.
    expr() returns (tokens, ends_open, lexp, rexp): lexp / rexp = the loosest precedence exposed at the left /
    right end of the rendered text (P_ATOM when that end is closed by a bracket, a prefix token or a type)."""

    def __init__(self, mode, skip=None):
        self.mode = mode
        self.skip = skip
        self.sites = []  # (site id, strict)

    def wrap(self, r, need, strict, site):
        toks, eo, lx, rx = r
        if self.mode == "full":
            return ["("] + toks + [")"], False, P_ATOM, P_ATOM
        if need:
            self.sites.append((site, strict))
            if self.skip is not None and site == self.skip:
                return r
            return ["("] + toks + [")"], False, P_ATOM, P_ATOM
        return r

    def operand(self, t, parent_prec, side, assoc, site, follows):
        """operand of an operator of precedence parent_prec; side L/R; follows: tokens of the parent come after it"""
        r = self.expr(t)
        toks, eo, lx, rx = r
        exposed = rx if side == "L" else lx
        need = False
        if exposed < parent_prec:
            need = True
        elif exposed == parent_prec and exposed != P_ATOM:
            if assoc == "N" or (assoc == "L" and side == "R") or (assoc == "R" and side == "L"):
                need = True
        if follows and eo:
            need = True  # text ending in an open-ended form cannot be followed by more tokens of the parent
        return self.wrap(r, need, True, site)

    def delimited(self, t):
        """sub-expression in a delimited position (between brackets / keywords): never needs parentheses"""
        r = self.expr(t)
        return self.wrap(r, False, False, None)[0]

    def expr(self, t):
        k = t[0]
        sid = id(t)
        A = P_ATOM
        if k == "name":
            return [t[1]], False, A, A
        if k == "num":
            return [t[1]], False, A, A
        if k == "str":
            return ['"%s"' % t[1]], False, A, A
        if k == "bool":
            return ["true" if t[1] else "false"], False, A, A
        if k == "null":
            return ["null"], False, A, A
        if k == "neg":
            o, eo, lx, rx = self.operand(t[1], P_NEG, "R", "P", (sid, 0), False)
            return ["-"] + o, eo, A, min(P_NEG, rx)
        if k in BIN:
            _, p, assoc, sym = BIN[k]
            lhs, _, llx, _ = self.operand(t[1], p, "L", assoc, (sid, 0), True)
            rhs, eo, _, rrx = self.operand(t[2], p, "R", assoc, (sid, 1), False)
            return lhs + [sym] + rhs, eo, min(p, llx), min(p, rrx)
        if k == "between":
            x, _, xlx, _ = self.operand(t[1], P_BETWEEN, "L", "L", (sid, 0), True)
            lo = self._conservative(t[2], P_IN, True)
            hi, heo, _, hrx = self._conservative(t[3], P_IN, False)
            return x + ["between"] + lo + ["and"] + hi, heo, min(P_BETWEEN, xlx), min(P_BETWEEN, hrx)
        if k == "in_tests":
            x, _, xlx, _ = self.operand(t[1], P_IN, "L", "R", (sid, 0), True)
            tests = []
            for j, u in enumerate(t[2]):
                if j:
                    tests.append(",")
                # operands of unary tests are end points / simple values: never parenthesised
                if u[0] == "cmp":
                    tests += [u[1]] + self.expr(u[2])[0]
                else:
                    tests += self.expr(u[1])[0]
            return x + ["in", "("] + tests + [")"], False, min(P_IN, xlx), A
        if k == "instance":
            x, _, xlx, _ = self.operand(t[1], P_INST, "L", "L", (sid, 0), True)
            return x + ["instance of", t[2][0]], False, min(P_INST, xlx), A
        if k == "path":
            x, _, xlx, _ = self.operand(t[1], P_POST, "L", "L", (sid, 0), True)
            return x + [".", t[2]], False, min(P_POST, xlx), A
        if k == "filter":
            x, _, xlx, _ = self.operand(t[1], P_POST, "L", "L", (sid, 0), True)
            return x + ["["] + self.delimited(t[2]) + ["]"], False, min(P_POST, xlx), A
        if k in ("call", "callnamed"):
            x, _, xlx, _ = self.operand(t[1], P_POST, "L", "L", (sid, 0), True)
            args = []
            for j, a in enumerate(t[2]):
                if j:
                    args.append(",")
                if k == "call":
                    args += self.delimited(a)
                else:
                    args += [a[0], ":"] + self.delimited(a[1])
            return x + ["("] + args + [")"], False, min(P_POST, xlx), A
        if k == "if":
            return ["if"] + self.delimited(t[1]) + ["then"] + self.delimited(t[2]) + ["else"] + self._tail(t[3]), True, A, P_OPEN
        if k == "for":
            out = ["for"]
            for j, (v, d) in enumerate(t[1]):
                if j:
                    out.append(",")
                out += [v, "in"] + self._conservative(d, P_ADD, True)
            return out + ["return"] + self._tail(t[2]), True, A, P_OPEN
        if k == "forrange":
            return ["for", t[1], "in"] + self._conservative(t[2], P_ADD, True) + [".."] + self._conservative(t[3], P_ADD, True) + ["return"] + self._tail(t[4]), True, A, P_OPEN
        if k in ("some", "every"):
            out = [k]
            for j, (v, d) in enumerate(t[1]):
                if j:
                    out.append(",")
                out += [v, "in"] + self._conservative(d, P_ADD, True)
            return out + ["satisfies"] + self._tail(t[2]), True, A, P_OPEN
        if k == "function":
            params = []
            for j, p in enumerate(t[1]):
                if j:
                    params.append(",")
                params.append(p)
            return ["function", "("] + params + [")"] + self._tail(t[2]), True, A, P_OPEN
        if k == "list":
            out = ["["]
            for j, x in enumerate(t[1]):
                if j:
                    out.append(",")
                out += self.delimited(x)
            return out + ["]"], False, A, A
        if k == "context":
            out = ["{"]
            for j, (n, v) in enumerate(t[1]):
                if j:
                    out.append(",")
                out += [n, ":"] + self.delimited(v)
            return out + ["}"], False, A, A
        if k == "range":
            return ["[" if t[2] else "("] + self.expr(t[1])[0] + [".."] + self.expr(t[3])[0] + ["]" if t[4] else ")"], False, A, A
        raise ValueError(k)

    def _tail(self, t):
        """last sub-expression of an open-ended form: extends to the right, never needs parentheses"""
        return self.wrap(self.expr(t), False, False, None)[0]

    def _conservative(self, t, min_prec, follows):
        """operand positions whose exact grammar limits I do not restate: anything exposing a precedence looser
        than min_prec at either end (or ending open) is parenthesised; these sites are not used for the removal test"""
        r = self.expr(t)
        toks, eo, lx, rx = r
        need = min(lx, rx) < min_prec or eo or t[0] == "range"
        if self.mode == "full" or need:
            r = (["("] + toks + [")"], False, P_ATOM, P_ATOM)
        return r[0] if follows else r


def render(t, mode, skip=None):
    r = R(mode, skip)
    toks = r.expr(t)[0]
    return toks, r.sites


def join(toks, rng=None):
    if rng is None:
        out = []
        for k, tok in enumerate(toks):
            if k and not (tok in (")", "]", ",", ":", ".") or toks[k - 1] in ("(", "[", ".")):
                out.append(" ")
            elif k and tok == "." or (k and toks[k - 1] == "."):
                pass
            out.append(tok)
        return "".join(out)
    # every character of the FEEL white space class that is not ALSO a FEEL name character (U+1680, U+180E and U+FEFF are in
    # both classes of the grammar: which one wins between two words is not settled, so they are not used as sole separators)
    seps = [" ", "  ", "\t", "\n", "\r\n", " \n ", "\u00a0", "\u0085", "\u2000", "\u2003", "\u2009", "\u200a", "\u200b", "\u2028", "\u2029", "\u202f", "\u205f", "\u3000", "\u000b", "\u000c",
            "\u200b", "\u00a0", " /* c */ ", " // c\n", "\n// c\n", " /**/ ", " /* * / */ ",
            # comment bodies made of the comment delimiters' own characters
            " /*/ c */ ", " /*// c */ ", " /*/*/ ", " /***/ ", " /** c **/ ", " /* /* c */ ", " /* \" */ ", " /*\n*/ ", " // */ c\n", " // /* c\n", " //\n", " ///\n", " /* // */ "]
    out = []
    for k, tok in enumerate(toks):
        if k:
            prev = toks[k - 1]
            if tok == "." or prev == ".":
                out.append(rng.choice(["", " ", ""]))
            else:
                out.append(rng.choice(seps))
        out.append(tok)
    return rng.choice(["", " ", "\n", "/* lead */ "]) + "".join(out) + rng.choice(["", " ", "\n", " // trail", " /* trail */"])


# ------------------------------------------------------------------------------------------
# tree generation
# ------------------------------------------------------------------------------------------
def leaf(rng):
    k = rng.random()
    if k < 0.5:
        return ("name", rng.choice(NAMES))
    if k < 0.75:
        n = rng.choice(NUMS)
        return ("num", n[0], n[1])
    if k < 0.9:
        return ("str", rng.choice(STRS))
    if k < 0.96:
        return ("bool", rng.random() < 0.5)
    return ("null",)


def simple(rng):
    k = rng.random()
    if k < 0.6:
        return ("name", rng.choice(NAMES))
    n = rng.choice(NUMS[:3])
    return ("num", n[0], n[1])


def make(form, rng, sub):
    """builds a node of the given form; sub() yields child trees"""
    if form in ("name", "num", "str", "bool", "null"):
        while True:
            t = leaf(rng)
            if t[0] == form:
                return t
    if form == "neg":
        return ("neg", sub())
    if form in BIN:
        return (form, sub(), sub())
    if form == "between":
        return ("between", sub(), sub(), sub())
    if form == "in_tests":
        tests = []
        for _ in range(rng.choice([2, 2, 3])):
            if rng.random() < 0.5:
                tests.append(("cmp", rng.choice(["<", "<=", ">", ">="]), simple_num(rng)))
            else:
                tests.append(("val", rng.choice([simple_num(rng), ("str", rng.choice(STRS[:3])), ("range", simple_num(rng), rng.random() < 0.5, simple_num(rng), rng.random() < 0.5)])))
        return ("in_tests", sub(), tests)
    if form == "instance":
        return ("instance", sub(), rng.choice(TYPES))
    if form == "path":
        return ("path", sub(), rng.choice(["k", "m", "n"]))
    if form == "filter":
        return ("filter", sub(), sub())
    if form == "call":
        return ("call", sub() if rng.random() < 0.4 else ("name", FN), [sub() for _ in range(rng.choice([0, 1, 2]))])
    if form == "callnamed":
        return ("callnamed", ("name", FN), [(n, sub()) for n in ["p", "q"][: rng.choice([1, 2])]])
    if form == "if":
        return ("if", sub(), sub(), sub())
    if form == "for":
        return ("for", [(v, sub()) for v in ["i", "j"][: rng.choice([1, 1, 2])]], sub())
    if form == "forrange":
        return ("forrange", "i", sub(), sub(), sub())
    if form in ("some", "every"):
        return (form, [(v, sub()) for v in ["i", "j"][: rng.choice([1, 1, 2])]], sub())
    if form == "function":
        return ("function", ["p", "q"][: rng.choice([0, 1, 2])], sub())
    if form == "list":
        return ("list", [sub() for _ in range(rng.choice([0, 1, 2, 3]))])
    if form == "context":
        return ("context", [(n, sub()) for n in ["k", "m", "n"][: rng.choice([0, 1, 2, 3])]])
    if form == "range":
        return ("range", simple(rng), rng.random() < 0.5, simple(rng), rng.random() < 0.5)
    raise ValueError(form)


def simple_num(rng):
    n = rng.choice(NUMS[:3])
    return ("num", n[0], n[1])


def gen(rng, depth, forced=None):
    forced = list(forced or [])

    def sub():
        return gen_inner(rng, depth - 1, forced)

    form = forced.pop(0) if forced else rng.choice(FORMS)
    return make(form, rng, sub)


def gen_inner(rng, depth, forced):
    if forced:
        form = forced.pop(0)
        return make(form, rng, lambda: gen_inner(rng, depth - 1, forced))
    if depth <= 0 or rng.random() < 0.25:
        return leaf(rng)
    return make(rng.choice(FORMS), rng, lambda: gen_inner(rng, depth - 1, forced))


def forms_in(t, acc, pairs, parent=None):
    if not isinstance(t, tuple) or not t or t[0] not in FORMS:
        return
    acc.add(t[0])
    if parent:
        pairs.add((parent, t[0]))
    for x in t[1:]:
        _walk(x, acc, pairs, t[0])


def _walk(x, acc, pairs, parent):
    if isinstance(x, tuple) and x and isinstance(x[0], str) and x[0] in FORMS and not (len(x) == 2 and x[0] in ("k", "m", "n")):
        forms_in(x, acc, pairs, parent)
    elif isinstance(x, (list, tuple)):
        for y in x:
            _walk(y, acc, pairs, parent)


# known parser defects: classified by a syntactic feature of the rejected text so that the signature does
# not depend on the random tree around it
FEATURES = [
    ("bracket-before-dotted-name-of-3-segments", re.compile(r"[\(\[](\s|/\*.*?\*/|//[^\n]*\n)*[A-Za-z]\w*(\s|/\*.*?\*/)*\.(\s|/\*.*?\*/)*\w+(\s|/\*.*?\*/)*\.(\s|/\*.*?\*/)*\w+", re.S)),
    ("two-comments-in-a-row", re.compile(r"(/\*([^*]|\*(?!/))*\*/|//[^\n]*\n)\s*(/\*|//)")),
]


TOKEN_RX = re.compile(r'"(?:[^"\\]|\\.)*"|/\*.*?\*/|//[^\n]*|[A-Za-z_][A-Za-z_0-9]*|\d+(?:\.\d+)?|\.\.|\*\*|[<>!]=|\S', re.S)


def between_operand_defect(text):
    """true when the first bound of a `between` contains `and` / `between` inside brackets: the lexer turns the
    first `and` after `between` into the separator whatever its nesting"""
    toks = [t for t in TOKEN_RX.findall(text) if not (t.startswith("/*") or t.startswith("//"))]
    depth = 0
    depths = []
    for t in toks:
        if t in ")]}":
            depth -= 1
        depths.append(depth)
        if t in "([{":
            depth += 1
    for i, t in enumerate(toks):
        if t != "between":
            continue
        d = depths[i]
        for j in range(i + 1, len(toks)):
            if depths[j] < d:
                break
            if toks[j] == "and" and depths[j] == d:
                break
            if toks[j] in ("and", "between") and depths[j] > d:
                return True
    return False


QN1 = re.compile(r'QualifiedName\(\[QualifiedNameSegment\(Name\("([^"]*)"\)\)\]\)')


_FEEL_WS = re.compile("[\u0085\u00a0\u2000-\u200b\u2028\u2029\u202f\u205f\u3000\u000b\u000c]")
_DBG_ESC = re.compile(r"(?<!\\)((?:\\\\)*)\\u\{([0-9a-f]{1,6})\}")


def undebug(got):
    """Rust's Debug prints some characters of a string as \\u{..}: back to the characters themselves"""
    return _DBG_ESC.sub(lambda m: m.group(1) + chr(int(m.group(2), 16)), got)


def classify_rejected(text):
    text = _FEEL_WS.sub(" ", text)
    for name, rx in FEATURES:
        if rx.search(text):
            return name
    if between_operand_defect(text):
        return "between-first-bound-containing-and-or-between"
    return None


def run(rep, tier, seed):
    rng = rng_for(seed, "c06")
    n_random = 6000 if tier == "quick" else 400000
    per_pair = 2 if tier == "quick" else 12
    n_triples = 5000 if tier == "quick" else 60000
    rep.rule = (
        "syntax trees over %d forms: every ordered pair (outer form, inner form) forced %d times, %d forced triples, %d random trees to depth 5, a targeted family in which an iteration variable or formal parameter is spelled like a bound name that is used again next to an operator after the construct; each tree is rendered fully parenthesised, minimally "
        "parenthesised, minimally with each strictly needed pair removed (one at a time), and in 2 token-preserving layouts; leaves: bound single-word names, numbers in several spellings, strings. "
        "Plus the string-escape sweep over code-point classes. Distinct = rendered text; non-trivial = tree with at least two forms." % (len(FORMS), per_pair, n_triples, n_random)
    )
    rep.assumptions = [
        "the precedence / associativity table in this file is an independent restatement of the FEEL grammar cross-read with feel.y",
        "operand positions whose exact grammar limits are not restated (between bounds, iteration domains) are parenthesised conservatively and excluded from the removal test",
        "names are single words bound in the parsing scope (multi-word and symbol names are C10's subject)",
        "a single-segment QualifiedName node is taken as the same tree as the Name node of that name (the parser uses either for range end points)",
    ]
    # every name used by the trees is bound in the parsing scope: a..e are contexts whose entries are the path
    # segment names k, m, n (unbound names make token boundaries scope-dependent: that is C10's subject)
    inner = {"c": [["k", {"n": "1"}], ["m", {"n": "2"}], ["n", {"n": "3"}]]}
    entry = {"c": [["k", {"c": [["k", inner], ["m", inner], ["n", {"n": "5"}]]}], ["m", inner], ["n", {"n": "3"}]]}
    # b is bound to a LIST of such contexts (rows with the same entries) and the entry n of e to a list of contexts: what the
    # scope reports to the lexer for list-valued names differs from what it reports for contexts, the trees must not
    bound = {n: entry for n in NAMES}
    bound["b"] = [entry, entry]
    bound["e"] = {"c": [["k", {"c": [["k", inner], ["m", inner], ["n", {"n": "5"}]]}], ["m", [inner, inner]], ["n", [inner]]]}
    scope = [[[n, bound[n]] for n in NAMES] + [[FN, {"feel": "function(p, q) p"}]]]
    trees = []
    for outer in FORMS:
        for inner in FORMS:
            for _ in range(per_pair):
                trees.append(gen(rng, 3, [outer, inner]))
    # targeted family: qualified names of 3 and 4 segments directly after an opening bracket
    one = ("num", "1", 'Numeric("1", "")')
    for base in NAMES[:2]:
        p3 = ("path", ("path", ("name", base), "k"), "m")
        p4 = ("path", p3, "k")
        for px in (p3, p4):
            trees += [("list", [px]), ("neg", ("+", px, one)), ("*", ("+", px, one), one), ("call", ("name", FN), [("*", ("+", px, one), one)]), ("filter", ("list", [px]), ("-", px, one)),
                      ("if", ("=", ("*", ("+", px, one), one), one), px, ("list", [px, px]))]
    # targeted family: `and` / `or` / `between` INSIDE a delimited construct (context literal, list, call arguments, filter,
    # function body in a list) that is a bound of a `between` - the word `and` is the separator of the bounds only at the nesting
    # depth of its `between`; every kind of bracket counts (the random matrix meets these triples only by chance of the seed)
    nA_, nB_, nC_ = ("name", NAMES[0]), ("name", NAMES[1]), ("name", NAMES[2])
    inners = [("and", nB_, nC_), ("or", nB_, nC_), ("between", nA_, one, ("num", "2", 'Numeric("2", "")')), ("and", ("=", nB_, one), ("<", nC_, one))]
    for inner_ in inners:
        delims = [("context", [("k", inner_)]), ("context", [("k", one), ("m", inner_)]), ("list", [inner_]), ("list", [one, inner_]), ("call", ("name", FN), [inner_, one]),
                  ("callnamed", ("name", FN), [("p", inner_)]), ("filter", ("list", [one]), inner_), ("path", ("context", [("k", inner_)]), "k"), ("list", [("function", ["p"], inner_)])]
        for dl in delims:
            trees += [("between", nA_, dl, one), ("between", nA_, one, dl), ("between", dl, one, nA_), ("and", ("between", nA_, dl, one), nB_), ("list", [("between", nA_, dl, dl)])]
    # targeted family: an iteration variable / formal parameter spelled like a BOUND name, and that name next to an
    # operator right after the construct has ended (the token boundaries there depend on which names are in scope again)
    A, B, C = NAMES[0], NAMES[1], NAMES[2]
    nA, nB, nC = ("name", A), ("name", B), ("name", C)
    binders = [
        ("for", [(A, nB)], nA), ("for", [(A, nB), (C, nB)], ("+", nA, nC)), ("forrange", A, one, one, nA), ("some", [(A, nB)], ("=", nA, one)), ("every", [(A, nB)], ("=", nA, nC)),
        ("function", [A], nA), ("function", [A, C], ("-", nA, nC)),
    ]
    for bt in binders:
        for op in ("+", "-", "*", "/"):
            trees += [("list", [bt, (op, nA, nC)]), ("list", [bt, (op, nC, nA), nA]), ("context", [("k", bt), ("m", (op, nA, nC))]), ("if", ("=", nA, one), ("list", [bt]), (op, nA, nC))]
        trees += [("list", [bt, ("path", nA, "k")]), ("list", [bt, ("filter", nA, one)]), ("list", [bt, ("call", ("name", FN), [nA, nC])])]
    for _ in range(n_triples):
        trees.append(gen(rng, 4, [rng.choice(FORMS), rng.choice(FORMS), rng.choice(FORMS)]))
    for _ in range(n_random):
        trees.append(gen(rng, rng.choice([2, 3, 4, 5])))
    texts = []  # (text, kind, tree index, expected)
    forms_seen, pairs_seen = set(), set()
    for ti, t in enumerate(trees):
        forms_in(t, forms_seen, pairs_seen)
        want = dbg(t)
        full_toks, _ = render(t, "full")
        min_toks, sites = render(t, "min")
        texts.append((join(full_toks), "full", ti, want))
        texts.append((join(min_toks), "min", ti, want))
        for lay in range(2):
            texts.append((join(min_toks, rng), "layout", ti, want))
        strict = [s for s, st in sites if st]
        seen_sites = set()
        for s in strict:
            if s in seen_sites:
                continue
            seen_sites.add(s)
            toks2, _ = render(t, "min", skip=s)
            texts.append((join(toks2), "removed", ti, want))
    cases, meta = [], []
    for group in chunks(texts, 150):
        cases.append({"op": "parse", "entry": "expr", "scope": scope, "preparse_scope": shape_decoy_scope(scope), "texts": [g[0] for g in group]})
        meta.append(group)
    results, _ = runner.run_cases("dbg", cases, rep.workdir, label="parse")
    kinds = {}
    for case, group, res in zip(cases, meta, results):
        if "harness_error" in res or res.get("missing"):
            raise runner.Inconclusive("driver harness error: %s" % json.dumps(res)[:300])
        if "asts" not in res:
            rep.violation(crash_signature(res, "c06-batch"), "batch died: %s" % json.dumps(res)[:500], {"variant": "dbg", "case": case})
            continue
        if res.get("impure_parse"):
            rep.violation("impure-parse", json.dumps(res["impure_parse"])[:400], {"variant": "dbg", "case": case})
        for (text, kind, ti, want), got in zip(group, res["asts"]):
            rep.count()
            if isinstance(got, str):
                # a single-segment qualified name (produced for range end points in some contexts) denotes the same name
                got = undebug(QN1.sub(r'Name(Name("\1"))', got))
            kinds[kind] = kinds.get(kind, 0) + 1
            f1, _p = set(), set()
            forms_in(trees[ti], f1, _p)
            if len(f1) >= 2:
                rep.seen(text)
            one = {"variant": "dbg", "case": {"op": "parse", "entry": "expr", "scope": scope, "texts": [text]}, "expected": want if kind != "removed" else "anything but " + want, "observed": got}
            top = trees[ti][0]
            if isinstance(got, dict) and "panic" in got:
                rep.violation(panic_signature(got["panic"]), "panic parsing %r" % text[:300], one)
                continue
            if kind == "removed":
                if isinstance(got, str) and got == want:
                    rep.violation("removed-needed-parentheses-same-tree:%s" % top, "`%s` still parses to the tree of its parenthesised form %s" % (text[:300], want[:300]), one)
                continue
            if isinstance(got, dict):
                feat = classify_rejected(text)
                if feat:
                    rep.violation("rejected:%s" % feat, "valid text rejected (%s rendering): `%s`: %s" % (kind, text[:300], got.get("err")), one)
                else:
                    rep.violation("rejected:%s:%s" % (kind if kind != "layout" else "layout", _shape(trees[ti])), "valid text rejected (%s rendering): `%s`: %s" % (kind, text[:300], got.get("err")), one)
                continue
            if got != want:
                rep.violation("wrong-tree:%s:%s" % (kind, _shape(trees[ti])), "`%s` parsed to %s, expected %s" % (text[:300], got[:300], want[:300]), one)
            elif len(rep.samples) < 5 and kind == "min" and 20 < len(text) < 90:
                rep.sample({"text": text, "tree": want})
    rep.extra["texts_by_kind"] = kinds
    rep.extra["forms_covered"] = sorted(forms_seen)
    rep.extra["form_pairs_covered"] = len(pairs_seen)
    rep.extra["form_pairs_possible"] = len(FORMS) ** 2
    _escape_sweep(rep, tier, rng)
    _unary_tests(rep, rng)
    if rep.evaluations < 20000:
        rep.inconclusive_reason("too few parses observed: %d" % rep.evaluations)


def _shape(t):
    kids = []
    for x in t[1:]:
        if isinstance(x, tuple) and x and isinstance(x[0], str) and x[0] in FORMS:
            kids.append(x[0])
    seen = []
    for k in kids:
        if k not in seen:
            seen.append(k)
    return "%s(%s)" % (t[0], ",".join(seen[:3]))


def _escape_sweep(rep, tier, rng):
    """\\uXXXX, \\UXXXXXX and surrogate pairs over code-point classes, compared with the Python-computed string"""
    cps = set([0x20, 0x21, 0x22, 0x27, 0x5C, 0x7E, 0x7F, 0x80, 0xA0, 0xFF, 0x100, 0x7FF, 0x800, 0xFFF, 0x1000, 0xD7FF, 0xE000, 0xFFFD, 0xFFFE, 0xFFFF, 0x10000, 0x1F600, 0x10FFFF, 0x9, 0xA, 0xD, 0x1])
    step = 257 if tier == "quick" else 17
    cps |= set(range(1, 0x110000, step))
    items = []
    for cp in sorted(cps):
        if 0xD800 <= cp <= 0xDFFF:
            items.append(('"\\u%04X"' % cp, None, "lone-surrogate"))
            continue
        ch = chr(cp)
        if cp <= 0xFFFF:
            items.append(('"x\\u%04X"' % cp, "x" + ch, "u4"))
            items.append(('"\\u%04x y"' % cp, ch + " y", "u4-lower"))
        items.append(('"\\U%06X"' % cp, ch, "U6"))
        if cp >= 0x10000:
            v = cp - 0x10000
            hi, lo = 0xD800 + (v >> 10), 0xDC00 + (v & 0x3FF)
            items.append(('"\\u%04X\\u%04X"' % (hi, lo), ch, "surrogate-pair"))
    for cp in list(range(0xD800, 0xE000, 64)):
        items.append(('"\\u%04X"' % cp, None, "lone-surrogate"))
    items += [('"\\n"', "\n", "simple"), ('"\\t"', "\t", "simple"), ('"\\r"', "\r", "simple"), ('"\\\\"', "\\", "simple"), ('"\\""', '"', "simple"), ("\"\\'\"", "'", "simple"), ('"\\U110000"', None, "out-of-range"),
              ('"\\uDC00\\uD800"', None, "reversed-surrogates")]
    # every malformed neighbourhood of a surrogate: high followed by anything but a low one, a low one first (both escape spellings)
    highs, lows, others = [0xD800, 0xD83D, 0xDBFF], [0xDC00, 0xDE00, 0xDFFF], [0x41, 0xD7FF, 0xE000, 0xFFFF]
    for hi in highs:
        for nxt in highs + others:
            for fa, fb in (("\\u%04X", "\\u%04X"), ("\\u%04X", "\\U%06X"), ("\\U%06X", "\\u%04X")):
                items.append(('"' + fa % hi + fb % nxt + '"', None, "high-surrogate-not-followed-by-low"))
        items.append(('"\\u%04Xa"' % hi, None, "high-surrogate-not-followed-by-low"))
    for lo in lows:
        for nxt in highs + lows + others:
            items.append(('"\\u%04X\\u%04X"' % (lo, nxt), None, "low-surrogate-first"))
    cases, meta = [], []
    for group in chunks(items, 300):
        cases.append({"op": "evalmany", "texts": [g[0] for g in group]})
        meta.append(group)
    n = 0
    for variant in ("dbg", "rel"):
      results, _ = runner.run_cases(variant, cases, rep.workdir, label="escapes")
      for case, group, res in zip(cases, meta, results):
          if "rs" not in res:
              raise runner.Inconclusive("escape sweep batch failed: %s" % json.dumps(res)[:300])
          for (text, want, cls), r in zip(group, res["rs"]):
              rep.count()
              n += 1
              one = {"variant": variant, "case": {"op": "eval", "text": text}, "expected": want}
              if "panic" in r:
                  rep.violation(panic_signature(r["panic"]), "panic on literal %s" % text, one)
              elif want is None:
                  if "v" in r and r["v"] is not None:
                      rep.violation("escape-accepted-invalid:%s" % cls, "literal %s evaluated to %s" % (text, json.dumps(r["v"])[:80]), one)
              else:
                  got = r.get("v")
                  if not (isinstance(got, dict) and got.get("s") == want):
                      rep.violation("escape-wrong-string:%s" % cls, "literal %s gave %s, expected %r" % (text, json.dumps(r)[:120], want), one)
    rep.extra["escape_literals_checked"] = n


def _unary_tests(rep, rng):
    items = [("< 1, [1..2], \"x\"", 'ExpressionList([UnaryLt(Numeric("1", "")), Range(IntervalStart(Numeric("1", ""), true), IntervalEnd(Numeric("2", ""), true)), String("x")])'),
             ("not(1, 2)", 'NegatedList([Numeric("1", ""), Numeric("2", "")])'), ("-", "Irrelevant"), ("1", 'ExpressionList([Numeric("1", "")])'), (">= 12.50", 'ExpressionList([UnaryGe(Numeric("12", "50"))])'),
             ("(1..2)", 'ExpressionList([Range(IntervalStart(Numeric("1", ""), false), IntervalEnd(Numeric("2", ""), false))])'), ("]1..2[", 'ExpressionList([Range(IntervalStart(Numeric("1", ""), false), IntervalEnd(Numeric("2", ""), false))])'),
             ("1 + 2, 3 * 4", 'ExpressionList([Add(Numeric("1", ""), Numeric("2", "")), Mul(Numeric("3", ""), Numeric("4", ""))])'), ("not(< 1, > 2)", 'NegatedList([UnaryLt(Numeric("1", "")), UnaryGt(Numeric("2", ""))])')]
    variants = []
    for text, want in items:
        variants.append((text, want))
        toks = re.findall(r"\"[^\"]*\"|\d+\.\d+|\d+|\.\.|<=|>=|[A-Za-z]+|\S", text)
        for _ in range(4):
            variants.append((join(toks, rng), want))
    res, _ = runner.run_cases("dbg", [{"op": "parse", "entry": "unary", "texts": [v[0] for v in variants]}], rep.workdir, label="unary")
    if "asts" not in res[0]:
        raise runner.Inconclusive("unary tests batch failed: %s" % json.dumps(res[0])[:300])
    for (text, want), got in zip(variants, res[0]["asts"]):
        rep.count()
        one = {"variant": "dbg", "case": {"op": "parse", "entry": "unary", "texts": [text]}, "expected": want, "observed": got}
        if isinstance(got, dict):
            feat = classify_rejected(text)
            rep.violation("rejected:%s" % (feat or "unary-tests"), "unary tests rejected: `%s`: %s" % (text[:200], json.dumps(got)[:200]), one)
        elif got != want:
            rep.violation("wrong-tree:unary-tests", "`%s` parsed to %s expected %s" % (text[:200], got[:200], want[:200]), one)
