"""C12 — loading any model text yields a usable model or an error, never a crash (fault enumeration).

Workload: every `.dmn` file shipped under /repo/examples (found at run time) and the small generated
models of lib/xmlfault.py; for each, EVERY single structural fault at EVERY position (element: delete /
duplicate / empty / swap with next sibling / delete all same-named siblings; attribute: delete / empty /
garble; text node: empty / garbage / broken FEEL; href: retarget to a missing id, to the containing DRG
element, to every kind of element that transitively requires it, to an XML ancestor, to an element of
another kind; typeRef: missing name, another simple type, own / ancestor item definition, item definitions that reference the
owner), sampled pairs of faults, seeded character-level corruption, truncation, a few hostile documents.
Every mutated text goes through the real `dmntk_model::parse -> ModelEvaluator::new ->
evaluate_invocable(every invocable x 5 input contexts: empty, inputs, inputs+decisions+parameters, the same
with wrongly typed leaves, the same as wrongly typed scalars)` in the driver (8 MiB
stack, catch_unwind). Oracle = the channel: panic, process death (stack overflow / abort / sanitizer), confirmed
hang or a poisoned lock is a violation; errors and nulls are fine.
"""
import collections
import hashlib
import json
import math
import multiprocessing
import os
import random
import re
import shutil
import time

import runner
import xmlfault as xf
from common import crash_signature, panic_signature, rng_for

LEVEL = "fault_enumeration"

EXAMPLES_DIR = os.path.join(os.environ.get("VERIF_REPO") or "/repo", "examples")
UNIT_MAX_CASES = 260
UNIT_MAX_BYTES = 24 * 1024 * 1024
CASE_TIMEOUT = 10.0  # shard watchdog (no result for this long); a legitimate case costs milliseconds
RERUN_TIMEOUT = 300.0
SUB_BATCH = 32  # cases per driver launch; the time-out budget is consulted between launches
TIMEOUT_LIMIT = 12  # after this many first-run time-outs (all workers together) the remaining cases are skipped
TIMEOUTS = multiprocessing.get_context("fork").Value("i", 0)

# ------------------------------------------------------------------------------------------------
# models (shared with the forked workers through module globals)
# ------------------------------------------------------------------------------------------------

MODELS = []  # [(name, text)]
HOSTILE = []  # [(name, text)]
_CACHE = collections.OrderedDict()


def load_models():
    models = []
    for root, dirs, files in os.walk(EXAMPLES_DIR):
        dirs.sort()
        for f in sorted(files):
            if f.endswith(".dmn"):
                p = os.path.join(root, f)
                with open(p, encoding="utf-8", errors="replace") as fh:
                    models.append((os.path.relpath(p, EXAMPLES_DIR), fh.read()))
    n_files = len(models)
    for name, xml in xf.generated_models():
        models.append(("generated/" + name, xml))
    # wide-named twins: every name / label attribute is followed by a long run of 2-, 3- and 4-byte characters, so that whatever
    # the loader cuts, quotes or measures in BYTES (a start tag shortened for a diagnostic, a column, a prefix) falls inside a
    # character for most offsets; the fault enumeration then provokes every diagnostic on these documents as well
    gen = [m for m in models[n_files:]]
    stride = [models[k] for k in range(0, n_files, max(1, n_files // 6))][:6]
    for k, (name, xml) in enumerate(gen + stride):
        models.append(("wide/" + name, widen(xml, k)))
    return models, n_files


WIDE = "ż總😀éß中𐀀ü—ا"


def widen(xml, k):
    run = (WIDE[k % len(WIDE):] + WIDE[:k % len(WIDE)]) * 3
    pad = "x" * (k % 4)  # shifts the byte offsets of what follows by 0..3

    def sub(m):
        return m.group(1) + m.group(2) + " " + pad + run + m.group(3)

    return re.sub(r'(\s(?:name|label|outputLabel)=")([^"]*)(")', sub, xml)


def model_info(mi):
    """(doc, faults, inputs) of model mi, cached per process."""
    hit = _CACHE.get(mi)
    if hit is not None:
        _CACHE.move_to_end(mi)
        return hit
    text = MODELS[mi][1]
    doc = xf.parse(text)
    info = (doc, xf.single_faults(doc), xf.sample_inputs(doc))
    _CACHE[mi] = info
    while len(_CACHE) > 6:
        _CACHE.popitem(last=False)
    return info


# ------------------------------------------------------------------------------------------------
# items: compact, picklable descriptions of one mutated text
#   ("o", mi)                 original text
#   ("s", mi, fi)             single fault fi of model mi
#   ("p", mi, fi, fj)         pair of (disjoint) faults
#   ("c", mi, kind, subseed)  seeded character-level corruption
#   ("t", mi, pos)            truncation at character pos
#   ("h", hi)                 hostile document hi
# ------------------------------------------------------------------------------------------------


def item_text(item):
    """-> (xml text, inputs, fault class (kind, ekind), signature class)"""
    tag = item[0]
    if tag == "h":
        name, text = HOSTILE[item[1]]
        kind = name.rstrip("0123456789").rstrip("-")
        return text, [[]], ("hostile", kind), "hostile:" + kind
    mi = item[1]
    text = MODELS[mi][1]
    doc, faults, inputs = model_info(mi)
    if tag == "o":
        return text, inputs, ("original", "-"), "original"
    if tag == "s":
        f = faults[item[2]]
        return xf.apply(text, f.edits), inputs, f.cls(), f.sclass
    if tag == "p":
        f1, f2 = faults[item[2]], faults[item[3]]
        a, b = sorted([f1.sclass, f2.sclass])
        return xf.apply(text, f1.edits + f2.edits), inputs, ("pair", "%s+%s" % tuple(sorted([f1.kind, f2.kind]))), "pair(%s+%s)" % (a, b)
    if tag == "c":
        return xf.corrupt(text, item[2], random.Random(item[3])), inputs, ("text", item[2]), "text:" + item[2]
    if tag == "t":
        return text[: item[2]], inputs, ("text", "truncate-every-k"), "text:truncate"
    raise ValueError(item)


def item_size(item):
    if item[0] == "h":
        return len(HOSTILE[item[1]][1])
    return len(MODELS[item[1]][1])


def describe(item):
    tag = item[0]
    if tag == "h":
        return "hostile document %s" % HOSTILE[item[1]][0]
    name = MODELS[item[1]][0]
    if tag == "o":
        return "unmodified %s" % name
    if tag in ("s", "p"):
        _, faults, _ = model_info(item[1])
        parts = []
        for fi in item[2:]:
            f = faults[fi]
            parts.append("%s of %s at offset %d%s" % (f.kind, f.ekind, f.lo, (" (" + f.note + ")") if f.note else ""))
        return "%s: %s" % (name, " AND ".join(parts))
    if tag == "c":
        return "%s: %s (corruption seed %d)" % (name, item[2], item[3])
    return "%s: truncated at character %d" % (name, item[2])


# ------------------------------------------------------------------------------------------------
# oracle over one driver record
# ------------------------------------------------------------------------------------------------


_SRC = {}


def src_slug(loc):
    """`src=<6 hex>`: hash of the (white-space free) source line the panic location names, read from the tree the
    driver was built from. Separates two panic sites inside one function without depending on line numbers."""
    m = re.match(r"^(.*):(\d+)$", loc or "")
    if not m:
        return "src=unknown"
    path, line = m.group(1), int(m.group(2))
    lines = _SRC.get(path)
    if lines is None:
        try:
            with open(path, encoding="utf-8", errors="replace") as f:
                lines = f.read().split("\n")
        except OSError:
            lines = []
        _SRC[path] = lines
    if not (1 <= line <= len(lines)):
        return "src=unknown"
    return "src=" + hashlib.sha1("".join(lines[line - 1].split()).encode()).hexdigest()[:6]


def norm_panic(p):
    """Panic record with a build-independent `frame`: the first frame that is a dmntk function (generic std
    frames such as `<usize as SliceIndex<[dmntk_model::..]>>::index`, which only the non-inlined builds show,
    are skipped; nightly's `<Type>::method` / `{closure#0}` spelling is folded into stable's)."""
    if not isinstance(p, dict):
        return p
    chosen = None
    for f in [p.get("frame") or ""] + list(p.get("frames") or []):
        f = re.sub(r"::\{closure#\d+\}", "", f)
        f = re.sub(r"::\{\{closure\}\}", "", f)
        m = re.match(r"^<(dmntk_[\w:]+)>(::[\w:]+)$", f)
        if m:
            f = m.group(1) + m.group(2)
        if re.match(r"^dmntk_[\w:]+$", f):
            chosen = f
            break
    q = dict(p)
    # message class: quoted payloads and digits folded (as panic_signature does), then cut short so that an
    # unquoted payload at the end of a message (a name, an error text) does not split one defect into many
    msg = p.get("msg", "")
    msg = re.sub(r"'[^']*'", "'_'", msg)
    msg = re.sub(r'"[^"]*"', '"_"', msg)
    msg = re.sub(r"\d+", "N", msg)
    q["msg"] = msg[:32]
    if chosen is not None:
        q["frame"] = chosen
    else:
        q["frame"] = re.sub(r":\d+$", "", p.get("loc") or "?")
    q["frame"] += "!" + src_slug(p.get("loc"))
    return q


def stack_overflow(stderr):
    return "has overflowed its stack" in stderr or "stack overflow" in stderr or "stack-overflow" in stderr


def crash_sig(rec, sclass):
    stderr = (rec.get("crash") or {}).get("stderr", "")
    if stack_overflow(stderr):
        return "abort:stack-overflow:%s" % sclass
    return crash_signature(rec, sclass)


# (the XML reader accepts a document that ends inside an element, so the closing tag may be missing)
_BKM_RX = re.compile(r"<businessKnowledgeModel\b[^>]*\bname=\"([^\"]+)\"(.*?)(?:</businessKnowledgeModel>|\Z)", re.S)


def self_invoking_knowledge_model(xml):
    """name of a knowledge model whose own logic invokes it by name (recursion written in the model, not a requirement cycle)"""
    for m in _BKM_RX.finditer(xml or ""):
        name, body = m.group(1), m.group(2)
        # the name the logic sees is the one of the knowledge model's variable (a fault may have changed one of the two)
        names = [name] + re.findall(r"<variable\b[^>]*\bname=\"([^\"]+)\"", body)
        for n in names:
            if re.search(r"<text>[^<]*(?<![\w])%s\s*\(" % re.escape(n), body):
                return n
    return None


def judge(rec, sclass, xml=None):
    """-> (outcome label, [(signature, what)], timed_out, n_calls, n_null)"""
    if xml is not None and "crash" in (rec or {}) and stack_overflow((rec.get("crash") or {}).get("stderr", "")) and self_invoking_knowledge_model(xml):
        # the recursion is written in the model's own logic: one root cause whatever fault exposed it
        sclass = "logic-recursion:self-invoking-knowledge-model"
    if rec is None or "harness_error" in rec or rec.get("missing"):
        raise runner.Inconclusive("driver reported a harness error: %s" % json.dumps(rec)[:300])
    if rec.get("skipped"):
        return "skipped-after-timeouts", [], False, 0, 0
    if "timeout" in rec:
        return "timeout", [], True, 0, 0
    if "crash" in rec:
        c = rec["crash"]
        tail = " ".join(c.get("stderr", "").split())[-300:]
        return "crash", [(crash_sig(rec, sclass), "process died (%s, rc=%s): %s" % (c.get("signal"), c.get("returncode"), tail))], False, 0, 0
    if "panic" in rec:
        p = rec["panic"]
        return "panic-" + str(rec.get("stage")), [(panic_signature(norm_panic(p)), "panic during %s: %s at %s" % (rec.get("stage"), p.get("msg"), p.get("loc")))], False, 0, 0
    if "parse_err" in rec:
        return "parse_err", [], False, 0, 0
    if "build_err" in rec:
        return "build_err", [], False, 0, 0
    if "rs" not in rec:
        raise runner.Inconclusive("unexpected driver record: %s" % json.dumps(rec)[:300])
    bad = []
    n_null = 0
    for r in rec["rs"]:
        if "panic" in r:
            p = r["panic"]
            bad.append((panic_signature(norm_panic(p)), "panic evaluating invocable %r with input #%s: %s at %s" % (r.get("name"), r.get("k"), p.get("msg"), p.get("loc"))))
        elif r.get("v") is None:
            n_null += 1
    if rec.get("poisoned"):
        bad.append(("poisoned-lock:after-evaluation", "a lock of the model evaluator is poisoned after the calls"))
    label = "evaluated" if rec["rs"] else "built-no-invocables"
    if bad:
        label = "panic-evaluate"
    return label, bad, False, len(rec["rs"]), n_null


# ------------------------------------------------------------------------------------------------
# worker: one unit = (unit id, variant, [items], case_timeout)
# ------------------------------------------------------------------------------------------------


def run_unit(unit):
    uid, variant, items, workdir, timeout, inherit = unit
    try:
        cases = []
        info = []
        hashes = []
        for it in items:
            text, inputs, cls, sclass = item_text(it)
            if it[0] not in ("o", "h") and it[1] in inherit:
                # the unmodified model already kills the process: a mutant's death says nothing about the fault
                sclass = "original"
            cases.append({"op": "model", "xml": text, "all": True, "inputs": inputs})
            info.append((cls, sclass))
            hashes.append(hashlib.blake2b(text.encode("utf-8", "surrogatepass"), digest_size=8).digest())
        label = "u%06d" % uid
        results = []
        launches = 0
        san = []
        for off in range(0, len(cases), SUB_BATCH):
            if timeout < RERUN_TIMEOUT and TIMEOUTS.value >= TIMEOUT_LIMIT:
                results.extend({"skipped": True} for _ in range(len(cases) - off))
                break
            rs, meta = runner.run_cases(variant, cases[off : off + SUB_BATCH], workdir, label=label, nshards=1, case_timeout=timeout)
            results.extend(rs)
            launches += meta.get("launches", 0)
            san.extend(meta.get("sanitizer_reports", []))
            nt = sum(1 for r in rs if r is not None and "timeout" in r)
            if nt and timeout < RERUN_TIMEOUT:
                with TIMEOUTS.get_lock():
                    TIMEOUTS.value += nt
            d = meta.get("dir")
            if d and os.path.isdir(d):
                shutil.rmtree(d, ignore_errors=True)
        out = {
            "uid": uid,
            "variant": variant,
            "n": len(items),
            "outcomes": collections.Counter(),
            "calls": 0,
            "nulls": 0,
            "viol": {},  # sig -> [count, what, item, size, Counter(sclass)]
            "timeouts": [],
            "crashed": [],  # items whose process died (for pair attribution)
            "hashes": hashes,
            "launches": launches,
            "sanitizer_reports": [x[-1500:] for x in san][:3],
        }
        for it, (cls, sclass), rec, case in zip(items, info, results, cases):
            label_, bad, timed_out, n_calls, n_null = judge(rec, sclass, case.get("xml"))
            out["outcomes"][label_] += 1
            out["calls"] += n_calls
            out["nulls"] += n_null
            if timed_out:
                out["timeouts"].append(it)
            if label_ == "crash":
                out["crashed"].append((it, bad[0][0], bad[0][1], len(case["xml"])))
                if it[0] == "p":
                    continue  # resolved by the parent: is one of the two faults enough on its own?
            for sig, what in bad:
                v = out["viol"].get(sig)
                if v is None:
                    out["viol"][sig] = [1, what, it, len(case["xml"]), collections.Counter([sclass])]
                else:
                    v[0] += 1
                    v[4][sclass] += 1
                    if len(case["xml"]) < v[3]:
                        v[1], v[2], v[3] = what, it, len(case["xml"])
        return out
    except runner.Inconclusive as e:
        return {"uid": uid, "inconclusive": str(e)}
    except Exception as e:  # harness failure, never a verdict
        import traceback

        return {"uid": uid, "inconclusive": "worker exception: %r %s" % (e, traceback.format_exc()[-800:])}


BASE_CRASHED = {}  # variant -> frozenset of model indices whose unmodified text kills the process


def make_units(variant, items, workdir, timeout, uid0):
    """Groups items (kept in order, so that one model's faults stay together) into units bounded by count and bytes."""
    units = []
    cur = []
    size = 0
    for it in items:
        s = item_size(it) + 200
        if cur and (len(cur) >= UNIT_MAX_CASES or size + s > UNIT_MAX_BYTES):
            units.append(cur)
            cur, size = [], 0
        cur.append(it)
        size += s
    if cur:
        units.append(cur)
    # big units first: no long tail at the end of the pool
    units.sort(key=lambda u: -sum(item_size(i) for i in u))
    return [(uid0 + k, variant, u, workdir, timeout, BASE_CRASHED.get(variant, frozenset())) for k, u in enumerate(units)]


class Pass(object):
    """Aggregated result of one pass (a list of items on one variant)."""

    def __init__(self, name, variant):
        self.name = name
        self.variant = variant
        self.n = 0
        self.outcomes = collections.Counter()
        self.calls = 0
        self.nulls = 0
        self.viol = {}
        self.timeouts = []
        self.crashed = []
        self.hashes = set()
        self.launches = 0
        self.sanitizer_reports = []
        self.wall = 0.0


_UID = [0]


def run_pass(pool, rep, name, variant, items, timeout=CASE_TIMEOUT):
    ps = Pass(name, variant)
    if not items:
        return ps
    t0 = time.time()
    units = make_units(variant, items, rep.workdir, timeout, _UID[0])
    _UID[0] += len(units)
    for out in pool.imap_unordered(run_unit, units, 1):
        if "inconclusive" in out:
            raise runner.Inconclusive(out["inconclusive"])
        ps.n += out["n"]
        ps.outcomes.update(out["outcomes"])
        ps.calls += out["calls"]
        ps.nulls += out["nulls"]
        ps.timeouts.extend(out["timeouts"])
        ps.crashed.extend(out["crashed"])
        ps.hashes.update(out["hashes"])
        ps.launches += out["launches"]
        ps.sanitizer_reports.extend(out["sanitizer_reports"])
        if name == "originals+hostile":
            for it, _sig, _what, _size in out["crashed"]:
                if it[0] == "o":
                    BASE_CRASHED[variant] = BASE_CRASHED.get(variant, frozenset()) | frozenset([it[1]])
        for sig, v in out["viol"].items():
            w = ps.viol.get(sig)
            if w is None:
                ps.viol[sig] = v
            else:
                w[0] += v[0]
                w[4].update(v[4])
                if v[3] < w[3]:
                    w[1], w[2], w[3] = v[1], v[2], v[3]
    ps.wall = round(time.time() - t0, 1)
    return ps


# ------------------------------------------------------------------------------------------------
# plan
# ------------------------------------------------------------------------------------------------


def class_table():
    """{(kind, ekind): [(mi, fi), ...]} over all models, in model order."""
    table = collections.OrderedDict()
    per_model = []
    for mi in range(len(MODELS)):
        _, faults, _ = model_info(mi)
        per_model.append(len(faults))
        for fi, f in enumerate(faults):
            table.setdefault(f.cls(), []).append((mi, fi))
    return table, per_model


def stride_sample(table, total, seed, salt):
    """Per class: min(n, q) positions at equal stride with a seed-rotated offset; q such that the sum is about `total`."""
    sizes = sorted(len(v) for v in table.values())
    lo, hi = 1, max(sizes)
    while lo < hi:  # smallest q whose sample reaches `total`
        q = (lo + hi) // 2
        if sum(min(n, q) for n in sizes) >= total:
            hi = q
        else:
            lo = q + 1
    q = lo
    rng = rng_for(seed, "c12-stride", salt)
    out = []
    for cls, members in table.items():
        n = len(members)
        if n <= q:
            out.extend(members)
            continue
        off = rng.randrange(n)
        step = n / float(q)
        out.extend(members[(off + int(j * step)) % n] for j in range(q))
    out = sorted(set(out))
    return out, q


def sample_pairs(per_model, seed, fraction, cap):
    """Per model: ceil(fraction * possible pairs) capped at `cap` disjoint pairs; half of them between faults
    whose positions are close (same region of the document), where faults interact."""
    items = []
    possible = 0
    full = 0
    for mi, n in enumerate(per_model):
        if n < 2:
            continue
        _, faults, _ = model_info(mi)
        total = n * (n - 1) // 2
        possible += total
        want = int(math.ceil(fraction * total))
        if want <= cap:
            full += 1
        want = min(want, cap)
        rng = rng_for(seed, "c12-pairs", mi)
        seen = set()
        tries = 0
        while len(seen) < want and tries < want * 20:
            tries += 1
            i = rng.randrange(n)
            if rng.random() < 0.5:
                j = min(n - 1, max(0, i + rng.randint(-60, 60)))
            else:
                j = rng.randrange(n)
            if i == j:
                continue
            a, b = min(i, j), max(i, j)
            if (a, b) in seen or not xf.disjoint(faults[a], faults[b]):
                continue
            seen.add((a, b))
        items.extend(("p", mi, a, b) for a, b in sorted(seen))
    return items, possible, full


def designed_pairs(per_model, cap):
    """Pairs that are built on purpose rather than drawn: the id of a DRG element and an href inside the same
    element both emptied / both garbled, which makes the element reference itself although neither fault does
    so alone. At most `cap` per model and kind."""
    items = []
    for mi, n in enumerate(per_model):
        _, faults, _ = model_info(mi)
        for kind in ("attr-empty", "attr-garble"):
            ids = [(fi, f) for fi, f in enumerate(faults) if f.kind == kind and f.ekind.startswith("definitions/") and f.ekind.endswith("@id")]
            hrefs = [(fi, f) for fi, f in enumerate(faults) if f.kind == kind and f.ekind.endswith("@href")]
            got = 0
            for k, (fi, f) in enumerate(ids):
                # the first href after the id in document order lies inside the same DRG element (if it has one)
                nxt = [(fj, g) for fj, g in hrefs if g.lo > f.hi]
                if not nxt or got >= cap:
                    continue
                fj, g = nxt[0]
                if k + 1 < len(ids) and g.lo > ids[k + 1][1].lo:
                    continue  # that href belongs to a later element
                items.append(("p", mi, fi, fj))
                got += 1
    return items


def sample_corruptions(seed, per_model_random, trunc_points):
    items = []
    for mi, (name, text) in enumerate(MODELS):
        rng = rng_for(seed, "c12-corrupt", mi)
        for k in range(per_model_random):
            items.append(("c", mi, xf.CORRUPTION_KINDS[k % len(xf.CORRUPTION_KINDS)], rng.randrange(1 << 48)))
        if trunc_points:
            step = max(1, len(text) // trunc_points)
            off = rng.randrange(step)
            items.extend(("t", mi, p) for p in range(off, len(text), step))
    return items


# ------------------------------------------------------------------------------------------------
# run
# ------------------------------------------------------------------------------------------------


def run(rep, tier, seed):
    global MODELS, HOSTILE
    rep.rule = (
        "a case is one mutated model text pushed through parse -> ModelEvaluator::new -> evaluate_invocable(every invocable x 5 "
        "input contexts: empty, conforming inputs, + decision/parameter names, wrongly typed leaves, wrongly typed scalars); distinct non-trivial key = (fault kind, element kind [parent/element@attribute]) of the injected fault; "
        "distinct mutated texts are counted separately (distinct_mutated_texts)"
    )
    rep.assumptions = [
        "the channel is the oracle: a result record (value, null, parse error, build error) is fine whatever it says; only panic, process death, confirmed hang or lock poisoning refute",
        "the driver runs every case on a thread with an explicit 8 MiB stack, the budget the property names",
        "a timed-out case is re-run alone with a 300 s budget; only a second failure to complete counts as a hang",
        "faults are injected by span edits on the original text with lib/xmlfault.py's tokenizer; structural faults keep the document well-formed",
    ]
    MODELS, n_files = load_models()
    HOSTILE = xf.hostile_texts()
    if n_files < 20:
        raise runner.Inconclusive("only %d .dmn files found under %s" % (n_files, EXAMPLES_DIR))
    variants = ["dbg", "rel"] + (["asan"] if tier == "thorough" else [])
    usable = []
    for v in variants:
        try:
            runner.build(v)
            usable.append(v)
        except runner.Inconclusive as e:
            if v == "asan":
                rep.inconclusive_reason("asan build failed, the asan slice was not run: %s" % str(e).replace("\n", " | ")[-400:])
            else:
                raise
    if tier == "thorough":
        _libfuzzer_documents(rep, seed)
    table, per_model = class_table()
    all_singles = [("s", mi, fi) for mi in range(len(MODELS)) for fi in range(per_model[mi])]
    n_single = len(all_singles)
    originals = [("o", mi) for mi in range(len(MODELS))]
    hostile = [("h", hi) for hi in range(len(HOSTILE))]

    if tier == "quick":
        picked, q = stride_sample(table, 7000, seed, "dbg")
        dbg_singles = [("s", mi, fi) for mi, fi in picked]
        picked_rel, q_rel = stride_sample(table, 1500, seed, "rel")
        rel_singles = [("s", mi, fi) for mi, fi in picked_rel]
        asan_singles = []
        pairs, pairs_possible, pairs_full = sample_pairs(per_model, seed, 0.01, 5)
        corrupt = sample_corruptions(seed, 8, 6)
    else:
        dbg_singles, q = all_singles, None
        picked_rel, q_rel = stride_sample(table, n_single // 5, seed, "rel")
        rel_singles = [("s", mi, fi) for mi, fi in picked_rel]
        picked_asan, _ = stride_sample(table, n_single // 10, seed, "asan")
        asan_singles = [("s", mi, fi) for mi, fi in picked_asan] if "asan" in usable else []
        pairs, pairs_possible, pairs_full = sample_pairs(per_model, seed, 0.01, 1200)
        corrupt = sample_corruptions(seed, 160, 200)

    designed = designed_pairs(per_model, 3 if tier == "quick" else 40)
    pairs = sorted(set(pairs) | set(designed))
    ctx = multiprocessing.get_context("fork")
    passes = []
    with ctx.Pool(runner.NCPU) as pool:
        passes.append(run_pass(pool, rep, "originals+hostile", "dbg", originals + hostile))
        passes.append(run_pass(pool, rep, "singles", "dbg", dbg_singles))
        passes.append(run_pass(pool, rep, "pairs", "dbg", pairs))
        passes.append(run_pass(pool, rep, "corruption", "dbg", corrupt))
        passes.append(run_pass(pool, rep, "originals+hostile", "rel", originals + hostile))
        passes.append(run_pass(pool, rep, "singles", "rel", rel_singles))
        passes.append(run_pass(pool, rep, "pairs", "rel", pairs[:: 4 if tier == "quick" else 10]))
        passes.append(run_pass(pool, rep, "corruption", "rel", corrupt[:: 4 if tier == "quick" else 10]))
        if asan_singles:
            # finite-depth nesting is a question about the 8 MiB budget; ASan's inflated frames would change the question
            shallow = [h for h in hostile if not HOSTILE[h[1]][0].startswith("nested-")]
            passes.append(run_pass(pool, rep, "originals+hostile", "asan", originals + shallow, timeout=90.0))
            passes.append(run_pass(pool, rep, "singles", "asan", asan_singles, timeout=90.0))
        # ---- attribution of pair crashes: is one of the two faults enough on its own? ----
        executed_single = {"dbg": set(dbg_singles), "rel": set(rel_singles)}
        resolved_pairs = []  # (variant, item, final signature, what, size)
        for ps in list(passes):
            if ps.name != "pairs" or not ps.crashed:
                continue
            solo = set(c[0] for q_ in passes if q_.variant == ps.variant and q_.name == "singles" for c in q_.crashed)
            need = sorted(set(("s", c[0][1], fi) for c in ps.crashed for fi in c[0][2:4]) - executed_single[ps.variant])
            if need:
                sub = run_pass(pool, rep, "pair-attribution", ps.variant, need)
                passes.append(sub)
                solo |= set(c[0] for c in sub.crashed)
            for it, sig, what, size in ps.crashed:
                _, faults, _ = model_info(it[1])
                pair_class = item_text(it)[3]
                final = sig
                for fi in it[2:4]:
                    if ("s", it[1], fi) in solo and sig.endswith(pair_class):
                        final = sig[: -len(pair_class)] + faults[fi].sclass
                        break
                if final == sig and sig.endswith(pair_class):
                    # neither fault is enough on its own: name the cause the two build together
                    cause = xf.find_cycle(item_text(it)[0])
                    final = sig[: -len(pair_class)] + ("pair-only:" + cause if cause else "pair-only:no-cycle:" + pair_class)
                resolved_pairs.append((ps.variant, it, final, what, size))
        # ---- timeouts: re-run alone with the long budget (at most 2 per fault class and variant) ----
        hang_units = []
        skipped_timeouts = 0
        per_class = collections.Counter()
        for ps in passes:
            for it in ps.timeouts:
                _, _, cls, sclass = item_text(it)
                if per_class[(ps.variant, sclass)] >= 2:
                    skipped_timeouts += 1
                    continue
                per_class[(ps.variant, sclass)] += 1
                hang_units.append((ps.variant, it, sclass))
        hangs = []
        if hang_units:
            units = [(_UID[0] + k, v, [it], rep.workdir, RERUN_TIMEOUT, BASE_CRASHED.get(v, frozenset())) for k, (v, it, _) in enumerate(hang_units)]
            _UID[0] += len(units)
            outs = {o["uid"]: o for o in pool.imap_unordered(run_unit, units, 1)}
            for u, (v, it, sclass) in zip(units, hang_units):
                o = outs[u[0]]
                if "inconclusive" in o:
                    raise runner.Inconclusive(o["inconclusive"])
                if o["timeouts"]:
                    hangs.append((v, it, sclass))
                else:
                    # completed when run alone: slow, not a violation (but it may have died or panicked instead)
                    passes.append(_pass_from_unit(o, v))
        rep.undecided += skipped_timeouts
    n_skipped = sum(ps.outcomes.get("skipped-after-timeouts", 0) for ps in passes)
    if n_skipped:
        rep.undecided += n_skipped
        rep.inconclusive_reason("%d cases were not run: more than %d cases timed out in the sharded run (each is re-run alone, see hang:* signatures)" % (n_skipped, TIMEOUT_LIMIT))

    # ------------------------------------------------------------------ verdicts
    total_cases = 0
    outcomes = collections.Counter()
    per_variant = collections.Counter()
    texts = set()
    launches = 0
    sig_classes = {}
    for ps in passes:
        total_cases += ps.n
        per_variant[ps.variant] += ps.n
        for k, n in ps.outcomes.items():
            outcomes["%s:%s" % (ps.variant, k)] += n
        texts.update(ps.hashes)
        launches += ps.launches
        rep.bump("invocable_calls", ps.calls)
        rep.bump("invocable_calls_returning_null", ps.nulls)
        for sig, (count, what, it, size, by_class) in sorted(ps.viol.items()):
            text, inputs, cls, sclass = item_text(it)
            final_sig = sig
            replay = {
                "variant": ps.variant,
                "case": {"op": "model", "xml": text, "all": True, "inputs": inputs},
                "expected": "a result record: value, null, parse_err or build_err",
                "observed": what,
                "fault": describe(it),
            }
            for _ in range(count):
                rep.violation(final_sig, "%s [%s] <- %s" % (what, ps.variant, describe(it)), replay)
            sig_classes.setdefault(final_sig, collections.Counter()).update(by_class)
        for s in ps.sanitizer_reports:
            rep.violation("asan:report-without-abort", "sanitizer report on stderr: %s" % s[-600:], {"variant": ps.variant, "case": None, "observed": s})
    # crashed pairs: a pair whose crash is already produced by one of its two faults alone is that fault's finding
    best = {}
    for v, it, final, what, size in resolved_pairs:
        cur = best.get(final)
        if cur is None or size < cur[3]:
            best[final] = (v, it, what, size)
    n_by_sig = collections.Counter(r[2] for r in resolved_pairs)
    for v, it, final, what, size in resolved_pairs:
        sig_classes.setdefault(final, collections.Counter()).update(["pair"])
    for final, (bv, bit, bwhat, _) in sorted(best.items()):
        text, inputs, cls, sclass = item_text(bit)
        replay = {"variant": bv, "case": {"op": "model", "xml": text, "all": True, "inputs": inputs}, "expected": "a result record: value, null, parse_err or build_err", "observed": bwhat, "fault": describe(bit)}
        for _ in range(n_by_sig[final]):
            rep.violation(final, "%s [%s] <- %s" % (bwhat, bv, describe(bit)), replay)
    for v, it, sclass in hangs:
        text, inputs, cls, _ = item_text(it)
        rep.violation(
            "hang:%s" % sclass,
            "no result within %d s when run alone [%s] <- %s" % (RERUN_TIMEOUT, v, describe(it)),
            {"variant": v, "case": {"op": "model", "xml": text, "all": True, "inputs": inputs}, "expected": "a result record", "observed": "timeout", "fault": describe(it)},
        )
    rep.count(total_cases)
    # coverage: classes actually executed
    executed = collections.Counter()
    for it in dbg_singles:
        f = model_info(it[1])[1][it[2]]
        executed[f.cls()] += 1
    for cls in executed:
        rep.seen(cls)
    matrix = {}
    for (kind, ekind), n in sorted(executed.items()):
        matrix.setdefault(kind, {})[ekind] = n
    rep.extra["fault_matrix_dbg_singles"] = matrix
    rep.extra["fault_kinds"] = {k: sum(v.values()) for k, v in matrix.items()}
    rep.extra["classes_total"] = len(table)
    rep.extra["classes_executed"] = len(executed)
    rep.extra["single_faults_total"] = n_single
    rep.extra["single_faults_executed_dbg"] = len(dbg_singles)
    rep.extra["single_faults_executed_rel"] = len(rel_singles)
    rep.extra["single_faults_executed_asan"] = len(asan_singles)
    rep.extra["exhaustive"] = bool(tier == "thorough")
    rep.extra["stride_quota_per_class"] = {"dbg": q, "rel": q_rel}
    rep.extra["pairs_executed"] = len(pairs)
    rep.extra["pairs_designed_id_and_href"] = len(designed)
    rep.extra["pairs_possible"] = pairs_possible
    rep.extra["pairs_fraction"] = round(len(pairs) / float(max(1, pairs_possible)), 6)
    rep.extra["models_with_full_1pct_of_pairs"] = pairs_full
    rep.extra["corruptions_executed"] = len(corrupt)
    rep.extra["hostile_documents"] = len(HOSTILE)
    rep.extra["files_covered"] = n_files
    rep.extra["generated_models"] = len(MODELS) - n_files
    rep.extra["cases_per_variant"] = dict(per_variant)
    rep.extra["outcomes"] = dict(sorted(outcomes.items()))
    rep.extra["distinct_mutated_texts"] = len(texts)
    rep.extra["driver_launches"] = launches
    rep.extra["pass_wall_s_informative_only"] = ["%s/%s: %d cases %.1fs" % (ps.name, ps.variant, ps.n, ps.wall) for ps in passes]
    rep.extra["timeouts_first_run"] = sum(len(ps.timeouts) for ps in passes)
    rep.extra["timeouts_confirmed_hangs"] = len(hangs)
    rep.extra["violation_signature_by_fault_class"] = {s: dict(c.most_common(12)) for s, c in sorted(sig_classes.items())}
    for it in (dbg_singles[0], dbg_singles[len(dbg_singles) // 2], pairs[0] if pairs else None, corrupt[0] if corrupt else None):
        if it is not None:
            rep.sample({"fault": describe(it), "mutated_text_sha": hashlib.sha1(item_text(it)[0].encode("utf-8", "surrogatepass")).hexdigest()[:12]})
    # observation floors
    o_ok = outcomes.get("dbg:evaluated", 0)
    if len(executed) < len(table):
        rep.inconclusive_reason("only %d of %d fault classes were executed" % (len(executed), len(table)))
    if total_cases < (6000 if tier == "quick" else 100000):
        rep.inconclusive_reason("too few cases executed (%d)" % total_cases)
    if o_ok < total_cases // 20:
        rep.inconclusive_reason("too few mutated models reached evaluation (%d of %d): the workload does not exercise the evaluator" % (o_ok, total_cases))
    base = [ps for ps in passes if ps.name == "originals+hostile" and ps.variant == "dbg"][0]
    rep.extra["unmodified_and_hostile_outcomes_dbg"] = dict(base.outcomes)
    rep.extra["unmodified_models_that_kill_the_process"] = sorted(MODELS[mi][0] for mi in BASE_CRASHED.get("dbg", ()))
    if base.outcomes.get("evaluated", 0) < int(0.6 * len(MODELS)):
        rep.inconclusive_reason("only %d of %d unmodified models evaluate: harness problem" % (base.outcomes.get("evaluated", 0), len(MODELS)))


def _pass_from_unit(o, variant):
    ps = Pass("rerun-alone", variant)
    ps.n = o["n"]
    ps.viol = o["viol"]
    ps.outcomes = o["outcomes"]
    ps.hashes = set(o["hashes"])
    return ps


def _libfuzzer_documents(rep, seed):
    """coverage-guided generation (libFuzzer on the ASan build of harness/fuzz, target fuzz_model) seeded with the shipped
    models: crash artifacts and a part of the final corpus join the hostile documents; the verdict on each is the driver's"""
    import fuzzing

    seeds = [text.encode("utf-8") for _, text in MODELS if len(text) < 20000]
    words = ["<decision ", "<inputData ", "<businessKnowledgeModel ", "<decisionService ", "<itemDefinition ", "<itemComponent ", "<typeRef>", "</typeRef>", "href=\"#", "<requiredDecision ", "<requiredKnowledge ",
             "<requiredInput ", "<decisionTable ", "<rule>", "<inputEntry>", "<outputEntry>", "<output ", "<input ", "<context>", "<contextEntry>", "<invocation>", "<binding>", "<relation>", "<list>", "<functionDefinition>",
             "<literalExpression>", "<text>", "</text>", "isCollection=\"true\"", "hitPolicy=\"", "aggregation=\"", "<allowedValues>", "<encapsulatedLogic>", "<formalParameter ", "<variable ", "<outputDecision ", "<inputDecision ",
             "<encapsulatedDecision "]
    try:
        crashes, stats = fuzzing.run("fuzz_model", seeds, fuzzing.SECONDS, rep.workdir, max_len=20000, seed=seed, dictionary=words, keep_corpus=2500)
    except runner.Inconclusive as ex:
        print("NOTE property=C12 libFuzzer slot skipped: %s" % str(ex)[:300])
        rep.extra["libfuzzer"] = "unavailable: " + str(ex)[:300]
        return
    seen = set(seeds)
    n = 0
    for blob in crashes + stats.pop("corpus"):
        if blob in seen:
            continue
        seen.add(blob)
        try:
            HOSTILE.append(("libfuzzer-%d" % n, blob.decode("utf-8")))
            n += 1
        except UnicodeDecodeError:
            pass
    stats["documents_replayed_in_driver"] = n
    rep.extra["libfuzzer"] = stats


def replay(rp):
    """./check C12 --replay <file>: re-executes the recorded mutated model on the recorded variant."""
    r = rp.get("replay") or {}
    case = r.get("case")
    if not case:
        print("replay file carries no driver case: %s" % json.dumps(rp)[:2000])
        return 3
    variant = r.get("variant", "dbg")
    res, _ = runner.run_single(variant, case, os.path.join(runner.WORK, "replay"), label="c12replay", case_timeout=RERUN_TIMEOUT)
    sig = rp.get("signature", "")
    sclass = "replay"
    if "timeout" in res:
        label, bad = "timeout", [("hang:" + sclass, "no result within %d s" % RERUN_TIMEOUT)]
    else:
        label, bad, _, _, _ = judge(res, sclass)
    print("fault    :", r.get("fault"))
    print("expected :", r.get("expected"))
    print("recorded :", str(r.get("observed"))[:1500])
    print("observed : %s %s" % (label, json.dumps(bad)[:1500]))
    if bad:
        print("VIOLATION property=%s replay=%s" % (rp.get("property"), "<replayed>"))
        return 1
    print("replay no longer reproduces a violation")
    return 0
