"""C16 — type conformance is a preorder compatible with equivalence; coercion conforms or is null.

The monitor lives in the driver (harness/src/ops_types.rs): it builds the type universe on the real
`dmntk_feel::FeelType`, observes `is_conformant` / `is_equivalent` for EVERY ordered pair into two bit
matrices, decides the laws of the property statement over those observations (pairs directly, all
triples by bit-row inclusion), compares both relations with an independent reference written from
DMN 1.3 §10.3.2.9, and checks `coerced` / `Value::type_of` on inhabitants (directly and through FEEL
invocations `(function(x: T) x)(v)`). This module shards the work, merges the per-class counters and
turns every class key into a violation signature.
"""
import json
import os

import runner
from common import crash_signature, panic_signature, sanitize_sig

LEVEL = "exploration"

SIMPLE = 10
SIMPLE_FOR_CASE_VARIANTS = ["Any", "Null", "number", "string", "boolean"]
DEPTH1_TYPES = 1261  # 10 simple + 10 list + 10 range + 121 context + 1110 function

# laws that must have been exercised (non-vacuously) for a run to count
REQUIRED_LAWS = [
    "conf-reflexive",
    "equiv-reflexive",
    "conforms-to-Any",
    "Null-conforms",
    "equiv-symmetric",
    "equiv-implies-mutual-conformance",
    "conf-transitive",
    "equiv-transitive",
    "reference-equivalence",
    "reference-conformance",
    "covariance-list",
    "covariance-range",
    "covariance-context",
    "covariance-function-result",
    "contravariance-function-parameters",
    "equiv-differs-in-result",
    "coercion-rule",
    "result-conforms-or-null",
    "idempotent",
    "inhabitant-kept",
]


class _Tally:
    """Stands in for Report.distinct: the distinct cases are counted by the driver, not listed."""

    def __init__(self):
        self.n = 0
        self.keys = set()

    def add(self, key):
        self.keys.add(key)

    def __len__(self):
        return self.n + len(self.keys)


def _split(n, parts):
    parts = max(1, min(parts, n))
    step = (n + parts - 1) // parts
    return [(lo, min(n, lo + step)) for lo in range(0, n, step)]


class _Merge:
    def __init__(self):
        self.laws = {}
        self.viol = {}  # key -> {"n":, "ex": [], "group": label}
        self.undecided = {}
        self.num = {}

    def add_num(self, key, n):
        self.num[key] = self.num.get(key, 0) + int(n)

    def add(self, res, group):
        for k, v in (res.get("laws") or {}).items():
            self.laws[k] = self.laws.get(k, 0) + int(v)
        for src, dst in ((res.get("viol") or {}, self.viol), (res.get("undecided") or {}, self.undecided)):
            for k, v in src.items():
                e = dst.setdefault(k, {"n": 0, "ex": [], "group": group})
                if group not in e["group"].split("+"):
                    e["group"] += "+" + group
                e["n"] += int(v["n"])
                for x in v["ex"]:
                    if len(e["ex"]) < 3:
                        e["ex"].append(x)
                    elif _plain(x) and not _plain(e["ex"][0]):
                        e["ex"][0] = x  # first slot prefers an example without Null / Any (easier to read)


def _plain(ex):
    text = " ".join(str(x) for x in (ex.get("text"), ex.get("value_text"), ex.get("target_text")) if x is not None)
    return "Null" not in text and "Any" not in text and "null" not in text


def _bad_record(rep, res, case, cls):
    """harness problems -> Inconclusive; panic / crash / timeout -> violation (no observation produced)."""
    if res is None or "harness_error" in res or res.get("missing"):
        raise runner.Inconclusive("driver reported a harness error for %s: %s" % (cls, json.dumps(res)[:400]))
    if "panic" in res:
        rep.violation("%s:%s" % (panic_signature(res["panic"]), cls), "panic in %s: %s" % (cls, res["panic"].get("msg")), {"variant": "dbg", "case": case, "observed": res})
        return True
    if "crash" in res:
        rep.violation(crash_signature(res, "c16-" + cls), "driver died in %s: %s" % (cls, json.dumps(res)[:400]), {"variant": "dbg", "case": case, "observed": res})
        return True
    if "timeout" in res:
        rep.inconclusive_reason("watchdog fired in %s (case %s)" % (cls, json.dumps(case)[:200]))
        return True
    return False


def _report(rep, merged, variant):
    for key, v in sorted(merged.viol.items()):
        ex = v["ex"][0] if v["ex"] else {}
        if "types" in ex:
            case = {"op": "types", "mode": "probe", "types": ex["types"]}
            what = "%s — e.g. %s: %s [%d occurrence(s), %s]" % (key, " | ".join(ex.get("text", [])), ex.get("what", ""), v["n"], v["group"])
        elif "target" in ex:
            case = {"op": "coerce", "mode": "probe", "value": ex.get("value"), "target": ex.get("target")}
            feel = (ex.get("value") or {}).get("feel")
            what = "%s — e.g. %scoercing %s (type %s) to %s gave %s, expected %s [%d occurrence(s), %s]" % (
                key,
                ("`%s`: " % feel) if feel else "",
                ex.get("value_text"),
                ex.get("value_type"),
                ex.get("target_text"),
                ex.get("observed", ex.get("panic")),
                ex.get("expected"),
                v["n"],
                v["group"],
            )
        else:
            case = None
            what = "%s — %s [%d occurrence(s), %s]" % (key, json.dumps(ex)[:300], v["n"], v["group"])
        rep.violation(key, what, {"variant": variant, "case": case, "expected": ex.get("expected") or ex.get("what"), "observed": ex, "examples": v["ex"]})
        s = sanitize_sig(key)
        if s in rep.violations and v["n"] > 1:
            rep.violations[s]["count"] += v["n"] - 1
    for key, v in sorted(merged.undecided.items()):
        rep.undecided += v["n"]
        rep.extra.setdefault("undecided_classes", {})[key] = {"count": v["n"], "example": v["ex"][:1]}


def run(rep, tier, seed):
    thorough = tier == "thorough"
    rep.distinct = _Tally()
    rep.rule = (
        "a case is an ordered pair (T, S) of types of one universe observed by real calls of is_conformant and is_equivalent, a triple "
        "(A, B, C) decided over those observations, or a (value, target type) coercion; distinct = counted per universe by the driver; "
        "non-trivial = T and S are different types (pairs), A<:B and B<:C both observed true (triples), any coercion. "
        "Universe: 10 simple types; list, range, context with 0..2 entries over {a, b}, function with 0..2 parameters; depth 1 "
        "exhaustively (1261 types, every ordered pair, every triple); depth 2 by seeded families of mutated types (each family set walked "
        "exhaustively)%s." % ("; depth 2 exhaustively over reduced bases" if thorough else "")
    )
    rep.assumptions = [
        "is_conformant / is_equivalent are functions of their arguments (checked: sampled direct re-calls must repeat the matrix entry)",
        "the reference relation is DMN 1.3 §10.3.2.9.1/.2 as restated by the property; the one DMN rule the statement does not spell out "
        "(a context type with extra entries conforms to one with fewer) is never a violation when the code rejects it (class 'context-width', undecided)",
        "Value::type_of of heterogeneous lists / ranges (list<Any>, range<Any>) is taken as given; inhabitants are checked to have a type_of conforming to the type they were built for",
        "the coercion rule is decided with the implementation's own is_conformant (itself compared with the reference pair by pair)",
        "when both a singleton wrap and an unwrap conform, either result is accepted (undecided class)",
    ]
    cases = []
    tags = []

    def add(tag, case):
        cases.append(case)
        tags.append(tag)

    # ---- A. depth 1, exhaustive ----
    n_direct = 5_000_000 if thorough else 256_000
    shards_a = _split(DEPTH1_TYPES, 32)
    for lo, hi in shards_a:
        add("d1", {"op": "types", "mode": "universe", "depth": 1, "rows": [lo, hi], "direct_triples": n_direct // len(shards_a), "seed": seed})
    # ---- B. depth 2, sampled family sets ----
    # entry names that differ in letter case only (a / A) next to a third name: contexts over them, alone and inside lists and
    # function types; all ordered pairs and triples of this family against the reference (which compares names as texts)
    cv = list(SIMPLE_FOR_CASE_VARIANTS)
    for n1 in ("a", "A", "b"):
        cv += [{"context": [[n1, t]]} for t in SIMPLE_FOR_CASE_VARIANTS]
    for n1, n2 in (("a", "A"), ("a", "b"), ("A", "b")):
        cv += [{"context": [[n1, t1], [n2, t2]]} for t1 in SIMPLE_FOR_CASE_VARIANTS for t2 in SIMPLE_FOR_CASE_VARIANTS[:3]]
    cv += [{"context": [["a", "number"], ["A", "string"], ["b", "boolean"]]}, {"context": [["A", "number"], ["a", "string"], ["b", "boolean"]]}]
    wrapped = [t for t in cv if isinstance(t, dict)][:30]
    cv += [{"list": t} for t in wrapped] + [{"function": [[t], "number"]} for t in wrapped[:12]] + [{"function": [[], t]} for t in wrapped[:12]]
    add("cv", {"op": "types", "mode": "probe", "types": cv, "no_matrices": True, "seed": seed})
    n_sets, set_size = (256, 900) if thorough else (96, 600)
    for k in range(n_sets):
        add("d2s", {"op": "types", "mode": "sample", "size": set_size, "seed": seed * 100003 + k, "direct_triples": 4000})
    # ---- C. coercion: values x targets by direct calls ----
    n_values = 3 * DEPTH1_TYPES + 10 + 24  # the driver reports its pool size; checked below
    for lo, hi in _split(n_values, 48):
        add("co", {"op": "coerce", "mode": "universe", "rows": [lo, hi]})
    # ---- D. coercion through FEEL invocations ----
    n_feel_values = 794
    stride = 1
    for lo, hi in _split(n_feel_values, 48):
        add("feel", {"op": "coerce", "mode": "feel", "rows": [lo, hi], "target_stride": stride, "seed": seed})
    # ---- E. thorough: depth 2 exhaustively over reduced bases ----
    reduced = []
    if thorough:
        reduced = [
            (["Any", "Null", "number", "string"], 1, 1, 16),
            (["Any", "Null", "number"], 1, 1, 32),
            (["Any", "Null"], 2, 1, 8),
            (["Null", "number"], 2, 1, 8),
            (["Any", "number"], 2, 1, 8),
            (["number", "string"], 2, 1, 8),
        ]
        for base, oe, op_, parts in reduced:
            # the driver tells the size; rows are split generously and clipped by the driver
            size = _depth2_size(len(base), oe, op_)
            for lo, hi in _split(size, parts):
                add("d2x:" + ",".join(base), {"op": "types", "mode": "universe", "depth": 2, "base": base, "outer_entries": oe, "outer_params": op_, "rows": [lo, hi], "direct_triples": 2000, "seed": seed})

    variants = ["dbg", "rel"] if thorough else ["dbg"]
    for variant in variants:
        if variant == "rel":
            sub = [(t, c) for t, c in zip(tags, cases) if t == "d1" or t == "co"]
            vtags, vcases = [t for t, _ in sub], [c for _, c in sub]
        else:
            vtags, vcases = tags, cases
        results, _ = runner.run_cases(variant, vcases, rep.workdir, label="c16", case_timeout=900.0 if thorough else 90.0)
        _digest(rep, variant, vtags, vcases, results, thorough, reduced)


def _depth2_size(b, oe, op_):
    n1 = b + 2 * b + (1 + 2 * b + b * b) + (b + b * b + b * b * b)
    ctx = 1 + (2 * n1 if oe >= 1 else 0) + (n1 * n1 if oe >= 2 else 0)
    fn = n1 + (n1 * n1 if op_ >= 1 else 0) + (n1 ** 3 if op_ >= 2 else 0)
    return b + 2 * n1 + ctx + fn


def _digest(rep, variant, tags, cases, results, thorough, reduced):
    merged = _Merge()
    groups = {}
    shape_pairs = set()
    shape_edges = set()
    sampled_types_shown = False
    for tag, case, res in zip(tags, cases, results):
        if _bad_record(rep, res, case, tag.split(":")[0]):
            continue
        g = groups.setdefault(tag, {"cases": 0})
        g["cases"] += 1
        merged.add(res, "%s/%s" % (tag, variant))
        rep.count(int(res.get("calls", 0)))
        if tag == "cv" and int(res.get("lost_context_entries", 0)):
            rep.violation("context-type-loses-entries-whose-names-differ", "%d entries were lost while building context types from pairwise different entry names (a / A / b): the ordering of names disagrees with their equality" % int(res["lost_context_entries"]), {"variant": variant, "case": case})
        if tag == "d1" or tag == "d2s" or tag.startswith("d2x") or tag == "cv":
            n = int(res["n_types"])
            lo, hi = res["rows"]
            for k in ("pairs", "triples_matrix_nonvacuous", "triples_direct", "conf_true", "equiv_true", "duplicate_calls"):
                g[k] = g.get(k, 0) + int(res[k])
            g["triples_matrix_covered"] = g.get("triples_matrix_covered", 0) + int(res["triples_matrix_covered"])
            g["n_types"] = n if tag != "d2s" else g.get("n_types", 0) + n
            g["rows_seen"] = g.get("rows_seen", 0) + (hi - lo)
            if tag == "d2s":
                g["depth2_types"] = g.get("depth2_types", 0) + int(res.get("depth2_types", 0))
                if not sampled_types_shown and variant == "dbg":
                    rep.sample({"depth-2 family set (first members after the simple types)": res.get("first_types")})
                    sampled_types_shown = True
            # distinct non-trivial pairs of this universe part
            rep.distinct.n += (hi - lo) * (n - 1) if variant == "dbg" else 0
            shape_pairs.update(res.get("shape_pairs", []))
            shape_edges.update(res.get("shape_edges_nonvacuous", []))
        else:
            for k in ("calls", "typeof_checked", "named", "positional", "n_eval_errors"):
                if k in res:
                    g[k] = g.get(k, 0) + int(res[k])
            g["values"] = g.get("values", 0) + int(res.get("n_values", 0))
            g["targets"] = int(res.get("n_targets", 0))
            g["pool"] = int(res.get("pool", 0))
            for k, v in (res.get("outcomes") or {}).items():
                g.setdefault("outcomes", {})
                g["outcomes"][k] = g["outcomes"].get(k, 0) + int(v)
            g["classes_max_per_shard"] = max(g.get("classes_max_per_shard", 0), int(res.get("classes", 0)))
            if variant == "dbg":
                rep.distinct.n += int(res.get("n_values", 0)) * int(res.get("n_targets", 0)) if tag == "co" else int(res.get("calls", 0))
            if res.get("literal_differs"):
                raise runner.Inconclusive("harness: FEEL literal and built inhabitant differ: %s" % json.dumps(res["literal_differs"])[:600])
            if res.get("n_eval_errors"):
                raise runner.Inconclusive("harness: FEEL invocation texts did not evaluate: %s" % json.dumps(res.get("eval_errors"))[:600])
    _report(rep, merged, variant)

    sfx = "" if variant == "dbg" else "_" + variant
    d1 = groups.get("d1", {})
    rep.extra["builds" + sfx] = variant
    rep.extra["laws_checked" + sfx] = merged.laws
    rep.extra["depth1" + sfx] = {
        "types": d1.get("n_types"),
        "ordered_pairs": d1.get("pairs"),
        "exhaustive": d1.get("pairs") == DEPTH1_TYPES * DEPTH1_TYPES,
        "triples_decided_over_observed_matrix": d1.get("triples_matrix_covered"),
        "triples_with_both_premises_true": d1.get("triples_matrix_nonvacuous"),
        "triples_by_direct_calls": d1.get("triples_direct"),
        "conformant_pairs": d1.get("conf_true"),
        "equivalent_pairs": d1.get("equiv_true"),
        "matrix_calls_repeated_by_other_shards_not_counted_as_evaluations": d1.get("duplicate_calls"),
    }
    if variant == "dbg":
        d2 = groups.get("d2s", {})
        rep.extra["exhaustive"] = d1.get("pairs") == DEPTH1_TYPES * DEPTH1_TYPES and d1.get("triples_matrix_covered") == DEPTH1_TYPES ** 3
        rep.extra["types"] = (d1.get("n_types") or 0) + d2.get("depth2_types", 0)
        rep.extra["pairs"] = sum(g.get("pairs", 0) for g in groups.values())
        rep.extra["triples"] = sum(g.get("triples_matrix_covered", 0) + g.get("triples_direct", 0) for g in groups.values())
        rep.extra["depth2_sampled"] = {
            "family_sets": d2.get("cases"),
            "types_in_sets": d2.get("n_types"),
            "of_depth_2": d2.get("depth2_types"),
            "ordered_pairs": d2.get("pairs"),
            "triples_decided_over_observed_matrix": d2.get("triples_matrix_covered"),
            "triples_with_both_premises_true": d2.get("triples_matrix_nonvacuous"),
            "conformant_pairs": d2.get("conf_true"),
            "exhaustive": False,
        }
        if thorough:
            rep.extra["depth2_reduced_bases"] = []
            for base, oe, op_, _parts in reduced:
                g = groups.get("d2x:" + ",".join(base), {})
                n = g.get("n_types") or 0
                rep.extra["depth2_reduced_bases"].append(
                    {
                        "base": base,
                        "outer_context_entries_max": oe,
                        "outer_function_parameters_max": op_,
                        "types": n,
                        "ordered_pairs": g.get("pairs"),
                        "triples_decided_over_observed_matrix": g.get("triples_matrix_covered"),
                        "triples_with_both_premises_true": g.get("triples_matrix_nonvacuous"),
                        "exhaustive": g.get("pairs") == n * n and n > 0,
                    }
                )
                if g.get("pairs") != n * n or n == 0:
                    rep.inconclusive_reason("reduced depth-2 universe %s not walked completely (%s of %s pairs)" % (base, g.get("pairs"), n * n))
        rep.extra["shape_classes_of_pairs"] = len(shape_pairs)
        rep.extra["shape_classes_of_nontrivial_conformance_edges"] = sorted(shape_edges)
        co = groups.get("co", {})
        fe = groups.get("feel", {})
        rep.extra["coercion_direct"] = {"values": co.get("values"), "targets": co.get("targets"), "coerced_calls": co.get("calls"), "outcomes_expected_by_rule": co.get("outcomes"), "inhabitants_type_checked": co.get("typeof_checked")}
        rep.extra["coercion_through_feel"] = {"values": fe.get("values"), "targets": fe.get("targets"), "invocations": fe.get("calls"), "positional": fe.get("positional"), "named": fe.get("named"), "outcomes_expected_by_rule": fe.get("outcomes")}
        rep.sample({"pair": ["function<>->number", "function<>->string"], "note": "see KNOWN-FINDING C16-1 when reported"})
        rep.sample({"coercion": "list<number>.coerced([[1, 1]])", "note": "see KNOWN-FINDING C16-2 when reported"})
        # ---- observation floors ----
        if d1.get("pairs") != DEPTH1_TYPES * DEPTH1_TYPES:
            rep.inconclusive_reason("depth-1 universe not walked completely: %s of %d ordered pairs" % (d1.get("pairs"), DEPTH1_TYPES * DEPTH1_TYPES))
        for law in REQUIRED_LAWS:
            if merged.laws.get(law, 0) < 20:
                rep.inconclusive_reason("law '%s' was exercised only %d times" % (law, merged.laws.get(law, 0)))
        for label, g, floor in (("direct coercion", co, 1_000_000), ("FEEL coercion", fe, 200_000)):
            if g.get("values") != g.get("pool"):
                rep.inconclusive_reason("%s: %s of %s values of the pool were walked" % (label, g.get("values"), g.get("pool")))
            if (g.get("calls") or 0) < floor:
                rep.inconclusive_reason("%s: only %s calls observed (floor %d)" % (label, g.get("calls"), floor))
            for outcome in ("identity", "wrap", "unwrap", "null"):
                if (g.get("outcomes") or {}).get(outcome, 0) < 10:
                    rep.inconclusive_reason("%s: outcome '%s' expected fewer than 10 times" % (label, outcome))
        if (d2.get("conf_true") or 0) < 1000 or (d2.get("triples_matrix_nonvacuous") or 0) < 1000:
            rep.inconclusive_reason("depth-2 samples too sparse: %s conformant pairs" % d2.get("conf_true"))


def replay(rp):
    """./check C16 --replay <file>: re-runs the recorded probe and tells whether the same class key shows up again."""
    r = rp.get("replay") or {}
    case = r.get("case")
    sig = rp.get("signature")
    if not case:
        print("replay file carries no driver case; recorded details:")
        print(json.dumps(rp, indent=1)[:4000])
        return 3
    res, _ = runner.run_single(r.get("variant", "dbg"), case, os.path.join(runner.WORK, "replay"), label="c16replay")
    if res is None or "harness_error" in res or res.get("missing"):
        raise runner.Inconclusive("replay: harness error %s" % json.dumps(res)[:400])
    print("case     :", json.dumps(case)[:3000])
    print("expected :", json.dumps(r.get("expected"))[:1500])
    for k in ("text", "is_conformant", "is_equivalent", "reference_conformant", "reference_equivalent", "value_text", "value_type", "target_text", "coerced", "feel"):
        if k in res:
            print("observed %s: %s" % (k, json.dumps(res[k])[:1500]))
    keys = sorted(sanitize_sig(k) for k in (res.get("viol") or {}))
    print("violated classes now:", keys)
    if "panic" in res or "crash" in res or sig in keys:
        print("VIOLATION property=%s replay=%s" % (rp.get("property"), "<replayed>"))
        return 1
    print("replay no longer reproduces signature %s" % sig)
    return 0
