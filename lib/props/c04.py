"""C04 — a decision's value is its logic evaluated over its requirement graph.

Oracle: reference evaluation of the generated graph (lib/gdrg.py: R-FEEL for the logic, a small
table reference for decision tables) + the irrelevance monitor (entries whose names are outside the
requirement closure of the invoked element must not change the result).
"""
import json
from decimal import Decimal

import gdrg
import xmlvar
import rfeel
import runner
from common import crash_signature, panic_signature, rng_for

LEVEL = "exploration"


def closure_names(m, invocable):
    """names of input data / decisions in the requirement closure of the invocable"""
    decs = {d["name"]: d for d in m["decisions"]}
    svc = {s["name"]: s for s in m["services"]}
    seen_d, ins = set(), set()

    def walk(dn):
        if dn in seen_d:
            return
        seen_d.add(dn)
        d = decs[dn]
        ins.update(d["requires_inputs"])
        for r in d["requires_decisions"]:
            walk(r)
        for s in d["requires_services"]:
            walk_s(s)

    def walk_s(sn):
        s = svc[sn]
        ins.update(s["inputs"])
        for o in s["outputs"] + s["encapsulated"] + s["input_decisions"]:
            walk(o)

    if invocable in decs:
        walk(invocable)
    elif invocable in svc:
        walk_s(invocable)
    return ins, seen_d


def _bkm_closure(m, names):
    bk = {b["name"]: b for b in m["bkms"]}
    seen, todo = set(), list(names)
    while todo:
        n = todo.pop()
        if n in seen or n not in bk:
            continue
        seen.add(n)
        todo.extend(bk[n].get("requires", []))
    return seen


def input_contexts(m, rng, invocable):
    """list of (python dict, kind)"""
    decs = {d["name"] for d in m["decisions"]}
    svc = {s["name"]: s for s in m["services"]}
    bkm = {b["name"]: b for b in m["bkms"]}
    out = []

    def val(ty):
        if ty == "number":
            return Decimal(rng.choice(gdrg.NUMS + ["-3", "4", "20", "0.25"]))
        return rng.choice(gdrg.STRS + ["zz"])

    names = [(i["name"], i["type"]) for i in m["inputs"]]
    if invocable in svc:
        # a value supplied for an input decision is of the type of that decision's variable (untyped: a number)
        dtype = {d["name"]: d.get("type_ref") or "number" for d in m["decisions"]}
        names = names + [(x, dtype.get(x, "number")) for x in svc[invocable]["input_decisions"]]
    if invocable in bkm:
        names = [(p, "number") for p in bkm[invocable]["params"]]
    for k in range(4):
        out.append(({n: val(t) for n, t in names}, "full"))
    out.append(({n: val(t) for n, t in names if rng.random() < 0.6}, "partial"))
    out.append(({n: (None if rng.random() < 0.5 else val(t)) for n, t in names}, "nulls"))
    if invocable not in bkm:
        # (a knowledge model invoked by name takes its arguments as they are; typed inputs are C11's subject)
        out.append(({n: (val("string") if t == "number" else val("number")) if rng.random() < 0.5 else val(t) for n, t in names}, "wrong-type"))
    out.append(({}, "empty"))
    return out


def to_entries(d):
    return [[k, rfeel.to_json(v)] for k, v in d.items()]


def run(rep, tier, seed):
    n_models = 3000 if tier == "quick" else 60000
    rep.rule = (
        "%d generated acyclic requirement graphs (1-4 typed inputs, 2-8 decisions of every boxed kind: literal, context with and without result entry, invocation, relation, function definition, "
        "decision table; boxed relation, nested context, decision table and invocation inside context entries; 0-3 knowledge models with literal / context / table bodies and BKM->BKM requirements; 0-2 decision services with input / encapsulated / output decisions, used as invocables "
        "and as functions; forced shapes: diamond, BKM chain, service, decision required directly and through a service, multiple output decisions); every invocable x 8 input contexts (full, partial, "
        "nulls, wrongly typed, empty) + the same contexts padded with entries outside the requirement closure. Distinct = (model, invocable, input); non-trivial = result not null." % n_models
    )
    rep.assumptions = [
        "reference evaluation in lib/gdrg.py (R-FEEL for literal logic); logic is drawn from an arithmetic / string / list fragment in which R-FEEL is unambiguous",
        "input entries carrying the name of a required decision or knowledge model are not generated (the statement's irrelevance clause is about names outside the closure)",
    ]
    rng = rng_for(seed, "c04")
    shapes = ["plain", "diamond", "bkm-chain", "service", "service-and-direct", "multi-output-service", "function", "mixed", "typed-service"]
    models = []
    for k in range(n_models):
        g = gdrg.G(rng)
        models.append(g.model(k, shapes[k % len(shapes)]))
    cases, meta = [], []
    for m in models:
        xml = gdrg.to_xml(m)
        if len(cases) % 2 == 1:
            # the same model in another XML spelling (prefixes, attribute order, quotes, CDATA / character references, comments and
            # white space between elements ...): the value oracle judges it like the plain spelling
            xml, style = xmlvar.vary(xml, rng)
            rep.bump("models_in_a_varied_xml_spelling")
        invocables = [d["name"] for d in m["decisions"]] + [s["name"] for s in m["services"]] + [b["name"] for b in m["bkms"]]
        calls, cmeta = [], []
        for inv in invocables:
            ins_closure, dec_closure = closure_names(m, inv)
            for inp, kind in input_contexts(m, rng, inv):
                calls.append([inv, to_entries(inp)])
                cmeta.append((inv, inp, kind, False))
                # padded variant: fresh names + model inputs outside the closure
                if inv not in [b["name"] for b in m["bkms"]]:
                    pad = dict(inp)
                    pad["Zz fresh"] = Decimal(99)
                    pad["zzother"] = "pad"
                    # names the logic uses that no requirement binds: built-in functions, entries of boxed contexts,
                    # formal parameters, relation columns (an input entry of that name is still outside the closure)
                    for nm, v in (("sum", Decimal(100)), ("max", Decimal(1)), ("min", "m"), ("abs", Decimal(2)), ("floor", "f"), ("count", Decimal(5)), ("ea", Decimal(999)), ("eb", "x"), ("ee", Decimal(7)), ("na", Decimal(8)),
                                  ("pa", Decimal(998)), ("pb", Decimal(997)), ("fa", Decimal(996)), ("ra", Decimal(995)), ("ca", "c")):
                        pad[nm] = v
                    for i in m["inputs"]:
                        if i["name"] not in ins_closure and inv not in [s["name"] for s in m["services"]]:
                            pad[i["name"]] = Decimal(12345) if i["type"] == "number" else "PAD"
                    # the invoked element's OWN name and the names of decisions / services / knowledge models it does not
                    # require are outside its requirement closure too (an echoed earlier result must not be returned)
                    pad[inv] = Decimal(424242)
                    if inv in [d["name"] for d in m["decisions"]]:
                        used_bkms = set()
                        for dn in dec_closure:
                            used_bkms.update(_bkm_closure(m, [x for d in m["decisions"] if d["name"] == dn for x in d["requires_bkms"]]))
                        for d in m["decisions"]:
                            if d["name"] not in dec_closure:
                                pad[d["name"]] = Decimal(31337)
                        for b in m["bkms"]:
                            if b["name"] not in used_bkms:
                                pad[b["name"]] = "KM"
                        req_svcs = {x for d in m["decisions"] if d["name"] in dec_closure for x in d["requires_services"]}
                        for sv in m["services"]:
                            if sv["name"] not in req_svcs:
                                pad[sv["name"]] = "SV"
                    calls.append([inv, to_entries(pad)])
                    cmeta.append((inv, inp, kind, True))
        cases.append({"op": "model", "xml": xml, "calls": calls})
        meta.append((m, cmeta))
    results, _ = runner.run_cases("dbg", cases, rep.workdir, label="drg")
    kinds_seen = set()
    for case, (m, cmeta), res in zip(cases, meta, results):
        if "harness_error" in res or res.get("missing"):
            raise runner.Inconclusive("driver harness error: %s" % json.dumps(res)[:300])
        if "rs" not in res:
            if "crash" in res or "timeout" in res:
                rep.violation(crash_signature(res, "c04:" + m["shape"]), "model evaluation died: %s" % json.dumps(res)[:400], {"variant": "dbg", "case": case})
            else:
                rep.violation("model-rejected:%s" % _err_class(res), "generated model rejected: %s" % json.dumps(res)[:500], {"variant": "dbg", "case": case})
            continue
        ref = gdrg.Ref(m)
        base = {}
        for k, ((inv, inp, kind, padded), r) in enumerate(zip(cmeta, res["rs"])):
            rep.count()
            one = {"variant": "dbg", "case": {"op": "model", "xml": case["xml"], "calls": [case["calls"][k]]}}
            ik = _kind(m, inv)
            if "panic" in r:
                rep.violation(panic_signature(r["panic"]) + ":" + ik, "panic evaluating %s: %s" % (inv, r["panic"].get("msg")), one)
                continue
            key = (inv, json.dumps(to_entries(inp), sort_keys=True))
            if padded:
                b = base.get(key)
                if b is not None and json.dumps(b, sort_keys=True) != json.dumps(r["v"], sort_keys=True):
                    one["expected"], one["observed"] = b, r["v"]
                    rep.violation("irrelevant-entries-change-result:%s" % ik, "%s (%s): entries outside the requirement closure changed the result from %s to %s" % (inv, ik, json.dumps(b)[:200], json.dumps(r["v"])[:200]), one)
                continue
            base[key] = r["v"]
            rfeel.EVENTS.clear()
            try:
                exp = ref.invocable(inv, inp)
            except rfeel.Undecided as u:
                rep.undecided += 1
                rep.bump("undecided:" + str(u)[:50])
                continue
            except RecursionError:
                rep.undecided += 1
                continue
            kinds_seen.add((ik, kind))
            if exp is not None:
                rep.seen((m["name"], inv, key[1]))
            if not rfeel.same(exp, r["v"]) and "closure-call" in rfeel.EVENTS:
                one["expected"], one["observed"] = rfeel.show(exp), r
                rep.violation("value:closure-captured-variable-lost", "%s calls a function-valued decision that closes over a name of its own scope: gave %s, lexical closure gives %s" % (inv, json.dumps(r["v"])[:200], rfeel.show(exp)[:200]), one)
            elif not rfeel.same(exp, r["v"]):
                one["expected"], one["observed"] = rfeel.show(exp), r
                rep.violation(
                    "value:%s:input=%s:expected=%s,observed=%s" % (ik, kind, rfeel.kind(exp), rfeel.kind_of_json(r["v"])),
                    "%s (%s, model shape %s) with input %s gave %s, the requirement graph gives %s" % (inv, ik, m["shape"], json.dumps(to_entries(inp))[:200], json.dumps(r["v"])[:200], rfeel.show(exp)[:200]),
                    one,
                )
            elif len(rep.samples) < 4 and exp is not None and kind == "full" and ik.startswith("decision"):
                rep.sample({"model_shape": m["shape"], "invocable": inv, "kind": ik, "input": to_entries(inp), "expected": rfeel.show(exp), "observed": r["v"]})
    _boxed_function_probe(rep)
    rep.extra["invocable_kind_x_input_kind_covered"] = sorted("%s/%s" % k for k in kinds_seen)
    rep.extra["models"] = len(models)
    if rep.evaluations < 3000:
        rep.inconclusive_reason("too few evaluations: %d" % rep.evaluations)


def _kind(m, inv):
    for d in m["decisions"]:
        if d["name"] == inv:
            return "decision:" + d["kind"]
    for s in m["services"]:
        if s["name"] == inv:
            return "service:%d-outputs:%s" % (len(s["outputs"]), "with-input-decisions" if s["input_decisions"] else "plain")
    for b in m["bkms"]:
        if b["name"] == inv:
            return "bkm:" + b["kind"]
    return "?"


def _err_class(res):
    import re

    t = res.get("build_err") or res.get("parse_err") or json.dumps(res)
    return re.sub(r"[^A-Za-z]+", "_", t)[:60]


def _boxed_function_probe(rep):
    """a decision whose logic is a BOXED function definition (not a FEEL function literal) used by another decision"""
    m = {"name": "boxedfn", "shape": "boxed-function", "inputs": [{"name": "In1", "type": "number"}], "bkms": [], "services": [],
         "decisions": [
             {"name": "De1", "kind": "function", "boxed": True, "params": ["fa"], "body": ("mul", ("name", "fa"), ("num", "2")), "requires_inputs": [], "requires_decisions": [], "requires_bkms": [], "requires_services": []},
             {"name": "De2", "kind": "literal", "expr": ("add", ("call", ("name", "De1"), [("name", "In1")]), ("num", "1")), "requires_inputs": ["In1"], "requires_decisions": ["De1"], "requires_bkms": [], "requires_services": []},
         ]}
    case = {"op": "model", "xml": gdrg.to_xml(m), "calls": [["De2", [["In1", {"n": "5"}]]]]}
    res, _ = runner.run_single("dbg", case, rep.workdir, label="boxedfn")
    rep.count()
    one = {"variant": "dbg", "case": case, "expected": "11"}
    if "rs" not in res:
        rep.violation("boxed-function-definition-as-decision-logic:model-rejected", "a model with a decision whose logic is a boxed function definition is rejected: %s" % json.dumps(res)[:300], one)
    elif not rfeel.same(Decimal(11), res["rs"][0].get("v")):
        rep.violation("boxed-function-definition-as-decision-logic:wrong-value", "De2 = De1(In1) + 1 with De1 a boxed function gave %s, expected 11" % json.dumps(res["rs"][0])[:200], one)
