"""C11 - typed inputs and outputs: conforming values pass unchanged, others become null.

Reference-model oracle (`gitemdef.conform` / `gitemdef.coerce_result`: direct transcriptions of the
statement) over ALL item-definition trees to depth 3 (gitemdef.enumerate_trees) x one conforming value and
one violating value at every position of the tree.

INPUT side : inputData `In` typed by the tree; decision `Echo` (untyped variable, text `In`) and decision
             service `EchoSvc` (untyped, output decision Echo) show what reached the logic.
OUTPUT side: the tree types the output variable of a decision (`Out<k>`, literal of the value), of a BKM
             (`Bkm`, untyped parameter returned as is) and of a decision service (`Svc<k>` around the
             untyped decision `Raw<k>`); `Raw<k>` alone shows what the logic produced.
"""
import json

import gitemdef as g
import xmlvar
import runner
from common import chunks, crash_signature, panic_signature, rng_for

LEVEL = "exploration"

CHUNK = 20  # values per output-side model


def _always(tree):
    """Trees that every tier runs: each of them exercises one copy of the per-type closures directly
    (built-in typeRef, simple, collection-of-simple, with and without allowed values, and references to them)."""
    if "builtin" in tree:
        return True
    d = g.depth(tree["root"])
    return d <= 1 or (d == 2 and tree["root"]["k"] == "ref")


def _select(trees, tier, seed):
    if tier != "quick":
        return list(range(len(trees)))
    stride = max(1, len(trees) // 600)
    rng = rng_for(seed, "c11-stride")
    picked = [i for i, t in enumerate(trees) if _always(t)]
    rest = [i for i, t in enumerate(trees) if not _always(t)]
    for block in chunks(rest, stride):
        picked.append(block[rng.randrange(len(block))])
    return sorted(picked)


def _root_class(tree):
    if "builtin" in tree:
        return "builtin"
    return "depth%d:%s" % (g.depth(tree["root"]), g.node_kind(tree["root"], False))


def _input_case(tree, vals):
    calls = []
    for v, _, _ in vals:
        calls.append(["Echo", [["In", v]]])
        calls.append(["EchoSvc", [["In", v]]])
    return {"op": "model", "xml": g.input_model_xml(tree), "calls": calls}


def _output_case(tree, vals):
    calls = []
    for k, (v, _, _) in enumerate(vals):
        calls += [["Raw%d" % k, []], ["Out%d" % k, []], ["Svc%d" % k, []], ["Bkm", [["x", v]]], ["MSvc%d" % k, []]]
    return {"op": "model", "xml": g.output_model_xml(tree, [v for v, _, _ in vals]), "calls": calls}


def _expression_types(xml, rng):
    """The optional typeRef attribute of the EXPRESSION elements (here: literalExpression), set to the variable's own type, to
    another type of the document, to a built-in type or to a name that does not resolve. The statement types inputs by their
    input data and results by the output VARIABLE; what the expression element says about itself must not change either."""
    import re as _re

    names = sorted(set(_re.findall(r'<itemDefinition[^>]* name="([^"]+)"', xml)) | set(_re.findall(r'typeRef="([^"]+)"', xml)))
    pool = names + ["number", "string", "boolean", "date", "Any", "tNoSuchType"]

    def one(m):
        if rng.random() < 0.35:
            return m.group(0)
        return '<literalExpression typeRef="%s">' % rng.choice(pool)

    return _re.sub(r"<literalExpression>", one, xml)


def _dead(rep, res, case, side, tree):
    """True when the whole model case produced no per-call results (and reports why)."""
    if "harness_error" in res or res.get("missing"):
        raise runner.Inconclusive("driver reported a harness error: %s" % json.dumps(res)[:300])
    if "rs" in res:
        return False
    cls = "%s:%s" % (side, _root_class(tree))
    if "parse_err" in res or "build_err" in res:
        which = "parse_err" if "parse_err" in res else "build_err"
        rep.violation(
            "model-rejected:%s:%s" % (which, cls),
            "well-formed generated model (%s) was rejected: %s" % (g.tree_shape(tree, True), res[which][:300]),
            {"variant": "dbg", "case": case, "expected": "model accepted", "observed": res},
        )
    elif "panic" in res:
        rep.violation(
            "%s:stage=%s:%s" % (panic_signature(res["panic"]), res.get("stage"), cls),
            "panic while loading the generated model (%s): %s" % (g.tree_shape(tree, True), res["panic"].get("msg")),
            {"variant": "dbg", "case": case, "expected": "model accepted", "observed": res},
        )
    elif "timeout" in res:
        rep.inconclusive_reason("model case timed out (%s, %s)" % (side, g.tree_shape(tree, True)))
    else:
        rep.violation(crash_signature(res, "c11-" + cls), "driver died on a generated model (%s): %s" % (g.tree_shape(tree, True), json.dumps(res)[:300]), {"variant": "dbg", "case": case})
    return True


def _obs(r):
    """('v', value) | ('panic', record) | ('none', record)"""
    if "panic" in r:
        return "panic", r["panic"]
    if "v" in r:
        return "v", r["v"]
    return "none", r


def _merge_side(side, names, failed):
    """`input` when every route failed the same way, else `input-decision` ..."""
    if len(failed) == len(names):
        return side
    return side + "-" + "+".join(n for n in names if n in failed)


def _check_input(rep, tree, case_xml, v, kind, at, routes):
    """routes: [(route name, invocable, result record)]"""
    root = g.root_node(tree)
    shape = g.tree_shape(tree)
    rep.count(len(routes))
    rep.seen((shape, kind, "input"))
    try:
        exp = g.conform_tree(tree, v)
    except g.Undecided as u:
        rep.undecided += len(routes)
        rep.bump("undecided:input:%s" % u)
        return
    lenient = g.conform_tree(tree, v, True)
    fails = {}
    for route, inv, r in routes:
        what, o = _obs(r)
        if what == "panic":
            fails.setdefault(("panic", panic_signature(o)), []).append((route, inv, o))
            continue
        if what == "none":
            raise runner.Inconclusive("no value and no panic in a call record: %s" % json.dumps(r)[:300])
        if r.get("input_changed"):
            fails.setdefault(("mutated", "caller-input-mutated"), []).append((route, inv, o))
            continue
        if g.same(exp, o):
            continue
        if not g.same(exp, lenient) and g.same(lenient, o):
            # singleton-list conversion applied to an INPUT: the statement grants it to results only; an input that does not
            # conform "is replaced by null". (Counted as undecided until round 8; the unchanged tree never converts an input -
            # the counter was 0 in every run - so the letter of the statement is enforced.)
            fails.setdefault(("value", "%s:%s->singleton-list-conversion-applied-to-an-input" % (_locus(tree, root), kind)), []).append((route, inv, o))
            continue
        d = g.divergence(root, exp, o, v)
        node, e_part, o_part, i_part = d
        locus = _locus(tree, node)
        k2 = _local_kind(node, i_part, at, kind)
        sig_tail = "%s:%s->%s" % (locus, k2, g.observed_kind(e_part, o_part, i_part))
        fails.setdefault(("value", sig_tail), []).append((route, inv, o))
    for (cls, tail), lst in fails.items():
        side = _merge_side("input", [r[0] for r in routes], [x[0] for x in lst])
        route, inv, o = lst[0]
        replay = {"variant": "dbg", "case": {"op": "model", "xml": case_xml, "calls": [[inv, [["In", v]]]]}, "expected": exp, "observed": o, "tree": g.tree_shape(tree, True), "violation_kind": kind}
        if cls == "panic":
            rep.violation("%s:%s:%s" % (side, tail, _root_class(tree)), "panic evaluating %s with In=%s (type %s): %s" % (inv, g.feel_literal(v), g.tree_shape(tree, True), o.get("msg")), replay)
        elif cls == "mutated":
            rep.violation("%s:%s" % (side, tail), "evaluation changed the caller's input context", replay)
        else:
            rep.violation(
                "%s:%s" % (side, tail),
                "type %s, %s offered %s [%s at %s]: the logic saw %s, statement says %s"
                % (g.tree_shape(tree, True), inv, g.feel_literal(v), kind, g.node_kind(at), _lit(o), _lit(exp)),
                replay,
            )


STRUCTURAL = ("empty-collection", "nested-singleton", "nested-singleton-of-empty", "scalar-for-collection", "wrong-scalar-for-collection", "null-item")


def _locus(tree, node, with_type=True):
    """Signature name of a node: `coll-simple+av=date-and-time`, `ref+av`, `builtin=number` ..."""
    if "builtin" in tree:
        return "builtin=%s" % tree["builtin"].replace(" ", "-")
    s = g.node_kind(node, False)
    if node["k"] == "simple" and with_type:
        s += "=" + node["t"].replace(" ", "-")
    return s


def _local_kind(node, i_part, at, kind):
    """What was offered AT the node where expectation and observation part ways."""
    if i_part is not g.NO_INPUT:
        try:
            if g.conforms(node, i_part):
                return "conforming"
        except g.Undecided:
            return "undecided-part"
    if g.pos(node) == g.pos(at):
        return kind
    if g.inside(g.pos(at), g.pos(node)):
        return "bad-item" if node["coll"] else "bad-part"
    return "nonconforming"


def _lit(v):
    try:
        return g.feel_literal(v)
    except Exception:
        return json.dumps(v)


def _check_output(rep, tree, case_xml_for, v, kind, at, raw, routes):
    """routes: [(route name, call, result record)] ; call = [invocable, ctx]"""
    shape = g.tree_shape(tree)
    rep.count(len(routes) + 1)
    rep.seen((shape, kind, "output"))
    what, o = _obs(raw)
    if what != "v" or not g.same(o, v):
        # the untyped decision did not produce the value we meant to produce: our generator's problem
        rep.undecided += len(routes)
        rep.bump("raw_value_mismatch")
        rep.extra.setdefault("raw_value_mismatch_example", {"meant": v, "raw": raw})
        return
    try:
        exp, how = g.coerce_tree(tree, v)
    except g.Undecided as u:
        rep.undecided += len(routes)
        rep.bump("undecided:output:%s" % u)
        return
    rep.bump("output_expected:" + how, len(routes))
    # the result is coerced as a whole by type-generic code: for the kinds that concern the list structure
    # the simple type of the items is not part of the failure's shape
    locus = _locus(tree, at, with_type=kind not in STRUCTURAL)
    fails = {}
    for route, call, r in routes:
        what, o = _obs(r)
        if what == "panic":
            fails.setdefault(("panic", panic_signature(o)), []).append((route, call, o))
            continue
        if what == "none":
            raise runner.Inconclusive("no value and no panic in a call record: %s" % json.dumps(r)[:300])
        if g.same(exp, o):
            continue
        tail = "%s:%s->%s" % (locus, kind, g.observed_kind(exp, o, v))
        fails.setdefault(("value", tail), []).append((route, call, o))
    for (cls, tail), lst in fails.items():
        side = _merge_side("output", [r[0] for r in routes], [x[0] for x in lst])
        route, call, o = lst[0]
        replay = {"variant": "dbg", "case": {"op": "model", "xml": case_xml_for(v), "calls": [call if call[0] == "Bkm" else [call[0].rstrip("0123456789") + "0", []]]}, "expected": exp, "observed": o, "tree": g.tree_shape(tree, True), "violation_kind": kind}
        if cls == "panic":
            rep.violation("%s:%s:%s" % (side, tail, _root_class(tree)), "panic evaluating %s producing %s (output type %s): %s" % (call[0], g.feel_literal(v), g.tree_shape(tree, True), o.get("msg")), replay)
        else:
            rep.violation(
                "%s:%s" % (side, tail),
                "output type %s, logic produced %s [%s at %s]: %s returned %s, statement says %s (%s)"
                % (g.tree_shape(tree, True), g.feel_literal(v), kind, g.node_kind(at), route, _lit(o), _lit(exp), how),
                replay,
            )


SPELLING_PROBES = [
    ("date and time", {"dt": "2021-03-04T10:20:30"}),
    ("days and time duration", {"dtd": "P2D"}),
    ("years and months duration", {"ymd": "P1Y"}),
    ("Any", {"n": "5"}),
]


def run(rep, tier, seed):
    rep.rule = (
        "every item-definition tree to depth 3 over 8 simple types x {plain, allowedValues, reference (also reference+allowedValues), "
        "component type with 1-2 components, isCollection of each} plus the 8 built-in type names used directly as typeRef "
        "(%d trees after pruning: of a component pair one side varies, the other is a witness - a plain simple type or a collection of one); per tree one conforming "
        "value and one value per (position, violation kind); each value is offered as INPUT (decision and decision-service route) and "
        "produced as RESULT of a decision, a BKM and a decision service typed by the tree. quick: every tree of depth 1, every reference to one and the built-in names (120 trees) plus one "
        "tree of every %s consecutive others (seeded choice inside the block); thorough: all. A case is distinct by (tree shape class, violation kind, side); "
        "all of them are non-trivial (a typed boundary is crossed by a non-empty value or null)."
    )
    rep.assumptions = [
        "typeRef spellings are those of every model shipped in /repo/examples: string, number, boolean, date, time, dateTime, dayTimeDuration, yearMonthDuration; the FEEL long names (`date and time` ...) and `Any` as inputData typeRef are probed and reported but not judged",
        "allowedValues of an item definition with isCollection=true constrain the items of the collection (DMN 1.3 7.3.3), not the list as a whole",
        "a collection conforms when none of its items would itself be replaced by null; such an item makes the whole collection non-conforming (replaced by null) - the statement grants partial replacement to component types only, so inside an item that is a context of a component type only the offending component becomes null and the collection stays",
        "INPUT side: the statement speaks of singleton-list wrapping/unwrapping for results only. Oracle = the letter (a scalar offered for a collection, or a singleton list offered for a scalar, does not conform -> null); an implementation that wraps / unwraps such an input breaks the letter of the statement and is reported",
        "null conforms to every type (top level and as a component); a null ITEM inside a collection is not settled by the statement -> undecided on both sides",
        "missing components and extra context entries are not in the statement and are not generated",
        "OUTPUT side: `Raw<k>` (same literal, untyped variable) must reproduce the intended value, else the case is dropped as undecided; allowed values are part of the declared type of an output variable as they are for an input",
        "values are compared by value (numbers numerically, context entries by name)",
    ]
    trees = g.enumerate_trees(3)
    picked = _select(trees, tier, seed)
    stride = max(1, len(trees) // 600)
    rep.rule = rep.rule % (len(trees), stride)
    rep.extra["trees_enumerated"] = len(trees)
    rep.extra["trees_run"] = len(picked)
    rep.extra["exhaustive"] = len(picked) == len(trees)
    cases = []
    meta = []
    n_values = 0
    vrng = rng_for(seed, "c11-xml-spelling")
    for ti in picked:
        tree = trees[ti]
        vals = g.values_for(tree)
        n_values += len(vals)
        rep.bump("trees_by_root_class:" + _root_class(tree))
        for v, kind, at in vals:
            rep.bump("values_by_kind:" + kind)
            rep.bump("values_by_position:%s:%s" % (g.node_kind(at, False), kind))
        cases.append(_input_case(tree, vals))
        if len(cases) % 3 == 0:
            cases[-1]["xml"] = _expression_types(cases[-1]["xml"], vrng)
            rep.bump("models_whose_expression_elements_carry_a_typeRef")
        if len(cases) % 4 < 2:
            cases[-1]["xml"] = xmlvar.vary(cases[-1]["xml"], vrng)[0]  # the same model in another XML spelling (lib/xmlvar.py)
            rep.bump("input_models_in_a_varied_xml_spelling")
        meta.append(("input", ti, vals))
        for part in chunks(vals, CHUNK):
            cases.append(_output_case(tree, part))
            if len(cases) % 3 == 0:
                cases[-1]["xml"] = _expression_types(cases[-1]["xml"], vrng)
                rep.bump("models_whose_expression_elements_carry_a_typeRef")
            meta.append(("output", ti, part))
    rep.extra["tree_shape_classes_run"] = len({g.tree_shape(trees[ti]) for ti in picked})
    rep.extra["values_generated"] = n_values
    # typeRef spelling probes (reported, never judged)
    # evaluator LIFETIMES on one thread: models of the same shape whose item definitions carry the same names with other
    # types, built, used and dropped one after the other in ONE process (the main run spreads neighbours over 16 shards):
    # what the code under test remembers about a model - by name, by address - must die with it
    by_shape = {}
    for idx, (side, ti, vals) in enumerate(meta):
        if side == "output" and "builtin" not in trees[ti]:
            by_shape.setdefault(g.tree_shape(trees[ti]), []).append(idx)
    life = []
    for shape_, idxs in sorted(by_shape.items()):
        seen, sel = set(), []
        for i in idxs:
            k = g.tree_shape(trees[meta[i][1]], True)
            if k not in seen:
                seen.add(k)
                sel.append(i)
        if len(sel) >= 2:
            life += sel[:4] * 3  # A B C D A B C D A B C D: every model meets what its predecessors left behind more than once
    life = life[: (180 if tier == "quick" else 2400)]
    life_cases = [dict(cases[i]) for i in life]
    life_meta = [meta[i] for i in life]
    rep.extra["evaluator_lifetimes_in_one_process"] = len(life)
    probe_at = len(cases)
    for name, v in SPELLING_PROBES:
        xml = g.input_model_xml({"builtin": "string"}).replace('typeRef="string"', 'typeRef="%s"' % name)
        cases.append({"op": "model", "xml": xml, "calls": [["Echo", [["In", v]]]]})
    results, _ = runner.run_cases("dbg", cases, rep.workdir, label="trees", case_timeout=60.0)
    lres, _ = runner.run_cases("dbg", life_cases, rep.workdir, label="lifetimes", case_timeout=60.0, nshards=1) if life_cases else ([], None)
    sampled = set()
    for (side, ti, vals), res, case in zip(meta + life_meta, results[:probe_at] + lres, cases[:probe_at] + life_cases):
        tree = trees[ti]
        if _dead(rep, res, case, side, tree):
            continue
        rs = res["rs"]
        if side == "input":
            if len(rs) != 2 * len(vals):
                raise runner.Inconclusive("result count mismatch (input)")
            for k, (v, kind, at) in enumerate(vals):
                _check_input(rep, tree, case["xml"], v, kind, at, [("decision", "Echo", rs[2 * k]), ("service", "EchoSvc", rs[2 * k + 1])])
            if "input" not in sampled and len(vals) > 3:
                sampled.add("input")
                v, kind, at = vals[-1]
                rep.sample({"side": "input", "type": g.tree_shape(tree, True), "offered": _lit(v), "violation": "%s at %s" % (kind, g.node_kind(at)), "logic_saw": _lit(rs[2 * (len(vals) - 1)].get("v"))})
        else:
            if len(rs) != 5 * len(vals):
                raise runner.Inconclusive("result count mismatch (output)")
            for k, (v, kind, at) in enumerate(vals):
                routes = [
                    ("decision", ["Out%d" % k, []], rs[5 * k + 1]),
                    ("service", ["Svc%d" % k, []], rs[5 * k + 2]),
                    ("bkm", ["Bkm", [["x", v]]], rs[5 * k + 3]),
                ]
                if g.multi_output_parts(v):
                    routes.append(("service-of-several-output-decisions", ["MSvc%d" % k, []], rs[5 * k + 4]))
                    rep.bump("multi_output_service_results")
                _check_output(rep, tree, lambda val, tree=tree: g.output_model_xml(tree, [val]), v, kind, at, rs[5 * k], routes)
            if "output" not in sampled and len(vals) > 3:
                sampled.add("output")
                v, kind, at = vals[1]
                rep.sample({"side": "output", "type": g.tree_shape(tree, True), "produced": _lit(v), "violation": "%s at %s" % (kind, g.node_kind(at)), "decision_returned": _lit(rs[6].get("v")), "bkm_returned": _lit(rs[8].get("v"))})
    _nest(rep.extra)
    probes = {}
    for (name, v), res in zip(SPELLING_PROBES, results[probe_at:]):
        rep.undecided += 1
        if "rs" in res:
            probes[name] = "conforming value arrived as %s" % _lit(res["rs"][0].get("v"))
        else:
            probes[name] = json.dumps(res)[:200]
    rep.extra["typeRef_spelling_probe_inputData"] = probes
    if rep.extra.get("raw_value_mismatch", 0) > n_values // 100:
        rep.inconclusive_reason("the untyped decisions did not reproduce the intended values in %d cases" % rep.extra["raw_value_mismatch"])
    floor = 40000 if tier == "quick" else 300000
    if rep.evaluations < floor:
        rep.inconclusive_reason("only %d evaluations observed (floor %d)" % (rep.evaluations, floor))


def _nest(extra):
    """`a:b:c` counters -> nested dicts (readable evidence)."""
    for key in [k for k in extra if ":" in k]:
        parts = key.split(":")
        d = extra
        for p in parts[:-1]:
            d = d.setdefault(p, {})
        d[parts[-1]] = extra.pop(key)


def replay(rp):
    r = rp.get("replay") or {}
    case = r.get("case")
    res, _ = runner.run_single(r.get("variant", "dbg"), case, runner.WORK + "/replay", label="c11replay")
    print("type     :", r.get("tree"), "|", r.get("violation_kind"))
    print("call     :", json.dumps(case.get("calls"))[:2000])
    print("expected :", _lit(r.get("expected")))
    if "rs" not in res:
        print("observed :", json.dumps(res)[:2000])
        print("VIOLATION property=C11 replay=<replayed>")
        return 1
    rec = res["rs"][0]
    print("observed :", _lit(rec.get("v")) if "v" in rec else json.dumps(rec)[:2000])
    print("recorded :", _lit(r.get("observed")))
    if "v" in rec and g.same(rec["v"], r.get("expected")):
        print("replay no longer reproduces: observed equals the expected value")
        return 0
    print("VIOLATION property=C11 replay=<replayed>")
    return 1
