"""C07 — numbers print as plain decimal text that denotes exactly their value.

In-driver sweep (ops_num.rs `numsweep`: expected value by string arithmetic on (sign, coefficient,
exponent), independent of scientific_to_plain) over exponent x coefficient length x shape x sign,
plus a sample cross-checked here with Python Decimal and a strict JSON parser (`numtext`).
"""
import json
import re
from decimal import Decimal

import runner
from common import crash_signature, panic_signature, rng_for

LEVEL = "exploration"

PLAIN = re.compile(r"^-?\d+(\.\d+)?$")
import decimal as _decimal

CTX34 = _decimal.Context(prec=34, rounding=_decimal.ROUND_HALF_EVEN, Emax=6144, Emin=-6143, clamp=1, traps=[])


def strict_json_number(text):
    def bad(x):
        raise ValueError("constant " + x)

    v = json.loads(text, parse_float=Decimal, parse_int=Decimal, parse_constant=bad)
    if not isinstance(v, Decimal):
        raise ValueError("not a number")
    return v


def run(rep, tier, seed):
    rep.rule = (
        "every exponent -6176..6111 (thorough; quick: every exponent within +-70 of 0 and of both range ends, stride 23 elsewhere) x every coefficient length 1..34 x "
        "{random digits, trailing zeros, all nines, power of ten} x both signs: to_string / jsonify / from_str(to_string) checked in the driver against string arithmetic; "
        "a seeded sample additionally through FEEL literals, xsd:decimal conversion and Python Decimal. Distinct = (sign, coefficient, exponent); non-trivial = coefficient not zero."
    )
    rep.assumptions = [
        "the expected plain rendering is computed by shifting the decimal point in the digit string (driver) and, for the sample, by Python's decimal module",
        "ASan replay watches the 43-byte string buffer and CStr::from_ptr on the FFI boundary",
    ]
    rng = rng_for(seed, "c07")
    lens = list(range(1, 35))
    if tier == "thorough":
        exps = list(range(-6176, 6112))
    else:
        exps = sorted(set(list(range(-70, 71)) + list(range(-6176, -6106)) + list(range(6042, 6112)) + list(range(-6106, 6042, 23)) + [rng.randint(-6176, 6111) for _ in range(60)]))
    # shard the sweep: one case per block of exponents
    cases = []
    block = 8 if tier == "quick" else 12
    for k in range(0, len(exps), block):
        chunk = exps[k : k + block]
        # consecutive exponents only when contiguous; otherwise one case per exponent
        if chunk[-1] - chunk[0] == len(chunk) - 1:
            cases.append({"op": "numsweep", "exp_lo": chunk[0], "exp_hi": chunk[-1], "exp_step": 1, "lens": lens, "seed": rng.randint(1, 2 ** 40), "feel": False})
        else:
            for e in chunk:
                cases.append({"op": "numsweep", "exp_lo": e, "exp_hi": e, "exp_step": 1, "lens": lens, "seed": rng.randint(1, 2 ** 40), "feel": False})
    # FEEL literal / xsd path on a stride (slower: parser involved, texts up to 6 KB)
    feel_exps = [e for e in exps if -40 <= e <= 40] + [rng.choice(exps) for _ in range(40 if tier == "quick" else 600)]
    for e in feel_exps:
        cases.append({"op": "numsweep", "exp_lo": e, "exp_hi": e, "exp_step": 1, "lens": [1, 2, 5, 17, 33, 34], "seed": rng.randint(1, 2 ** 40), "feel": True})
    # sample for the independent Python cross-check
    sample = []
    for _ in range(3000 if tier == "quick" else 60000):
        n = rng.randint(1, 34)
        coeff = str(rng.randint(1, 9)) + "".join(rng.choice("0123456789") for _ in range(n - 1))
        if rng.random() < 0.3:
            z = rng.randint(1, n)
            coeff = coeff[: n - z] + "0" * z if n - z > 0 else "0" * n
        e = rng.choice(exps)
        sample.append([rng.random() < 0.5, coeff, e])
    sample += [[True, "15", -8], [False, "15", -8], [True, "0", 0], [True, "0", -3], [False, "1234567890123456789012345678901234", 6111], [True, "1", -6176]]
    for k in range(0, len(sample), 200):
        cases.append({"op": "numtext", "items": sample[k : k + 200], "feel": True, "full": True})
    variants = ["dbg", "asan"]
    for variant in variants:
        try:
            runner.build(variant)
        except runner.Inconclusive as ex:
            if variant == "dbg":
                raise
            print("NOTE property=C07 sanitizer build unavailable, asan replay skipped: %s" % str(ex)[:200])
            rep.extra["asan_unavailable"] = str(ex)[:300]
            continue
        sub = cases if variant == "dbg" else [c for k, c in enumerate(cases) if k % (4 if tier == "quick" else 3) == 0]
        results, meta = runner.run_cases(variant, sub, rep.workdir, label="sweep", case_timeout=120)
        for san in meta["sanitizer_reports"]:
            rep.violation("sanitizer-report:" + variant, san[-1500:], None)
        for case, res in zip(sub, results):
            if "harness_error" in res or res.get("missing"):
                raise runner.Inconclusive("driver harness error: %s" % json.dumps(res)[:300])
            if "panic" in res:
                rep.violation(panic_signature(res["panic"]), "panic in %s" % json.dumps(case)[:200], {"variant": variant, "case": case})
                continue
            if "checked" not in res:
                rep.violation(crash_signature(res, "c07-sweep") + ":" + variant, "sweep case died on %s: %s" % (variant, json.dumps(res)[:600]), {"variant": variant, "case": case})
                continue
            rep.count(res["checked"])
            if variant == "dbg":
                rep.bump("numbers_checked_in_driver", res["checked"])
            for b in res.get("bad", []):
                kind = b.get("kind", "?")
                lit = b.get("lit", "")
                neg = lit.startswith("-")
                m = re.match(r"-?(\d+)E(-?\d+)", lit)
                adj = (len(m.group(1)) - 1 + int(m.group(2))) if m else 0
                cls = "%s:neg=%s:adjusted%s" % (kind, neg, "<0" if adj < 0 else ">=0")
                if kind == "panic":
                    cls = panic_signature(b.get("panic"))
                rep.violation(cls, "number %s: %s" % (lit, json.dumps(b)[:400]), {"variant": variant, "case": {"op": "numtext", "items": [[neg, m.group(1), int(m.group(2))]] if m else [], "feel": True, "full": True}})
            if case["op"] == "numtext" and variant == "dbg":
                _cross_check(rep, case, res)
            if case["op"] == "numsweep" and variant == "dbg":
                rep.bump("sweep_cases")
    # ---- literals in company: a numeric literal keeps its value whatever literals were read before it in the same text
    # (every spelling of the sample - plain, leading dot, leading zeros, trailing zeros - after every kind of neighbour)
    NEIGH = ["0", "00", "007", "1", "0.0", ".5", "10", "0.50", "123456789012345678901234567890", ".0", "000"]
    n_comp = 400 if tier == "quick" else 20000
    ccases, cmeta = [], []
    for _ in range(n_comp // 20):
        texts, wants = [], []
        for _j in range(20):
            lits = []
            for _k in range(rng.randint(2, 5)):
                n = rng.randint(1, 12)
                frac = rng.choice([0, 0, 1, 2, 3, 6, 12, 33])
                digits = "".join(rng.choice("0123456789") for _ in range(n))
                if frac == 0:
                    lit = str(int(digits)) if rng.random() < 0.6 else digits  # leading zeros kept in 40 %
                else:
                    fd = "".join(rng.choice("0000123456789") for _ in range(frac))
                    ip = rng.choice(["0", "", "0", str(int(digits)), "00"])
                    lit = "%s.%s" % (ip, fd)
                lits.append(lit)
            seq = []
            for lit in lits:
                seq.append(rng.choice(NEIGH))
                seq.append(lit)
            form = rng.randrange(4)
            if form == 0:
                text = "[%s]" % ", ".join(seq)
            elif form == 1:
                text = "[%s]" % ", ".join("%s + %s" % (seq[k], seq[k + 1]) if k + 1 < len(seq) else seq[k] for k in range(0, len(seq), 2))
                seq = None
            elif form == 2:
                text = "[%s]" % ", ".join("if %s > 1 then %s else %s" % (seq[k], seq[k + 1], seq[k + 1]) for k in range(0, len(seq), 2))
                seq = [seq[k + 1] for k in range(0, len(seq), 2)]
            else:
                text = "[%s]" % ", ".join("max(%s, %s)" % (seq[k], seq[k + 1]) for k in range(0, len(seq), 2))
                seq = None
            if seq is None:
                # expected by exact arithmetic on the written values
                parts = re.findall(r"(max\(([^,]+), ([^)]+)\)|([^,\[\]]+) \+ ([^,\[\]]+))", text)
                want = []
                for whole, m1, m2, a1, a2 in parts:
                    lit = lambda t: CTX34.create_decimal(t.strip())  # a literal is rounded to 34 digits when it is read
                    want.append(max(lit(m1), lit(m2)) if m1 else CTX34.add(lit(a1), lit(a2)))
            else:
                want = [Decimal(x) for x in seq]
            texts.append(text)
            wants.append(want)
        ccases.append({"op": "evalmany", "scope": [[]], "texts": texts})
        cmeta.append(wants)
    cres, _ = runner.run_cases("dbg", ccases, rep.workdir, label="company")
    n_company = 0
    for case, wants, res in zip(ccases, cmeta, cres):
        if "harness_error" in res or res.get("missing"):
            raise runner.Inconclusive("driver harness error: %s" % json.dumps(res)[:300])
        if "rs" not in res:
            rep.violation(crash_signature(res, "c07-company"), "batch died: %s" % json.dumps(res)[:400], {"variant": "dbg", "case": case})
            continue
        for text, want, r in zip(case["texts"], wants, res["rs"]):
            rep.count()
            n_company += 1
            one = {"variant": "dbg", "case": {"op": "eval", "scope": [[]], "text": text}, "expected": [str(w) for w in want]}
            if "panic" in r:
                rep.violation(panic_signature(r["panic"]) + ":literals-in-company", "panic on `%s`" % text[:200], one)
                continue
            got = r.get("v")
            ok = isinstance(got, list) and len(got) == len(want) and all(isinstance(g, dict) and "n" in g and Decimal(g["n"]) == CTX34.create_decimal(w) for g, w in zip(got, want))
            if not ok:
                one["observed"] = r
                rep.violation("feel_literal_value_in_company", "`%s` evaluated to %s, the written values are %s" % (text[:200], json.dumps(got)[:200], [str(w) for w in want][:8]), one)
    rep.extra["expressions_with_several_literals"] = n_company
    # valgrind memcheck replay of a stride of the sweep (the 43-byte buffer, CStr::from_ptr, decQuadToString)
    nv = 8 if tier == "quick" else 160
    runner.memcheck_replay(rep, cases[:: max(1, len(cases) // nv)][:nv])
    # distinct non-trivial: measured as numbers checked on dbg with non-zero coefficient (the sweep never generates zero)
    n_distinct = rep.extra.get("numbers_checked_in_driver", 0)
    rep.distinct_count = n_distinct  # the driver enumerates distinct (sign, coefficient, exponent) triples, all with non-zero coefficient
    rep.extra["exponents_swept"] = len(exps)
    rep.extra["exhaustive"] = tier == "thorough"
    if rep.evaluations < 20000:
        rep.inconclusive_reason("too few numbers checked: %d" % rep.evaluations)


def _cross_check(rep, case, res):
    shown = res.get("shown", [])
    for item, sh in zip(case["items"], shown):
        neg, coeff, e = item
        want = Decimal("%s%sE%d" % ("-" if neg else "", coeff, e))
        lit = "%s%sE%d" % ("-" if neg else "", coeff, e)
        if sh is None:
            rep.violation("from_str_rejects:neg=%s" % neg, "from_str rejects %s" % lit, {"variant": "dbg", "case": {"op": "numtext", "items": [item], "full": True}})
            continue
        text, js, dbg = sh
        rep.bump("python_cross_checked")
        if len(rep.samples) < 5 and len(text) < 60:
            rep.sample({"number": lit, "to_string": text, "jsonify": js})
        adj = len(coeff) - 1 + e
        cls = "neg=%s:adjusted%s" % (neg, "<0" if adj < 0 else ">=0")
        if not PLAIN.match(text):
            rep.violation("not_plain_decimal:%s" % cls, "%s printed as %s" % (lit, text[:80]), {"variant": "dbg", "case": {"op": "numtext", "items": [item], "full": True}})
        elif Decimal(text) != want:
            rep.violation("display_value:%s" % cls, "%s printed as %s" % (lit, text[:80]), {"variant": "dbg", "case": {"op": "numtext", "items": [item], "full": True}})
        try:
            if strict_json_number(js) != want:
                rep.violation("json_value:%s" % cls, "%s jsonified as %s" % (lit, js[:80]), {"variant": "dbg", "case": {"op": "numtext", "items": [item], "full": True}})
        except Exception:
            rep.violation("json_not_number:%s" % cls, "%s jsonified as %s" % (lit, js[:80]), {"variant": "dbg", "case": {"op": "numtext", "items": [item], "full": True}})
