"""C17 — the workspace holds exactly the models its history of operations leaves in it.

Runtime monitoring of the real `dmntk_workspace::Workspace` through the `verif_snapshot` hook and
behavioural probes; oracle = lib/wsmodel.py (sequential model of the property statement, relational
where the statement leaves the outcome open).

 (a) breadth-first walk of the implementation's reachable states inside the driver (op `wsbfs`), every
     (state, operation, result, next state) transition validated here by the reference model;
 (b) literally every history up to length 4 (quick) / 5 over 19 operations and 6 over 10 operations (thorough);
 (c) seeded random histories of length 7..40 over all 52 operations.
"""
import json

import runner
import wsmodel
from common import crash_signature, panic_signature, rng_for, sanitize_sig
from wsmodel import ALPHABET, INVOCABLE, State, Entry, check_step

LEVEL = "exploration"

MODELS_JSON = [{"id": m.id, "xml": m.xml} for m in ALPHABET]
NAMESPACES = ["nsA", "nsC", "nsD", "A", "nsF", "nsX"]
NAMES = ["A", "B", "D", "nsA", "F", "X"]
PROBES = [[n, INVOCABLE] for n in NAMES]


def full_ops():
    ops = [["add", k] for k in range(len(ALPHABET))] + [["replace", k] for k in range(len(ALPHABET))]
    ops += [["remove", ns, name] for ns in NAMESPACES for name in NAMES]
    ops += [["clear"], ["deploy"]]
    return ops


def reduced_ops():
    """19 operations: m0, m1 (same ns), m2 (same name), m3 (twin), m6 (unbuildable); exact, cross and absent removes."""
    ms = [0, 1, 2, 3, 6]
    ops = [["add", k] for k in ms] + [["replace", k] for k in ms]
    ops += [["remove", "nsA", "A"], ["remove", "nsA", "B"], ["remove", "nsC", "A"], ["remove", "nsA", "F"], ["remove", "nsC", "B"], ["remove", "nsF", "A"], ["remove", "nsX", "X"]]
    ops += [["clear"], ["deploy"]]
    return ops


def small_ops():
    """10 operations for the length-6 enumeration: m0, m1, m3(twin), m6(unbuildable)."""
    return [["add", 0], ["add", 1], ["add", 6], ["replace", 1], ["replace", 3], ["remove", "nsA", "A"], ["remove", "nsA", "F"], ["remove", "nsF", "B"], ["clear"], ["deploy"]]


def base_case(**kw):
    c = {"op": "ws", "models": MODELS_JSON, "probes": PROBES}
    c.update(kw)
    return c


def history_case(ops):
    return base_case(mode="history", history=ops)


def _harness_ok(res):
    if res is None or "harness_error" in res or res.get("missing"):
        raise runner.Inconclusive("driver reported a harness error: %s" % json.dumps(res)[:400])


class ValidModelDoesNotBuild(Exception):
    pass


def _check_alphabet(info):
    if len(info) != len(ALPHABET):
        raise runner.Inconclusive("driver saw %d models, expected %d" % (len(info), len(ALPHABET)))
    for m, i in zip(ALPHABET, info):
        if (i["ns"], i["name"]) != m.key:
            raise runner.Inconclusive("model %s parsed as %s/%s" % (m.id, i["ns"], i["name"]))
        if m.builds and not i["builds"]:
            # a well-formed model of the alphabet (it builds on the pinned tree; nothing in DMN forbids what it contains) is
            # rejected by ModelEvaluator::new: deploy keeps it out silently, so "evaluation is possible for the models present at
            # the last deploy" fails for a valid model. Reported, not folded into "inconclusive".
            raise ValidModelDoesNotBuild("model %s (namespace %s, name %s: %s) is well-formed but does not build: %s" % (m.id, m.key[0], m.key[1], m.xml[:600], i.get("build_err")))
        if bool(i["builds"]) != m.builds:
            raise runner.Inconclusive("precondition on the alphabet broken: model %s builds=%s (%s), the workload needs builds=%s" % (m.id, i["builds"], i.get("build_err"), m.builds))


class Ctx:
    """Collects violations per signature and keeps the SHORTEST history as the replay."""

    def __init__(self, rep):
        self.rep = rep
        self.found = {}

    def report(self, viols, hist_ops, obs, where):
        for sig, msg in viols:
            f = self.found.get(sig)
            if f is None:
                self.found[sig] = [1, list(hist_ops), msg, obs, where]
            else:
                f[0] += 1
                if len(hist_ops) < len(f[1]):
                    f[1:] = [list(hist_ops), msg, obs, where]

    def flush(self):
        for sig, (count, hist_ops, msg, obs, where) in sorted(self.found.items()):
            self.rep.violation(
                sig,
                "%s [history: %s] (%s; %d occurrences)" % (msg, wsmodel.show_history(hist_ops, ALPHABET), where, count),
                {"variant": "dbg", "case": history_case(hist_ops), "expected": "no violation of I1-I4 by the reference model", "observed": {"signature": sig, "last_observation": obs}},
            )
            self.rep.violations[sanitize_sig(sig)]["count"] = count


def _died(rep, res, what, case):
    if "panic" in res:
        rep.violation(panic_signature(res["panic"]) + ":" + what, "panic in %s: %s" % (what, res["panic"].get("msg")), {"variant": "dbg", "case": case})
        return True
    if "crash" in res:
        rep.violation(crash_signature(res, what), "driver died in %s: %s" % (what, json.dumps(res)[:400]), {"variant": "dbg", "case": case})
        return True
    if "timeout" in res:
        rep.inconclusive_reason("watchdog fired in %s" % what)
        return True
    return False


def _obs_panic(ctx, obs, hist_ops):
    if "panic" in obs:
        ctx.rep.violation(
            panic_signature(obs["panic"]) + ":workspace-" + str(obs.get("stage")),
            "panic during %s of the last operation [history: %s]: %s" % (obs.get("stage"), wsmodel.show_history(hist_ops, ALPHABET), obs["panic"].get("msg")),
            {"variant": "dbg", "case": history_case(hist_ops)},
        )
        return True
    return False


# ---------------------------------------------------------------------------------------------------
def check_bfs(ctx, res, ops):
    rep = ctx.rep
    states = res["states"]
    by_tag = {m.tag: m for m in ALPHABET}

    def to_state(st):
        tags = {}
        for (pname, _), p in zip(PROBES, st["t"]):
            k, text = wsmodel.parse_probe(p)
            if k == "ok":
                tags[pname] = text
        entries = []
        for ns, name in st["s"][0]:
            if name in tags and tags[name] in by_tag and by_tag[tags[name]].key == (ns, name):
                entries.append(Entry(ns, name, tags[name], True))
            else:
                cands = [m for m in ALPHABET if m.key == (ns, name) and not m.builds]
                if len(cands) == 1 and name not in tags:
                    entries.append(Entry(ns, name, cands[0].tag, False))
                else:
                    entries.append(Entry(ns, name, None, None))
        ev = {}
        for (pname, _), p in zip(PROBES, st["p"]):
            k, text = wsmodel.parse_probe(p)
            if k == "ok":
                ev[pname] = text
        for n in st["s"][3]:
            ev.setdefault(n, None)
        return State(entries, ev, frozenset())

    s0 = states[0]
    if s0["s"] != [[], [], [], []] or any("ok" in p for p in s0["p"]):
        rep.violation("I0:fresh-workspace-not-empty", "Workspace::new(None) is not empty: %s" % json.dumps(s0)[:300], {"variant": "dbg", "case": history_case([])})
    cache = {}
    n_trans = 0
    for fr, k, r, to in res["trans"]:
        hist = [ops[i] for i in states[fr]["h"]] + [ops[k]]
        if isinstance(r, dict) and "panic" in r:
            rep.violation(panic_signature(r["panic"]) + ":workspace-op", "panic in %s" % wsmodel.show_history(hist, ALPHABET), {"variant": "dbg", "case": history_case(hist)})
            continue
        if fr not in cache:
            cache[fr] = to_state(states[fr])
        pre = cache[fr]
        obs = {"r": r, "s": states[to]["s"], "p": states[to]["p"]}
        viols, _post = check_step(pre, ops[k], obs, ALPHABET, PROBES, content_probe=states[to]["t"])
        ctx.report(viols, hist, obs, "state walk, transition %d -%s-> %d" % (fr, k, to))
        rep.count()
        rep.seen(hash((pre.key(), k)))
        n_trans += 1
    n_cons = sum(1 for s in states if s["consistent"])
    n_exp = sum(1 for s in states if s["expanded"])
    rep.extra["bfs_states"] = len(states)
    rep.extra["bfs_states_self_consistent"] = n_cons
    rep.extra["bfs_states_expanded"] = n_exp
    rep.extra["bfs_transitions_checked"] = n_trans
    rep.extra["bfs_frontier_closed"] = bool(res["closed"]) and n_exp == n_cons
    rep.extra["bfs_longest_shortest_history"] = max(len(s["h"]) for s in states)
    rep.extra["bfs_operations"] = len(ops)
    return n_trans


def check_enum(ctx, res, case):
    """Nodes in depth-first pre-order; a stack of checker states follows the walk."""
    ops = case["ops"]
    otab = res["otab"]
    prefix = [ops[k] for k in case["prefix"]]
    st = State()
    hist = []
    for op, oid in zip(prefix, res["prefix_steps"]):
        obs = otab[oid]
        hist.append(op)
        if "panic" in obs:
            return 0  # reported by the case that enumerates this prefix as a node
        _, st = check_step(st, op, obs, ALPHABET, PROBES)
    if len(res["prefix_steps"]) != len(prefix):
        return 0
    stack = [st]
    path = []
    memo = {}
    nodes = res["nodes"]
    n = 0
    for i in range(0, len(nodes), 3):
        depth, k, oid = nodes[i], nodes[i + 1], nodes[i + 2]
        del stack[depth:]
        del path[depth - 1 :]
        path.append(k)
        pre = stack[depth - 1]
        obs = otab[oid]
        n += 1
        if "panic" in obs:
            _obs_panic(ctx, obs, prefix + [ops[j] for j in path])
            stack.append(pre)
            continue
        mk = (pre.key(), k, oid)
        hit = memo.get(mk)
        if hit is None:
            hit = check_step(pre, ops[k], obs, ALPHABET, PROBES)
            memo[mk] = hit
            ctx.rep.seen(hash((mk[0], json.dumps(ops[k]))))
        viols, post = hit
        if viols:
            ctx.report(viols, prefix + [ops[j] for j in path], obs, "exhaustive enumeration")
        stack.append(post)
    ctx.rep.count(n)
    return n


def check_batch(ctx, res, case, memo):
    ops = case["ops"]
    otab = res["otab"]
    n = 0
    for h, run in zip(case["histories"], res["runs"]):
        st = State()
        for j, oid in enumerate(run):
            obs = otab[oid]
            k = h[j]
            n += 1
            if "panic" in obs:
                _obs_panic(ctx, obs, [ops[i] for i in h[: j + 1]])
                break
            mk = (st.key(), k, json.dumps(obs, sort_keys=True))
            hit = memo.get(mk)
            if hit is None:
                hit = check_step(st, ops[k], obs, ALPHABET, PROBES)
                memo[mk] = hit
                ctx.rep.seen(hash((mk[0], json.dumps(ops[k]))))
            viols, st = hit
            if viols:
                ctx.report(viols, [ops[i] for i in h[: j + 1]], obs, "random history")
        else:
            if len(run) != len(h):
                raise runner.Inconclusive("driver returned %d observations for a history of %d operations" % (len(run), len(h)))
    ctx.rep.count(n)
    return n


def random_history(rng, ops, groups):
    n = rng.randint(7, 40)
    out = []
    for _ in range(n):
        x = rng.random()
        if x < 0.32:
            g = "add"
        elif x < 0.50:
            g = "replace"
        elif x < 0.80:
            g = "remove"
        elif x < 0.95:
            g = "deploy"
        else:
            g = "clear"
        out.append(rng.choice(groups[g]))
    return out


def run(rep, tier, seed):
    rep.rule = (
        "alphabet of 7 models (base nsA/A; same namespace other name; other namespace same name; identical twin with other content; "
        "disjoint; namespace string = the base's NAME and name = the base's NAMESPACE; one that parses but fails to build) and 52 operations "
        "(add x7, replace x7, remove over all 6x6 (namespace,name) pairs incl. exact, cross and absent, clear, deploy). A case is a "
        "(checker state before, operation) pair; every such pair is non-trivial (the empty workspace with each operation included once)."
    )
    rep.assumptions = [
        "the verif_snapshot hook reports the four private collections faithfully (it only reads them)",
        "content of a stored model is observed through the constant its decision D returns after a deploy",
        "where the statement leaves the outcome open (a stored model sharing exactly ONE key with remove's pair or with a replaced model may stay or go; "
        "evaluators may be kept or dropped by an operation that changed nothing) every permitted outcome is accepted",
        "the state walk does not expand states whose indexes no longer describe the list (histories are covered up to their first I1 violation)",
    ]
    ctx = Ctx(rep)
    ops_full = full_ops()
    ops_red = reduced_ops()
    ops_small = small_ops()
    cases = []
    kinds = []
    # (a) state walk
    cases.append({"op": "wsbfs", "models": MODELS_JSON, "probes": PROBES, "ops": ops_full, "max_states": 60000, "expand_inconsistent": False})
    kinds.append("bfs")
    # (b) literal enumeration, sharded by prefix
    enum_plan = [(ops_red, 4 if tier == "quick" else 5, 2)]
    if tier != "quick":
        enum_plan.append((ops_small, 6, 2))
    expected_nodes = 0
    for ops, length, plen in enum_plan:
        cases.append(base_case(mode="enum", ops=ops, prefix=[], depth=plen))
        kinds.append("enum")
        expected_nodes += sum(len(ops) ** d for d in range(1, plen + 1))
        for a in range(len(ops)):
            for b in range(len(ops)):
                cases.append(base_case(mode="enum", ops=ops, prefix=[a, b], depth=length - plen))
                kinds.append("enum")
        expected_nodes += sum(len(ops) ** d for d in range(plen + 1, length + 1))
    # (c) random histories
    rng = rng_for(seed, "c17-random")
    groups = {"add": [], "replace": [], "remove": [], "deploy": [], "clear": []}
    for k, op in enumerate(ops_full):
        groups[op[0]].append(k)
    n_hist = 6000 if tier == "quick" else 60000
    per_case = 250
    hs = [random_history(rng, ops_full, groups) for _ in range(n_hist)]
    for i in range(0, n_hist, per_case):
        cases.append(base_case(mode="batch", ops=ops_full, histories=hs[i : i + per_case]))
        kinds.append("batch")
    results, _ = runner.run_cases("dbg", cases, rep.workdir, label="ws", case_timeout=600.0)
    n_enum = 0
    n_rand_steps = 0
    bfs_trans = 0
    memo = {}
    checked_alphabet = False
    for case, kind, res in zip(cases, kinds, results):
        _harness_ok(res)
        if _died(rep, res, "workspace-" + kind, case):
            continue
        if not checked_alphabet:
            try:
                _check_alphabet(res["models"])
            except ValidModelDoesNotBuild as e:
                rep.count(len(ALPHABET))
                rep.violation("valid-model-of-the-alphabet-does-not-build", str(e), {"variant": "dbg", "case": case})
                return
            checked_alphabet = True
        if kind == "bfs":
            bfs_trans = check_bfs(ctx, res, ops_full)
        elif kind == "enum":
            n_enum += check_enum(ctx, res, case)
        else:
            n_rand_steps += check_batch(ctx, res, case, memo)
    rep.extra["enumerated_histories"] = n_enum
    rep.extra["enumerated_histories_expected"] = expected_nodes
    rep.extra["enumeration"] = ["all histories of length 1..%d over %d operations" % (length, len(ops)) for ops, length, _ in enum_plan]
    rep.extra["random_histories"] = n_hist
    rep.extra["random_history_steps"] = n_rand_steps
    rep.extra["exhaustive"] = bool(rep.extra.get("bfs_frontier_closed")) and n_enum == expected_nodes
    ctx.flush()
    rep.sample({"random history": wsmodel.show_history([ops_full[k] for k in hs[0]], ALPHABET)})
    rep.sample({"models": [repr(m) + ("" if m.builds else " (fails to build)") for m in ALPHABET]})
    # observation floors
    if not rep.extra.get("bfs_frontier_closed"):
        rep.inconclusive_reason("state walk did not close its frontier (states=%s)" % rep.extra.get("bfs_states"))
    if bfs_trans < 500:
        rep.inconclusive_reason("state walk checked only %d transitions" % bfs_trans)
    if n_enum != expected_nodes and not any(s.startswith("panic") or s.startswith("abort") for s in rep.violations):
        rep.inconclusive_reason("enumeration observed %d histories, expected %d" % (n_enum, expected_nodes))
    if n_rand_steps < 7 * n_hist * 0.9:
        rep.inconclusive_reason("random histories observed only %d steps" % n_rand_steps)


def replay(rp):
    """Re-executes the recorded history and re-checks it with the reference model."""
    r = rp.get("replay") or {}
    case = r.get("case")
    if not case or case.get("mode", "history") != "history":
        print("replay file carries no history case")
        return 3
    res, _ = runner.run_single(r.get("variant", "dbg"), case, runner.WORK + "/replay", label="replay-c17")
    _harness_ok(res)
    print("history  :", wsmodel.show_history(case["history"], ALPHABET))
    if "steps" not in res:
        print("observed :", json.dumps(res)[:2000])
        print("VIOLATION property=C17 replay=<replayed>")
        return 1
    st = State()
    found = []
    for op, obs in zip(case["history"], res["steps"]):
        print("  %-28s -> r=%s list=%s by_ns=%s by_name=%s evaluators=%s" % (wsmodel.show_history([op], ALPHABET), obs.get("r"), obs.get("s", [None] * 4)[0], obs.get("s", [None] * 4)[1], obs.get("s", [None] * 4)[2], obs.get("s", [None] * 4)[3]))
        if "panic" in obs:
            found.append((panic_signature(obs["panic"]), obs["panic"].get("msg")))
            break
        viols, st = check_step(st, op, obs, ALPHABET, PROBES)
        for v in viols:
            print("    !! %s: %s" % v)
        found.extend(viols)
    print("expected :", r.get("expected"))
    print("recorded :", rp.get("signature"))
    if any(sanitize_sig(s) == rp.get("signature") for s, _ in found):
        print("VIOLATION property=C17 replay=<replayed>")
        return 1
    print("replay no longer reproduces the recorded signature (violations now: %s)" % [s for s, _ in found])
    return 0
