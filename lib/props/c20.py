"""C20 — a deployed model may be evaluated from many threads with per-call results intact.

Monitor: driver op `threads` (harness/src/ops_threads.rs): shared Arc<ModelEvaluator>, sequential
expectations, N threads behind a start barrier running seeded call permutations with seeded yields /
spins / sleeps injected through the model-evaluator verification hook between lock acquisitions,
logical-clock event log, rendezvous of K evaluations inside the evaluator, poison probe, cross-talk
tags. Builds: dbg (values, progress) and tsan with the decNumber C sources instrumented (data races).
"""
import json
import re

import gdrg
import rfeel
import runner
from common import crash_signature, panic_signature, rng_for

LEVEL = "exploration"

MODEL_B = """<?xml version="1.0" encoding="UTF-8"?>
<definitions namespace="https://verif/c20b" name="c20b" id="_defs" xmlns="https://www.omg.org/spec/DMN/20191111/MODEL/">
<inputData name="Txt" id="_Txt"><variable name="Txt" typeRef="string"/></inputData>
<inputData name="Num" id="_Num"><variable name="Num" typeRef="number"/></inputData>
<inputData name="Day" id="_Day"><variable name="Day" typeRef="string"/></inputData>
<decision name="Regex" id="_Regex"><variable name="Regex"/>
<informationRequirement><requiredInput href="#_Txt"/></informationRequirement>
<literalExpression><text>[matches(Txt, "^[a-z]+[0-9]*$"), replace(Txt, "[aeiou]", "#"), split(Txt, "[0-9]"), string length(Txt)]</text></literalExpression>
</decision>
<decision name="RxPlain" id="_RxPlain"><variable name="RxPlain"/>
<informationRequirement><requiredInput href="#_Txt"/></informationRequirement>
<literalExpression><text>[replace(Txt, ".", "*"), replace(Txt, "A", "b"), replace(Txt, "a+", "+"), matches(Txt, "ABC"), matches(Txt, "a.c"), matches(Txt, "h E"), split(Txt, "B"), split(Txt, "."), substring(Txt, 2), number(Txt + "1,5", ".", ",")]</text></literalExpression>
</decision>
<decision name="RxFlags" id="_RxFlags"><variable name="RxFlags"/>
<informationRequirement><requiredInput href="#_Txt"/></informationRequirement>
<literalExpression><text>[replace(Txt, ".", "*", "q"), replace(Txt, "A", "b", "i"), replace(Txt, "a+", "+", "q"), matches(Txt, "ABC", "i"), matches(Txt, "a.c", "s"), matches(Txt, "h E", "xi"), split(Txt, "b"), split(Txt, "[.]"), substring(Txt, 2, 1), number(Txt + "1,5", ",", ".")]</text></literalExpression>
</decision>
<decision name="Numeric" id="_Numeric"><variable name="Numeric"/>
<informationRequirement><requiredInput href="#_Num"/></informationRequirement>
<literalExpression><text>[decimal(Num / 3, 10), Num ** 2, sqrt(Num * Num), exp(1) * Num, log(Num * Num + 1), modulo(Num, 7), Num * 1.000000000000000000000000000000001]</text></literalExpression>
</decision>
<decision name="Temporal" id="_Temporal"><variable name="Temporal"/>
<informationRequirement><requiredInput href="#_Day"/></informationRequirement>
<literalExpression><text>[string(date(Day)), date(Day).weekday, string(date and time(Day + "T10:00:00@Europe/Warsaw") - date and time("2020-01-01T00:00:00Z")), date and time(Day + "T12:00:00@America/New_York").time offset, years and months duration(date("2000-02-29"), date(Day))]</text></literalExpression>
</decision>
<decision name="Zones" id="_Zones"><variable name="Zones"/>
<informationRequirement><requiredInput href="#_Day"/></informationRequirement>
<literalExpression><text>[date and time(Day + "T02:30:00@Europe/Warsaw") = date and time(Day + "T01:30:00Z"), date and time(Day + "T02:30:00@America/New_York") = date and time(Day + "T07:30:00Z"), date and time(Day + "T01:30:00@America/New_York") in [date and time(Day + "T00:00:00Z")..date and time(Day + "T23:00:00Z")], string(date and time(Day + "T02:30:00@Europe/Warsaw") - date and time(Day + "T02:30:00@Asia/Tokyo")), date and time(Day + "T02:30:00@Europe/Warsaw").time offset, date and time(Day + "T02:30:00@Australia/Lord_Howe").time offset, date and time(Day + "T12:00:00@Pacific/Apia") = date and time(Day + "T12:00:00@Pacific/Apia")]</text></literalExpression>
</decision>
<decision name="Iter" id="_Iter"><variable name="Iter"/>
<informationRequirement><requiredInput href="#_Num"/></informationRequirement>
<informationRequirement><requiredInput href="#_Txt"/></informationRequirement>
<literalExpression><text>[for i in 1..(modulo(floor(Num), 7) + 2) return i * i, for i in 1..3, j in [Num, 2] return i * j, some x in [1, 2, 3] satisfies x > modulo(floor(Num), 3), every x in [1, 2, 3] satisfies x > modulo(floor(Num), 3), [1, 2, 3, 4, 5][item > modulo(floor(Num), 5)], [{a: 1, b: Txt}, {a: Num, b: "q"}][a > 1].b, sort([Num, 3, 1000], function(a, b) a &lt; b), {a: Num, b: a + 1, c: [a, b]}.c, (function(p, q) p - q)(q: 1, p: Num), if Num > 500000 then "big" else Txt, Num in [1..500000], Num between 10 and 1000, string length(Txt) instance of number]</text></literalExpression>
</decision>
<businessKnowledgeModel name="Sum to" id="_SumTo"><variable name="Sum to"/>
<encapsulatedLogic><formalParameter name="n" typeRef="number"/>
<literalExpression><text>if n &lt;= 0 then 0 else n + Sum to(n - 1)</text></literalExpression></encapsulatedLogic>
</businessKnowledgeModel>
<decision name="Deep" id="_Deep"><variable name="Deep"/>
<informationRequirement><requiredInput href="#_Num"/></informationRequirement>
<knowledgeRequirement><requiredKnowledge href="#_SumTo"/></knowledgeRequirement>
<literalExpression><text>[Sum to(40 + modulo(floor(Num), 20)), {f: function(k) if k &lt;= 0 then 0 else 1 + f(k - 1), r: f(45)}.r]</text></literalExpression>
</decision>
<decision name="All" id="_All"><variable name="All"/>
<informationRequirement><requiredDecision href="#_Regex"/></informationRequirement>
<informationRequirement><requiredDecision href="#_Numeric"/></informationRequirement>
<informationRequirement><requiredDecision href="#_Temporal"/></informationRequirement>
<knowledgeRequirement><requiredKnowledge href="#_Pick"/></knowledgeRequirement>
<context>
<contextEntry><variable name="first"/><literalExpression><text>Pick(Regex, 2)</text></literalExpression></contextEntry>
<contextEntry><variable name="second"/><literalExpression><text>Pick(Numeric, 1)</text></literalExpression></contextEntry>
<contextEntry><variable name="third"/><literalExpression><text>Pick(Temporal, 1)</text></literalExpression></contextEntry>
</context>
</decision>
<businessKnowledgeModel name="Pick" id="_Pick"><variable name="Pick"/>
<encapsulatedLogic><formalParameter name="items"/><formalParameter name="pos" typeRef="number"/>
<literalExpression><text>items[pos]</text></literalExpression></encapsulatedLogic>
</businessKnowledgeModel>
<itemDefinition name="tCur"><typeRef>string</typeRef><allowedValues><text>"CHF", "EUR", "USD"</text></allowedValues></itemDefinition>
<itemDefinition name="tLvl"><typeRef>number</typeRef><allowedValues><text>[1..5], 10</text></allowedValues></itemDefinition>
<itemDefinition name="tCurs" isCollection="true"><typeRef>tCur</typeRef></itemDefinition>
<itemDefinition name="tRec"><itemComponent name="cur"><typeRef>tCur</typeRef></itemComponent><itemComponent name="lvl"><typeRef>tLvl</typeRef></itemComponent><itemComponent name="free"><typeRef>string</typeRef></itemComponent></itemDefinition>
<inputData name="Cur" id="_Cur"><variable name="Cur" typeRef="tCur"/></inputData>
<inputData name="Lvl" id="_Lvl"><variable name="Lvl" typeRef="tLvl"/></inputData>
<inputData name="Curs" id="_Curs"><variable name="Curs" typeRef="tCurs"/></inputData>
<inputData name="Rec" id="_Rec"><variable name="Rec" typeRef="tRec"/></inputData>
<decision name="Typed" id="_Typed"><variable name="Typed"/>
<informationRequirement><requiredInput href="#_Cur"/></informationRequirement>
<informationRequirement><requiredInput href="#_Lvl"/></informationRequirement>
<informationRequirement><requiredInput href="#_Curs"/></informationRequirement>
<informationRequirement><requiredInput href="#_Rec"/></informationRequirement>
<literalExpression><text>["settle in " + Cur, Lvl * 2, Curs, Rec.cur, Rec.lvl, Rec.free]</text></literalExpression>
</decision>
<decision name="TypedOut" id="_TypedOut"><variable name="TypedOut" typeRef="tCur"/>
<informationRequirement><requiredInput href="#_Cur"/></informationRequirement>
<literalExpression><text>Cur</text></literalExpression>
</decision>
<decision name="ViaSvc" id="_ViaSvc"><variable name="ViaSvc"/>
<informationRequirement><requiredInput href="#_Txt"/></informationRequirement>
<informationRequirement><requiredInput href="#_Num"/></informationRequirement>
<informationRequirement><requiredInput href="#_Day"/></informationRequirement>
<knowledgeRequirement><requiredKnowledge href="#_Svc"/></knowledgeRequirement>
<knowledgeRequirement><requiredKnowledge href="#_Pick"/></knowledgeRequirement>
<literalExpression><text>[Svc(Txt, Num, Day), Pick([Num, Txt], 2), Svc(Txt: "abc123", Num: 2, Day: Day).second]</text></literalExpression>
</decision>
<decisionService name="Svc" id="_Svc"><variable name="Svc"/>
<outputDecision href="#_All"/>
<encapsulatedDecision href="#_Regex"/><encapsulatedDecision href="#_Numeric"/><encapsulatedDecision href="#_Temporal"/>
<inputData href="#_Txt"/><inputData href="#_Num"/><inputData href="#_Day"/>
</decisionService>
</definitions>"""


def build_workload(rng):
    models, calls, services = [], [], [[0, "Svc"], [0, "Iter"], [0, "Deep"], [0, "RxPlain"], [0, "RxFlags"], [0, "Zones"], [0, "Typed"], [0, "TypedOut"], [0, "ViaSvc"]]
    models.append(MODEL_B)
    txts = ["abc123", "hello", "x9y8z7", "żółć", "aeiou", "UPPER", "a1", "", "a.c", "A\nbC", "aa.b+"]
    # among them days on which a named zone skips or repeats an hour (the local times of `Zones` then do not exist or are ambiguous)
    days = ["2021-03-27", "2020-02-29", "1999-12-31", "2021-10-31", "2024-07-15", "2021-03-28", "2021-03-14", "2021-11-07", "2011-12-30", "2021-10-03"]
    for k in range(14):
        inp = [["Txt", {"s": rng.choice(txts)}], ["Num", {"n": str(rng.randint(1, 10 ** 6)) + "." + str(rng.randint(0, 999))}], ["Day", {"s": rng.choice(days)}]]
        for inv in ("Regex", "RxPlain", "RxFlags", "Numeric", "Temporal", "Zones", "Iter", "Deep", "All", "Svc", "ViaSvc"):
            calls.append([0, inv, inp])
        # inputs typed by item definitions with allowed values (alone, as items of a collection, as components): values inside and outside
        curs, lvls = ["CHF", "EUR", "USD", "GBP", "chf", ""], ["1", "3", "5", "10", "0", "6", "2.5"]
        tinp = [["Cur", {"s": rng.choice(curs)}], ["Lvl", {"n": rng.choice(lvls)}], ["Curs", [{"s": rng.choice(curs)} for _ in range(rng.randint(0, 4))]],
                ["Rec", {"c": [["cur", {"s": rng.choice(curs)}], ["lvl", {"n": rng.choice(lvls)}], ["free", {"s": rng.choice(txts)}]]}]]
        calls.append([0, "Typed", tinp])
        calls.append([0, "TypedOut", tinp])
    # more distinct arguments for the numeric built-ins than a small memo or pool would hold (they recur in every phase)
    for k in range(30):
        calls.append([0, "Numeric", [["Num", {"n": str(rng.randint(1, 10 ** 6)) + "." + str(rng.randint(0, 999))}]]])
    # generated graphs: nested decisions + BKMs + services + tables (read locks nest several levels deep)
    for k, shape in enumerate(["mixed", "service-and-direct", "bkm-chain"]):
        m = None
        for attempt in range(20):
            g = gdrg.G(rng)
            cand = g.model(100 + k * 20 + attempt, shape)
            if not any(d["kind"] == "function" and d.get("captures") for d in cand["decisions"]):
                m = cand
                break
        if m is None:
            continue
        models.append(gdrg.to_xml(m))
        mi = len(models) - 1
        invocables = [d["name"] for d in m["decisions"]] + [s["name"] for s in m["services"]]
        services += [[mi, s["name"]] for s in m["services"]]
        for inv in invocables:
            for j in range(4):
                inp = [[i["name"], rfeel.to_json(rfeel.num(rng.choice(gdrg.NUMS)) if i["type"] == "number" else rng.choice(gdrg.STRS))] for i in m["inputs"]]
                calls.append([mi, inv, inp])
    return models, calls, services


def corpus(rep):
    """the repository's own example models that build and do not read the clock: [(name, xml, calls)] with every invocable
    called with three of the sample input contexts of lib/xmlfault (typed values for the input data; the same plus the
    decisions' and parameters' names; the same names with wrongly typed leaves)"""
    import os
    import xmlfault as xf

    root = os.path.join(os.environ.get("VERIF_REPO") or "/repo", "examples")
    found = []
    for d, dirs, files in os.walk(root):
        dirs.sort()
        for f in sorted(files):
            if f.endswith(".dmn"):
                with open(os.path.join(d, f), encoding="utf-8", errors="replace") as fh:
                    text = fh.read()
                if re.search(r"\b(now|today)\s*\(", text) or len(text) > 400000:
                    continue
                found.append((os.path.relpath(os.path.join(d, f), root), text))
    probes = [{"op": "model", "xml": text, "all": False} for _, text in found]
    res, _ = runner.run_cases("dbg", probes, rep.workdir, label="corpus-probe", case_timeout=120)
    out = []
    for (name, text), r in zip(found, res):
        if not isinstance(r, dict) or not r.get("invocables"):
            continue
        try:
            inputs = xf.sample_inputs(xf.parse(text))
        except Exception:
            continue
        calls = [[inv, inp] for inv in r["invocables"] for inp in (inputs[1], inputs[2], inputs[3])]
        out.append((name, text, calls))
    return out


def run(rep, tier, seed):
    reps = 40 if tier == "quick" else 1500
    tsan_reps = 4 if tier == "quick" else 40
    rep.rule = (
        "%d repetitions (thread counts 2, 3, 4, 8, 16 in turn; 60-400 calls per thread) of seeded call permutations over 4 shared evaluators (regular-expression decisions incl. two that use the same patterns with and without flags / optional arguments, numeric, temporal-with-zones decisions incl. local times that a zone skips or repeats, a decision made of for / some / every / filter / sort / function literal / context / named invocation / if / in / between / instance of, a decision that recurses 40-60 levels deep through a knowledge model and through a function literal, "
        "a boxed context using a knowledge model, a decision service, a decision that calls that service as a function (knowledge requirement); generated graphs with nested decisions, BKM chains, tables and services) plus a rotating window of the repository's own example models (every invocable, three input contexts each), with seeded yields / spins / sleeps at the hook between lock "
        "acquisitions; then 6 hammer rounds per repetition (all threads call one invocable with 2-4 alternating inputs, identical inputs recurring, no delays); each repetition ends with 3 rendezvous rounds (K = thread count evaluations held inside the evaluator at once); %d repetitions on the ThreadSanitizer build. Distinct = order signature of "
        "the logical-clock event log; non-trivial = repetition in which calls of different threads overlapped." % (reps, tsan_reps)
    )
    rep.assumptions = [
        "only the interleavings that occurred are covered; injected delays and the rendezvous raise the odds, TSan covers races among the accesses that were executed",
        "termination is decided as bounded progress: the rendezvous gate waits at most 20 s and a repetition at most 180 s for a workload that takes about a second",
    ]
    rng = rng_for(seed, "c20")
    models, calls, services = build_workload(rng)
    shipped = corpus(rep)
    rep.extra["shipped_models_shared"] = len(shipped)
    window = 4 if tier == "quick" else 3
    cases = []
    for r in range(reps):
        n = [2, 3, 4, 8, 16][r % 5]
        # a rotating window of the repository's example models joins the fixed ones (all of them are covered after
        # len(shipped) / window repetitions)
        models_r, calls_r = list(models), list(calls)
        for k in range(window if shipped else 0):
            name, text, mcalls = shipped[(r * window + k) % len(shipped)]
            models_r.append(text)
            calls_r += [[len(models_r) - 1, inv, inp] for inv, inp in mcalls]
        cases.append({"op": "threads", "models": models_r, "calls": calls_r, "threads": n, "per_thread": rng.choice([60, 120, 400]) if n <= 8 else 60, "seed": rng.randint(1, 2 ** 48), "rendezvous": n, "gate_timeout_ms": 20000, "hammer_rounds": 6, "hammer_calls": 300 if n <= 8 else 150, "hammer_keys": rng.choice([2, 3, 4]), "hammer_prefer": services, "cold_rounds": 2 * len(models_r), "cold_steps": 16})
    results, meta = runner.run_cases("dbg", cases, rep.workdir, label="threads", nshards=4, case_timeout=180)
    sigs = set()
    total_calls = total_pairs = 0
    hammer_calls = 0
    cold_calls = cold_first = 0
    hammer_targets = set()
    max_conc = 0
    rv_reached = rv_rounds = 0
    for case, res in zip(cases, results):
        one = {"variant": "dbg", "case": case}
        if "harness_error" in res or res.get("missing"):
            raise runner.Inconclusive("driver harness error: %s" % json.dumps(res)[:300])
        if "timeout" in res:
            res2, _ = runner.run_single("dbg", case, rep.workdir, label="alone", case_timeout=300)
            if "calls" not in res2:
                rep.violation("no-progress:threads=%d" % case["threads"], "concurrent evaluation did not finish (twice; 300 s alone): %s" % json.dumps(res2)[:300], one)
                continue
            res = res2
        if "panic" in res:
            rep.violation(panic_signature(res["panic"]), "panic in the threaded run: %s" % res["panic"].get("msg"), one)
            continue
        if "panic_in_single_call" in res:
            rep.violation("panic-in-single-call", "a call made alone on a fresh evaluator panicked: %s" % res["panic_in_single_call"], one)
            continue
        if "calls" not in res:
            rep.violation(crash_signature(res, "c20"), "threaded run died: %s" % json.dumps(res)[:400], one)
            continue
        if not res.get("hook_installed"):
            raise runner.Inconclusive("the model-evaluator verification hook is not compiled in")
        rep.count(res["calls"] + res.get("hammer_calls", 0) + res.get("cold_calls", 0))
        total_calls += res["calls"]
        hammer_calls += res.get("hammer_calls", 0)
        hammer_targets.update(res.get("hammer_targets", []))
        total_pairs += res["overlapping_pairs"]
        max_conc = max(max_conc, res["max_inside_hook"], res["max_overlap_logical"])
        if res["overlapping_pairs"] > 0:
            sigs.add(res["order_signature"])
        for sd in res.get("sequential_differs", [])[:1]:
            rep.violation("result-depends-on-earlier-calls", "a call on the shared evaluator, made in sequence after other calls, differs from the same call made alone on a fresh evaluator: %s" % json.dumps(sd)[:400], dict(one, expected=sd.get("expected"), observed=sd.get("observed")))
        cold_calls += res.get("cold_calls", 0)
        cold_first += res.get("cold_first_evaluations", 0)
        if res.get("cold_mismatches"):
            m = res["cold_mismatches"][0]
            rep.violation("result-differs-from-sequential:cold-start", "first evaluations of an invocable made by several threads at once on a fresh evaluator: %s" % json.dumps(m)[:400], dict(one, expected=m.get("expected"), observed=m.get("observed")))
        if res["mismatch_count"] and res["mismatches"]:
            m = res["mismatches"][0]
            rep.violation("result-differs-from-sequential", "%d of %d concurrent calls differ from the result of the same call made alone, e.g. %s" % (res["mismatch_count"], res["calls"] + res.get("hammer_calls", 0), json.dumps(m)[:400]), dict(one, expected=m.get("expected"), observed=m.get("observed")))
        if res["thread_panics"]:
            rep.violation("thread-panicked", "%d worker threads panicked" % res["thread_panics"], one)
        if res["poisoned"]:
            rep.violation("lock-poisoned", "a lock of the model evaluator is poisoned after the run", one)
        for c in res["crosstalk"][:3]:
            rep.violation("cross-talk", c, one)
        for rd in res["rendezvous"] or []:
            rv_rounds += 1
            if rd["reached"] >= rd["wanted"]:
                rv_reached += 1
            else:
                rep.violation("rendezvous-not-reached", "only %d of %d evaluations could be inside the evaluator at once (gate timeouts: %d): evaluation does not hold shared locks only" % (rd["reached"], rd["wanted"], rd["gate_timeouts"]), one)
            if rd["results_ok"] != rd["wanted"]:
                rep.violation("result-differs-from-sequential:rendezvous", "%d of %d results correct in a rendezvous round" % (rd["results_ok"], rd["wanted"]), one)
        if len(rep.samples) < 3:
            rep.sample({k: res[k] for k in ("calls", "overlapping_pairs", "max_overlap_logical", "max_inside_hook", "order_signature", "rendezvous", "hook_events")})
    rep.distinct = sigs
    rep.extra.update({"call_events": total_calls, "overlapping_call_pairs": total_pairs, "max_observed_concurrency": max_conc, "distinct_overlap_signatures": len(sigs), "rendezvous_rounds": rv_rounds, "rendezvous_reached": rv_reached,
                      "models": len(models) + len(shipped), "distinct_calls": len(calls) + sum(len(c) for _, _, c in shipped), "hammer_calls_identical_inputs": hammer_calls, "cold_start_calls": cold_calls, "cold_start_first_evaluations_made_concurrently": cold_first, "hammer_invocables_covered": len(hammer_targets)})
    # ---- ThreadSanitizer ----
    try:
        runner.build("tsan")
        tcases = []
        for r in range(tsan_reps):
            n = [4, 8, 2, 16][r % 4]
            tcases.append({"op": "threads", "models": models, "calls": calls, "threads": n, "per_thread": 40, "seed": rng.randint(1, 2 ** 48), "rendezvous": min(n, 4), "gate_timeout_ms": 60000, "hammer_rounds": 3, "hammer_calls": 40, "hammer_keys": 2, "hammer_prefer": services, "cold_rounds": len(models), "cold_steps": 8})
        tres, tmeta = runner.run_cases("tsan", tcases, rep.workdir, label="tsan", nshards=2, case_timeout=600)
        races = {}
        for text in tmeta["sanitizer_reports"]:
            for block in re.split(r"(?=WARNING: ThreadSanitizer)", text):
                if "ThreadSanitizer" not in block:
                    continue
                kind = re.search(r"ThreadSanitizer: ([a-zA-Z -]+)", block)
                frames = re.findall(r"#\d+ (\S*(?:dmntk|dec[A-Z]|decNumber|decimal)\S*)", block)
                frames = [re.sub(r"::h[0-9a-f]{16}$", "", f) for f in frames if "verif_driver" not in f]
                key = "tsan:%s:%s" % ((kind.group(1).strip().replace(" ", "-") if kind else "report"), "|".join(frames[:2]) or "no-dmntk-frame")
                races.setdefault(key, block[:1500])
        for key, block in races.items():
            if "no-dmntk-frame" in key:
                rep.bump("tsan_reports_without_dmntk_frames")
                continue
            rep.violation(key, block, {"variant": "tsan", "case": tcases[0]})
        ok = 0
        for case, res in zip(tcases, tres):
            if "calls" in res:
                ok += 1
                rep.count(res["calls"])
                if res["mismatch_count"]:
                    rep.violation("result-differs-from-sequential:tsan", "%d calls differ, e.g. %s" % (res["mismatch_count"], json.dumps((res["mismatches"] + res.get("cold_mismatches", []))[:1])[:400]), {"variant": "tsan", "case": case})
            elif "crash" in res and "ThreadSanitizer" in (res["crash"].get("stderr") or ""):
                rep.violation("tsan:fatal", res["crash"]["stderr"][-1500:], {"variant": "tsan", "case": case})
        rep.extra["tsan_repetitions_completed"] = ok
        rep.extra["tsan_distinct_reports"] = len(races)
    except runner.Inconclusive as e:
        print("NOTE property=C20 ThreadSanitizer build unavailable, race detection skipped: %s" % str(e)[:300])
        rep.extra["tsan_unavailable"] = str(e)[:300]
    if total_pairs == 0 or max_conc < 2 or rv_reached == 0:
        rep.inconclusive_reason("no concurrency observed (pairs=%d, max=%d, rendezvous=%d)" % (total_pairs, max_conc, rv_reached))
