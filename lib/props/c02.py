"""C02 — FEEL numbers compute as IEEE 754-2008 decimal128 (34 digits, half-even); null instead of
non-finite. Oracle: CPython decimal (libmpdec) configured as decimal128 + exact Fraction arithmetic.
Observation points: FeelNumber operators/methods directly (op `num`) and the same operations as FEEL
expressions over names bound to the operands (op `evalmany`). Builds: dbg, asan (C sources
instrumented), valgrind memcheck on a slice in the thorough tier.
"""
import decimal
import sys

sys.set_int_max_str_digits(0)
import json
import os
import subprocess
from decimal import Decimal
from fractions import Fraction

import runner
from common import chunks, crash_signature, panic_signature, rng_for, warm

LEVEL = "exploration"

CTX = decimal.Context(prec=34, rounding=decimal.ROUND_HALF_EVEN, Emax=6144, Emin=-6143, clamp=1, traps=[])
ETINY = -6176

NULL = "null"  # expected marker: result undefined / out of range
UNDECIDED = "undecided"


def dec(s):
    return decimal.Decimal(s)


def frac(d):
    return Fraction(d)


def round_frac(q):
    """one correct rounding (half-even) of an exact rational to decimal128; None when out of range"""
    if q == 0:
        return Decimal(0)
    sign = -1 if q < 0 else 1
    q = abs(q)
    # find adjusted exponent e with 10^e <= q < 10^(e+1)
    n, d = q.numerator, q.denominator
    e = len(str(n)) - len(str(d))
    if Fraction(10) ** e > q:
        e -= 1
    elif Fraction(10) ** (e + 1) <= q:
        e += 1
    exp = max(e - 33, ETINY)
    scaled = q / (Fraction(10) ** exp)
    fl = scaled.numerator // scaled.denominator
    rem = scaled - fl
    if rem > Fraction(1, 2) or (rem == Fraction(1, 2) and fl % 2 == 1):
        fl += 1
    r = Decimal(fl).scaleb(exp, context=decimal.Context(prec=80, Emax=999999, Emin=-999999))
    if sign < 0:
        r = r.copy_negate()
    if r != 0 and r.adjusted() > 6144:
        return None
    return r


def ulp_of(d):
    if d == 0:
        return Decimal(1).scaleb(ETINY)
    return Decimal(1).scaleb(max(d.adjusted() - 33, ETINY))


def expected(op, a, b):
    """returns (kind, value): kind in exact | ulp2 | null | under | undecided | bool"""
    CTX.clear_flags()
    A = dec(a)
    B = dec(b) if b is not None else None
    f = CTX.flags

    def fin(r, inexact_tol=False):
        if f[decimal.InvalidOperation] or f[decimal.DivisionByZero] or f[decimal.Overflow] or not r.is_finite():
            return ("null", None)
        if f[decimal.Underflow] or (f[decimal.Subnormal] and f[decimal.Inexact]):
            return ("under", r)
        if inexact_tol and f[decimal.Inexact]:
            return ("ulp2", r)
        return ("exact", r)

    if op == "add":
        return fin(CTX.add(A, B))
    if op == "sub":
        return fin(CTX.subtract(A, B))
    if op == "mul":
        return fin(CTX.multiply(A, B))
    if op == "div":
        if B == 0:
            return ("null", None)
        return fin(CTX.divide(A, B))
    if op == "pow":
        if A == 0 and B == 0:
            return ("null", None)
        try:
            r = CTX.power(A, B)
        except Exception:
            return ("undecided", None)
        return fin(r, inexact_tol=True)
    if op == "neg":
        return ("exact", A.copy_negate())
    if op == "abs":
        return ("exact", A.copy_abs())
    if op in ("floor", "ceiling"):
        q = frac(A)
        n = q.numerator // q.denominator
        if op == "ceiling" and n != q:
            n += 1
        r = round_frac(Fraction(n))
        if r is None or Fraction(r) != n:
            return ("undecided", None)  # integer part not representable exactly cannot happen for decimal128 inputs
        return ("exact", r)
    if op == "decimal":
        scale = int(B)
        if B != B.to_integral_value():
            return ("undecided", None)
        q = frac(A) * Fraction(10) ** scale
        fl = q.numerator // q.denominator
        rem = q - fl
        if rem > Fraction(1, 2) or (rem == Fraction(1, 2) and fl % 2 == 1):
            fl += 1
        exact = Fraction(fl) / Fraction(10) ** scale
        digits = len(str(abs(fl))) if fl != 0 else 1
        if digits > 34:
            return ("null", None)  # the rounded value does not fit 34 digits at that scale
        if fl != 0 and (digits - 1 - scale) > 6144:
            return ("null", None)
        if scale > 6176 or scale < -6111:
            return ("null", None)
        return ("exactq", exact)
    if op == "modulo":
        if B == 0:
            return ("null", None)
        qa, qb = frac(A), frac(B)
        quo = qa / qb
        fl = quo.numerator // quo.denominator
        exact = qa - qb * fl
        r = round_frac(exact)
        if r is None:
            return ("null", None)
        return ("exact", r)
    if op == "sqrt":
        if A < 0:
            return ("null", None)
        return fin(CTX.sqrt(A))
    if op == "exp":
        r = CTX.exp(A)
        if f[decimal.Overflow]:
            return ("null", None)
        if f[decimal.Underflow] or f[decimal.Subnormal]:
            return ("under", r)
        return ("ulp2", r)
    if op == "ln":
        if A <= 0:
            return ("null", None)
        r = CTX.ln(A)
        return ("ulp2", r)
    if op in ("odd", "even"):
        q = frac(A)
        if q.denominator != 1:
            return ("undecided", None)
        is_even = q.numerator % 2 == 0
        return ("bool", is_even if op == "even" else not is_even)
    if op in ("eq", "lt", "le", "gt", "ge"):
        qa, qb = frac(A), frac(B)
        return ("bool", {"eq": qa == qb, "lt": qa < qb, "le": qa <= qb, "gt": qa > qb, "ge": qa >= qb}[op])
    return ("undecided", None)


# FEEL spellings
FEEL = {
    "add": "a + b", "sub": "a - b", "mul": "a * b", "div": "a / b", "pow": "a ** b", "neg": "-a", "abs": "abs(a)", "floor": "floor(a)",
    "ceiling": "ceiling(a)", "decimal": "decimal(a, b)", "modulo": "modulo(a, b)", "sqrt": "sqrt(a)", "exp": "exp(a)", "ln": "log(a)",
    "odd": "odd(a)", "even": "even(a)", "eq": "a = b", "lt": "a < b", "le": "a <= b", "gt": "a > b", "ge": "a >= b",
}
# direct FeelNumber method names of op `num` (None: no direct form with the same contract)
DIRECT = {
    "add": "add", "sub": "sub", "mul": "mul", "div": "div", "pow": "pow", "neg": "neg", "abs": "abs", "floor": "floor", "ceiling": "ceiling",
    "decimal": "round", "modulo": "rem", "sqrt": "sqrt", "exp": "exp", "ln": "ln", "odd": "odd", "even": "even", "eq": "eq", "lt": "lt",
    "le": "le", "gt": "gt", "ge": "ge",
}
BINARY = {"add", "sub", "mul", "div", "pow", "decimal", "modulo", "eq", "lt", "le", "gt", "ge"}


def coeff(rng, n, shape):
    if shape == "zero":
        return "0"
    if shape == "pow10":
        return "1" + "0" * (n - 1)
    if shape == "nines":
        return "9" * n
    if shape == "trail":
        keep = rng.randint(1, max(1, n - 1))
        return str(rng.randint(1, 9)) + "".join(str(rng.randint(0, 9)) for _ in range(keep - 1)) + "0" * (n - keep)
    s = str(rng.randint(1, 9)) + "".join(str(rng.randint(0, 9)) for _ in range(n - 1))
    return s


def operand(rng):
    n = rng.choice([1, 1, 2, 3, 5, 9, 16, 17, 18, 33, 34, 34])
    shape = rng.choice(["zero", "pow10", "nines", "trail", "rand", "rand", "rand"])
    c = coeff(rng, n, shape)
    band = rng.choice(["small", "small", "small", "zero", "mid", "large", "tiny", "edge_hi", "edge_lo", "sub"])
    if band == "small":
        e = rng.randint(-40, 40) - len(c) // 2
    elif band == "zero":
        e = 0
    elif band == "mid":
        e = rng.randint(-400, 400)
    elif band == "large":
        e = rng.randint(3000, 6111 - 0)
    elif band == "tiny":
        e = rng.randint(-6176, -3000)
    elif band == "edge_hi":
        e = rng.randint(6111 - 34, 6111)
    elif band == "edge_lo":
        e = rng.randint(-6176, -6176 + 40)
    else:
        e = rng.randint(-6176, -6143)
    e = max(-6176, min(6111, e))
    if len(c) + e - 1 > 6144:
        e = 6144 - len(c) + 1
    sign = "-" if rng.random() < 0.4 else ""
    return "%s%sE%d" % (sign, c, e)


def near(rng, a):
    """an operand related to `a` (see _near), always a finite decimal128 literal"""
    for _ in range(4):
        b = _near(rng, a)
        try:
            B = Decimal(b)
        except Exception:
            continue
        t = B.as_tuple()
        if B.is_finite() and len(t.digits) <= 34 and -6176 <= t.exponent <= 6111:
            return b
    return operand(rng)


def _near(rng, a):
    """an operand related to `a`: equal with other scale, neighbour, negation, 34+ orders apart"""
    A = dec(a)
    k = rng.random()
    if A == 0:
        return operand(rng)
    if k < 0.2:
        return str(A.copy_negate())
    if k < 0.4:
        # same value, more trailing zeros when they fit
        t = A.as_tuple()
        z = rng.randint(0, max(0, 34 - len(t.digits)))
        if t.exponent - z >= -6176:
            return "%s%sE%d" % ("-" if t.sign else "", "".join(map(str, t.digits)) + "0" * z, t.exponent - z)
        return a
    if k < 0.6:
        u = ulp_of(A)
        return str(CTX.add(A, u * rng.choice([1, -1, 2, -2])))
    if k < 0.8:
        sh = rng.choice([34, 35, 36, 40, 60]) * rng.choice([1, -1])
        e = A.adjusted() + sh
        e = max(-6176, min(6111, e))
        return "%s%dE%d" % ("-" if rng.random() < 0.5 else "", rng.randint(1, 9), e)
    return operand(rng)


def tie_cases(rng, n):
    """constructed exact ties: discarded part exactly one half, even and odd last kept digit, and +-1 next to it"""
    out = []
    for _ in range(n):
        c = coeff(rng, 34, "rand")
        last = rng.choice("0123456789")
        c = c[:-1] + last
        e = rng.randint(-60, 60)
        a = "%sE%d" % (c, e)
        sign = rng.choice(["", "-"])
        for tail in ("5", "4", "6", "50", "49", "51", "5000000000000000000000000000000001"):
            b = "%s%sE%d" % (sign, tail, e - len(tail))
            out.append(("add", sign + a if sign else a, b))
            out.append(("sub", a, ("-" if not sign else "") + b.lstrip("-")))
        # sticky digits: a discarded part that is one half plus (or one half minus) a SINGLE far digit - 5 0..0 d 0..0 and
        # 4 9..9 d' - with the digit at every distance from the rounding position (word-at-a-time scans of the discarded
        # digits look at them in groups); through + and - and through the conversion of a text of more than 34 digits
        for _k in range(8):
            z, m, d = rng.randint(0, 26), rng.randint(0, 12), rng.choice("123456789")
            tails = ["5" + "0" * z + d + "0" * m, "4" + "9" * z + rng.choice("012345678") + "0" * m, "5" + "0" * (z + m + 1), "0" * z + d + "0" * m]
            for tail in tails:
                b = "%s%sE%d" % (sign, tail, e - len(tail))
                out.append(("add", sign + a if sign else a, b))
                out.append(("sub", a, ("-" if not sign else "") + b.lstrip("-")))
                out.append(("add", "%s%s%sE%d" % (sign, c, tail, e - len(tail)), "0"))
                out.append(("mul", "%s%s%sE%d" % (sign, c, tail, e - len(tail)), "1"))
        # x / 2, x / 4, x / 8, x * 0.5, x * 1.5 with odd 34-digit x: 35-digit exact results
        out.append(("div", a, "2"))
        out.append(("div", a, "4"))
        out.append(("div", a, "8"))
        out.append(("div", a, "-2"))
        out.append(("mul", a, "0.5"))
        out.append(("mul", a, "1.5"))
        out.append(("mul", a, "2.5"))
        out.append(("mul", a, "-0.5"))
        # decimal(): half-way values at the requested scale
        k = rng.randint(0, 6)
        base = rng.randint(0, 10 ** 6)
        out.append(("decimal", "%d.%s5" % (base, "".join(rng.choice("0123456789") for _ in range(k))), str(k)))
        out.append(("decimal", "-%d.%s5" % (base, "".join(rng.choice("0123456789") for _ in range(k))), str(k)))
        out.append(("decimal", "%d.%s50000" % (base, "".join(rng.choice("02468") for _ in range(k)) if k else ""), str(k)))
        out.append(("decimal", "%d5" % base, "-1"))
        out.append(("decimal", "%d50" % base, "-2"))
    return out


def recurrence_cases(rng):
    """RECURRING arguments after many distinct ones: blocks of 60 calls of one operation - 35 distinct operands, then the first
    25 of them again - at the head of the plan, so that a block stays within one batch (one process, in order) of the direct
    and of the FEEL run. A memo, a pool or a ring of recent results that goes wrong once it is full shows on the recurrence."""
    out = []
    for op, b in (("exp", None), ("ln", None), ("sqrt", None), ("pow", "3"), ("decimal", "2"), ("modulo", "7"), ("div", "7"), ("exp", None), ("ln", None), ("mul", "1.000000000000000000000000000000001")):
        start = rng.randint(1, 40)
        xs = [str(Decimal(start + i) / Decimal(rng.choice([1, 2, 4, 8]))) for i in range(35)]
        xs = list(dict.fromkeys(xs))
        while len(xs) < 35:
            xs.append(str(Decimal(1000 + len(xs))))
        for x in xs + xs[:25]:
            out.append((op, x, b))
    return out


def gen_ops(rng, n):
    ops = []
    names = list(FEEL)
    for _ in range(n):
        op = rng.choice(names)
        a = operand(rng)
        if op in BINARY:
            if op == "decimal":
                b = str(rng.choice([0, 0, 1, 2, 3, 5, 10, 33, 34, 40, -1, -2, -5, -30, 100, 6000, 6176, -6111, -6112, 6177, rng.randint(-50, 50)]))
                if rng.random() < 0.5:
                    a = str(Decimal(rng.randint(-10 ** 12, 10 ** 12)).scaleb(-rng.randint(0, 12)))
            elif op == "pow":
                k = rng.random()
                if k < 0.5:
                    a = str(rng.choice([2, 3, 10, -2, 7, 0.5, 1.5, -1.5, 10, 0, 1, -1])) if rng.random() < 0.7 else a
                    b = str(rng.choice([0, 1, 2, 3, -1, -2, 10, 20, 100, 0.5, -0.5, 1.5, 6144, 6145, -6176, 20500, -20500]))
                else:
                    b = str(rng.choice([2, 3, -1, 0.5, 0, 1]))
            elif op == "modulo":
                b = rng.choice([operand(rng), "3", "-3", "0.7", "1E+10", "7", "-0.25", "0", "-0", near(rng, a)])
            else:
                b = near(rng, a) if rng.random() < 0.5 else operand(rng)
                if op == "div" and rng.random() < 0.1:
                    b = rng.choice(["0", "-0", "0E+10", "0.000"])
        else:
            b = None
            if op in ("exp",):
                a = str(rng.choice([0, 1, -1, 0.5, 10, -10, 100, 14000, 14149, 14150, 14200, -14200, -14150, -14300, 1e-30])) if rng.random() < 0.6 else a
            if op in ("odd", "even"):
                k = rng.random()
                if k < 0.5:
                    a = str(rng.randint(-10 ** 6, 10 ** 6))
                elif k < 0.7:
                    a = "%dE%d" % (rng.randint(1, 99), rng.randint(0, 60))
                elif k < 0.85:
                    a = "%d.%s" % (rng.randint(-50, 50), "0" * rng.randint(1, 4))
        ops.append((op, a, b))
    return ops


def parse_obs(x):
    """driver number string / json -> ('num', Decimal) | ('nonfinite', s) | ('null',) | ('bool', b) | ('other', x)"""
    if x is None:
        return ("null",)
    if isinstance(x, bool):
        return ("bool", x)
    if isinstance(x, dict) and "n" in x:
        x = x["n"]
    if isinstance(x, str):
        try:
            d = Decimal(x)
        except Exception:
            return ("other", x)
        if not d.is_finite():
            return ("nonfinite", x)
        return ("num", d)
    return ("other", x)


def band(s):
    d = dec(s)
    if d == 0:
        return "zero"
    adj = d.adjusted()
    if adj < -6143:
        return "subnormal"
    if adj < -3000:
        return "tiny"
    if adj > 6000:
        return "huge"
    if adj > 33:
        return "big"
    return "mid"


def sigdetail(op, a, b):
    if op == "modulo" and dec(b) != 0 and dec(a) != 0:
        qd = dec(a).adjusted() - dec(b).adjusted()
        if qd >= 34:
            return "quotient=over-34-digits"
        if qd >= 17:
            return "quotient=17-to-34-digits"
        if qd < -6100:
            return "quotient=underflows"
        if qd < 0:
            return "quotient=below-one"
        return "quotient=under-17-digits"
    out = "a=" + band(a)
    if b is not None:
        B = dec(b)
        out += ",b=" + band(b)
        if op in ("pow", "decimal"):
            out += "/" + ("neg" if B < 0 else "pos") + ("int" if B == B.to_integral_value() else "frac")
    return out


NO_OPTION = ("add", "sub", "mul", "div", "rem", "round", "exp", "neg", "abs", "floor", "ceiling")


def judge(op, a, b, exp_kind, exp_val, obs, level):
    r = judge0(op, a, b, exp_kind, exp_val, obs, level)
    if r is None:
        return None
    return (r[0] + ":" + sigdetail(op, a, b), r[1])


def judge0(op, a, b, exp_kind, exp_val, obs, level):
    """returns None when fine, or (signature-suffix, detail). level: 'direct' | 'feel'"""
    kind = obs[0]
    if kind == "nonfinite":
        if level == "direct" and DIRECT[op] in NO_OPTION:
            return None  # the operator's signature cannot express failure; decided through FEEL expressions
        return ("non-finite:op=%s" % op, "produced %s" % obs[1])
    if exp_kind == "undecided":
        return None
    if exp_kind == "null":
        if kind == "null":
            return None
        if level == "direct" and DIRECT[op] in NO_OPTION:
            return None  # these direct methods cannot express null (no Option in the signature); decided at the FEEL level
        return ("not-null:op=%s" % op, "undefined / out-of-range result must be null, got %s" % (obs,))
    if exp_kind == "bool":
        if kind == "bool" and obs[1] == exp_val:
            return None
        return ("wrong-bool:op=%s" % op, "expected %s got %s" % (exp_val, obs))
    if exp_kind == "under":
        if kind == "null":
            return None
        if kind == "num":
            if abs(obs[1] - exp_val) <= 2 * ulp_of(exp_val):
                return None
            return ("wrong-value-underflow:op=%s" % op, "expected %s (or null) got %s" % (exp_val, obs[1]))
        return ("wrong-kind:op=%s" % op, "expected a number or null, got %s" % (obs,))
    if kind != "num":
        return ("wrong-kind:op=%s:%s" % (op, kind), "expected %s got %s" % (exp_val, obs))
    if exp_kind == "exactq":
        if Fraction(obs[1]) == exp_val:
            return None
        return ("wrong-value:op=%s" % op, "expected %s got %s" % (exp_val, obs[1]))
    if exp_kind == "exact":
        if obs[1] == exp_val:
            return None
        diff = abs(obs[1] - exp_val)
        u = ulp_of(exp_val)
        cls = "off-by-1ulp" if diff <= u else ("off-by-few-ulp" if diff <= 10 * u else "far")
        return ("wrong-value:op=%s:%s" % (op, cls), "expected %s got %s" % (exp_val, obs[1]))
    if exp_kind == "ulp2":
        if abs(obs[1] - exp_val) <= 2 * ulp_of(exp_val):
            return None
        return ("wrong-value:op=%s:beyond-2ulp" % op, "expected %s got %s" % (exp_val, obs[1]))
    return None


def operand_class(s):
    d = dec(s)
    t = d.as_tuple()
    n = len(t.digits)
    if d == 0:
        return "zero"
    adj = d.adjusted()
    band = "sub" if adj < -6143 else ("huge" if adj > 6000 else ("tiny" if adj < -3000 else ("big" if adj > 34 else "mid")))
    return "%s:%s:%s" % ("-" if t.sign else "+", "34d" if n >= 33 else ("17d" if n >= 16 else "few"), band)


def run(rep, tier, seed):
    n_random = 40000 if tier == "quick" else 1500000
    n_ties = 300 if tier == "quick" else 20000
    rep.rule = (
        "operand tuples drawn from sign x coefficient length {1..34} x exponent band {subnormal, underflow edge, tiny, small, 0, mid, large, overflow edge} x shape "
        "{zero, power of ten, all nines, trailing zeros, random}, related second operands (negation, same value other scale, +-1/2 ulp neighbour, 34+ orders apart), "
        "constructed exact ties for + - * / decimal(), for all 21 operations; each tuple is executed directly on FeelNumber and as a FEEL expression. "
        "Distinct = (operation, a, b); non-trivial = not both operands zero."
    )
    rep.assumptions = [
        "CPython decimal (libmpdec) with prec=34, half-even, Emax=6144, Emin=-6143, clamp=1 is the reference for + - * / ** sqrt exp ln; floor, ceiling, decimal(), modulo, odd, even, comparisons by exact Fraction arithmetic and one rounding",
        "exp, log and inexact powers are accepted within 2 ulp; results in the underflow range may be the IEEE subnormal/zero result or null",
        "direct FeelNumber operators whose signature cannot express null (+ - * / % round exp) are judged for non-finite results only through FEEL expressions",
    ]
    rng = rng_for(seed, "c02")
    triples = recurrence_cases(rng) + tie_cases(rng, n_ties) + gen_ops(rng, n_random)
    # fixed regression anchors (quantifier corners)
    triples += [("mul", "1E+6144", "10"), ("add", "9.999999999999999999999999999999999E+6144", "1E+6111"), ("sub", "1E-6176", "1E-6176"), ("div", "1", "3"), ("div", "2", "3"),
                ("even", "1E+40", None), ("odd", "1E+40", None), ("modulo", "1E+40", "3"), ("pow", "10", "6145"), ("pow", "0", "0"), ("pow", "0", "-1"), ("exp", "14200", None),
                ("exp", "-14300", None), ("ln", "0", None), ("sqrt", "-0", None), ("sqrt", "2", None), ("decimal", "2.5", "0"), ("decimal", "3.5", "0"), ("decimal", "-2.5", "0")]
    # expected
    plan = []
    for op, a, b in triples:
        try:
            ek, ev_ = expected(op, a, b)
        except Exception as ex:  # reference failure is never a violation
            ek, ev_ = "undecided", None
        plan.append((op, a, b, ek, ev_))
    # direct cases
    dcases, dmeta = [], []
    for group in chunks(plan, 400):
        items = [[DIRECT[op], a, b if b is not None else "0"] for op, a, b, _, _ in group]
        dcases.append({"op": "num", "items": items})
        dmeta.append(group)
    # FEEL cases: scope per tuple, several texts per scope -> batch by evalmany with one scope per tuple is costly;
    # bind many operands at once: a0,b0,a1,b1,... in one scope
    fcases, fmeta = [], []
    for group in chunks(plan, 60):
        entries, texts = [], []
        for k, (op, a, b, _, _) in enumerate(group):
            entries.append(["a%d" % k, {"n": a}])
            if b is not None:
                entries.append(["b%d" % k, {"n": b}])
            texts.append(FEEL[op].replace("a", "a%d" % k, 1).replace("(a,", "(a%d," % k).replace("b", "b%d" % k) if False else _feel_text(op, k))
        fcases.append(warm({"op": "evalmany", "scope": [entries], "texts": texts}))
        fmeta.append(group)
    variants = ["dbg", "asan"]
    rep.extra["variants"] = []
    for variant in variants:
        frac_run = 1.0 if variant == "dbg" else (0.3 if tier == "quick" else 0.5)
        try:
            runner.build(variant)
        except runner.Inconclusive as e:
            if variant == "dbg":
                raise
            print("NOTE property=C02 sanitizer build unavailable, %s replay skipped: %s" % (variant, str(e)[:200]))
            rep.extra["asan_unavailable"] = str(e)[:300]
            continue
        nd = max(1, int(len(dcases) * frac_run))
        nf = max(1, int(len(fcases) * frac_run))
        dres, dm = runner.run_cases(variant, dcases[:nd], rep.workdir, label="direct", case_timeout=60)
        fres, fm = runner.run_cases(variant, fcases[:nf], rep.workdir, label="feel", case_timeout=60)
        rep.extra["variants"].append({"variant": variant, "direct_batches": nd, "feel_batches": nf})
        for san in dm["sanitizer_reports"] + fm["sanitizer_reports"]:
            rep.violation("sanitizer-report:" + variant, san[-1500:], None)
        _judge_all(rep, variant, "direct", dcases[:nd], dmeta[:nd], dres)
        _judge_all(rep, variant, "feel", fcases[:nf], fmeta[:nf], fres)
    # the same direct batches from 8 threads at once: every result must be the one computed alone (the decimal context
    # is per call; nothing a thread computes may change what another thread gets)
    npar = 12 if tier == "quick" else 400
    pcases = [dict(c, threads=8) for c in dcases[:: max(1, len(dcases) // npar)][:npar]]
    # plus batches made of the cheap operations only - inexact + - * / next to the integer checks (trunc, fract, odd,
    # even, is_integer on the same operands) - repeated 40 times per thread, so that they really meet in time
    arith = [(op, a, b) for op, a, b, _, _ in plan if op in ("add", "sub", "mul", "div")]
    for group in chunks(arith[: (6 if tier == "quick" else 200) * 150], 150):
        items = []
        for j, (op, a, b) in enumerate(group):
            items.append([DIRECT[op], a, b])
            items.append([("trunc", "fract", "odd", "even", "is_integer")[j % 5], a if j % 2 else b, "0"])
        pcases.append({"op": "num", "items": items, "threads": 8, "rounds": 40})
    pres, _ = runner.run_cases("dbg", pcases, rep.workdir, label="direct-parallel", case_timeout=120, nshards=4)
    pchecked = 0
    for c, r in zip(pcases, pres):
        if "harness_error" in r or r.get("missing"):
            raise runner.Inconclusive("driver harness error: %s" % json.dumps(r)[:300])
        if "rs" not in r:
            rep.violation(crash_signature(r, "c02-parallel-batch"), "parallel batch died: %s" % json.dumps(r)[:600], {"variant": "dbg", "case": c})
            continue
        pchecked += r.get("par_checked", 0)
        rep.count(r.get("par_checked", 0))
        for d in r.get("par_diffs", [])[:1]:
            rep.violation("concurrent-result-differs:op=%s" % d["item"][0], "%s(%s, %s) computed while 7 other threads compute gives %s, alone %s" % (d["item"][0], d["item"][1], d["item"][2], d["concurrent"], d["alone"]), {"variant": "dbg", "case": c, "expected": d["alone"], "observed": d["concurrent"]})
    rep.extra["operations_repeated_from_8_threads"] = pchecked
    # valgrind memcheck replay of a slice (uninitialised reads / heap errors inside decNumber and at the FFI
    # buffers, which ASan's red zones and write-only C instrumentation do not show)
    nv = (2, 4) if tier == "quick" else (64, 96)
    step_d, step_f = max(1, len(dcases) // nv[0]), max(1, len(fcases) // nv[1])
    runner.memcheck_replay(rep, dcases[::step_d][: nv[0]] + fcases[::step_f][: nv[1]])
    if rep.evaluations < 10000:
        rep.inconclusive_reason("too few operations observed: %d" % rep.evaluations)


def _feel_text(op, k):
    t = FEEL[op]
    out = []
    for ch in t.split(" "):
        out.append(ch)
    s = t
    # replace standalone identifiers a / b by ak / bk
    import re

    s = re.sub(r"\ba\b", "a%d" % k, s)
    s = re.sub(r"\bb\b", "b%d" % k, s)
    return s


def _judge_all(rep, variant, level, cases, meta, results):
    for case, group, res in zip(cases, meta, results):
        if "harness_error" in res or res.get("missing"):
            raise runner.Inconclusive("driver harness error: %s" % json.dumps(res)[:300])
        if "rs" not in res:
            rep.violation(crash_signature(res, "c02-%s-batch" % level) + ":" + variant, "batch died on %s: %s" % (variant, json.dumps(res)[:800]), {"variant": variant, "case": case})
            continue
        for k, ((op, a, b, ek, ev_), r) in enumerate(zip(group, res["rs"])):
            rep.count()
            if isinstance(r, dict) and "harness_error" in r:
                raise runner.Inconclusive("driver harness error: %s" % json.dumps(r)[:300])
            if isinstance(r, dict) and "panic" in r:
                rep.violation(panic_signature(r["panic"]) + ":op=" + op, "panic in %s(%s, %s): %s" % (op, a, b, r["panic"].get("msg")), _replay(variant, level, op, a, b, k, case))
                continue
            if level == "feel" and isinstance(r, dict) and "rep_diff" in r:
                rep.violation("repeated-evaluation-differs:op=%s" % op, "%s(%s, %s) evaluated twice by one prepared evaluator over the same scope: %s" % (op, a, b, json.dumps(r["rep_diff"])[:300]), _replay(variant, level, op, a, b, k, case))
            if level == "feel":
                if "v" not in r:
                    rep.violation("no-value:op=%s" % op, "FEEL %s did not evaluate: %s" % (FEEL[op], json.dumps(r)[:300]), _replay(variant, level, op, a, b, k, case))
                    continue
                obs = parse_obs(r["v"])
            else:
                obs = parse_obs(r)
            if ek == "undecided":
                rep.undecided += 1
            if variant == "dbg" and (dec(a) != 0 or (b is not None and dec(b) != 0)):
                rep.seen((op, a, b))
            rep.bump("class:%s:%s" % (op, ek))
            bad = judge(op, a, b, ek, ev_, obs, level)
            if bad:
                sig, detail = bad
                rep.violation("%s:%s" % (sig, level), "%s(%s, %s) via %s on %s: %s" % (op, a, b, level, variant, detail), _replay(variant, level, op, a, b, k, case, ev_, obs))
            elif len(rep.samples) < 5 and ek in ("exact", "ulp2") and level == "feel":
                rep.sample({"expression": FEEL[op], "a": a, "b": b, "expected": str(ev_), "observed": str(obs[1]) if len(obs) > 1 else None})


def _replay(variant, level, op, a, b, k, case, exp=None, obs=None):
    if level == "direct":
        c = {"op": "num", "items": [[DIRECT[op], a, b if b is not None else "0"]]}
    else:
        entries = [["a0", {"n": a}]] + ([["b0", {"n": b}]] if b is not None else [])
        c = {"op": "evalmany", "scope": [entries], "texts": [_feel_text(op, 0)]}
    return {"variant": variant, "case": c, "expected": str(exp), "observed": str(obs)}


def _valgrind_slice(rep, cases):
    """memcheck on the plain dbg binary for a slice of the workload (no address-remembering monitor active)"""
    path = runner.build("dbg")
    d = os.path.join(rep.workdir, "valgrind")
    os.makedirs(d, exist_ok=True)
    inp = os.path.join(d, "in.jsonl")
    out = os.path.join(d, "out.jsonl")
    with open(inp, "w") as f:
        for c in cases:
            f.write(json.dumps(c) + "\n")
    if os.path.exists(out):
        os.remove(out)
    try:
        p = subprocess.run(["valgrind", "--error-exitcode=97", "--track-origins=no", "-q", path, "--in", inp, "--out", out], stdout=subprocess.PIPE, stderr=subprocess.PIPE, text=True, timeout=3000)
    except (subprocess.TimeoutExpired, FileNotFoundError) as e:
        print("NOTE property=C02 valgrind slice not completed: %r" % (e,))
        rep.extra["valgrind"] = "not completed"
        return
    rep.extra["valgrind"] = {"returncode": p.returncode, "cases": len(cases)}
    if p.returncode == 97:
        rep.violation("valgrind-memcheck-report", p.stderr[-2000:], None)
